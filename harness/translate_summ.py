#!/usr/bin/env python3
"""Translator, part 5: the two pure functions that classify a retired nameplate / mailbox for the usage database
(`AppNamespace._summarize_nameplate_usage`, `AppNamespace._summarize_mailbox` of server.py) ->
lean/Wormhole/GeneratedSumm.lean, in the little functional language of lean/Wormhole/PySum.lean.

Statements: `v = <expr>`, `if/elif/else` of such, `return Usage(field=<expr>, …)`.
Expressions: None, integers, strings, locals, the parameters `delete_time` / `pruned`, `self._blur_usage`,
`sorted([row["f"] for row in side_rows])`, `[row["f"] for row in side_rows if row.get("f")]`, `e[i]`, `len(e)`,
`a - b`, `a * b`, `a // b`, `a > b`, `a == b`, `"s" in e`, `t if c else e`, truthiness tests.
Anything else makes the translation fail (reported, never guessed).  Nothing is imported or executed.
`Wormhole/Tie/Summ.lean` proves the generated functions equal to the model's `summarizeNameplate` / `summarizeMailbox`
(Core.lean) for every list of side rows, every deletion time, both values of `pruned` and every blur setting.
"""
import ast, os

from translate import TranslateError, SRC, HERE, lean_str

OUT = os.path.join(os.path.dirname(HERE), "lean", "Wormhole", "GeneratedSumm.lean")


class Fn:
    def __init__(self, f):
        self.f = f
        self.params = [a.arg for a in f.args.args]
        self.locals = set()

    def err(self, what, n):
        raise TranslateError("%s line %d: %s: %s" % (self.f.name, getattr(n, "lineno", 0), what, ast.unparse(n)[:80]))

    def rowfield(self, n, var):
        """row["f"] -> f"""
        if isinstance(n, ast.Subscript) and isinstance(n.value, ast.Name) and n.value.id == var \
                and isinstance(n.slice, ast.Constant) and isinstance(n.slice.value, str):
            return n.slice.value
        return None

    def listcomp(self, n):
        """[row["f"] for row in side_rows [if row.get("f")]] -> (f, filtered)"""
        if isinstance(n, ast.ListComp) and len(n.generators) == 1 and isinstance(n.generators[0].target, ast.Name) \
                and isinstance(n.generators[0].iter, ast.Name) and n.generators[0].iter.id == "side_rows":
            g = n.generators[0]
            f = self.rowfield(n.elt, g.target.id)
            if f is None:
                return None
            if not g.ifs:
                return f, False
            if len(g.ifs) == 1:
                c = g.ifs[0]
                if isinstance(c, ast.Call) and isinstance(c.func, ast.Attribute) and isinstance(c.func.value, ast.Name) \
                        and c.func.value.id == g.target.id and c.func.attr == "get" and len(c.args) == 1 \
                        and isinstance(c.args[0], ast.Constant) and c.args[0].value == f:
                    return f, True
        return None

    def expr(self, n):
        if isinstance(n, ast.Constant):
            if n.value is None:
                return ".none_"
            if isinstance(n.value, bool):
                self.err("unsupported constant", n)
            if isinstance(n.value, int):
                return ".int %d" % n.value
            if isinstance(n.value, str):
                return ".str %s" % lean_str(n.value)
            self.err("unsupported constant", n)
        if isinstance(n, ast.Name):
            if n.id in self.locals:
                return ".var %s" % lean_str(n.id)
            if n.id in ("delete_time", "pruned") and n.id in self.params:
                return ".param %s" % lean_str(n.id)
            self.err("unknown name", n)
        if isinstance(n, ast.Attribute) and isinstance(n.value, ast.Name) and n.value.id == "self" and n.attr == "_blur_usage":
            return ".blur"
        if isinstance(n, ast.Call) and isinstance(n.func, ast.Name) and len(n.args) == 1 and not n.keywords:
            if n.func.id == "sorted":
                lc = self.listcomp(n.args[0])
                if lc and not lc[1]:
                    return ".sortedField %s" % lean_str(lc[0])
            if n.func.id == "len":
                return ".len (%s)" % self.expr(n.args[0])
            if n.func.id == "set":
                # a set of the values: only membership is ever asked of it
                return self.expr(n.args[0])
        lc = self.listcomp(n)
        if lc:
            return (".fieldIfTruthy %s" if lc[1] else ".fieldList %s") % lean_str(lc[0])
        if isinstance(n, ast.Subscript) and isinstance(n.slice, ast.Constant) and isinstance(n.slice.value, int) and n.slice.value >= 0:
            return ".index (%s) %d" % (self.expr(n.value), n.slice.value)
        if isinstance(n, ast.BinOp):
            ops = {ast.Sub: "sub", ast.Mult: "mul", ast.FloorDiv: "floordiv"}
            for k, v in ops.items():
                if isinstance(n.op, k):
                    return ".%s (%s) (%s)" % (v, self.expr(n.left), self.expr(n.right))
        if isinstance(n, ast.Compare) and len(n.ops) == 1:
            op, l, r = n.ops[0], n.left, n.comparators[0]
            if isinstance(op, ast.Gt):
                return ".gt (%s) (%s)" % (self.expr(l), self.expr(r))
            if isinstance(op, ast.Eq):
                return ".eq (%s) (%s)" % (self.expr(l), self.expr(r))
            if isinstance(op, ast.In) and isinstance(l, ast.Constant) and isinstance(l.value, str):
                return ".inList %s (%s)" % (lean_str(l.value), self.expr(r))
        if isinstance(n, ast.IfExp):
            return ".ite (%s) (%s) (%s)" % (self.expr(n.test), self.expr(n.body), self.expr(n.orelse))
        self.err("unsupported expression", n)

    def stmts(self, body):
        return "[" + ", ".join(self.stmt(s) for s in body if not (isinstance(s, ast.Expr) and isinstance(s.value, ast.Constant))) + "]"

    def stmt(self, st):
        if isinstance(st, ast.Assign) and len(st.targets) == 1 and isinstance(st.targets[0], ast.Name):
            e = self.expr(st.value)
            self.locals.add(st.targets[0].id)
            return ".assign %s (%s)" % (lean_str(st.targets[0].id), e)
        if isinstance(st, ast.If):
            c = self.expr(st.test)
            t = self.stmts(st.body)
            # locals assigned in one branch only are still locals afterwards (Python scoping)
            e = self.stmts(st.orelse)
            return ".if_ (%s) %s %s" % (c, t, e)
        if isinstance(st, ast.Return) and isinstance(st.value, ast.Call) and getattr(st.value.func, "id", None) == "Usage" \
                and not st.value.args:
            kw = ", ".join("(%s, %s)" % (lean_str(k.arg), self.expr(k.value)) for k in st.value.keywords)
            return ".ret [%s]" % kw
        self.err("unsupported statement", st)


def generate():
    path = os.path.join(SRC, "server.py")
    tree = ast.parse(open(path).read(), path)
    cls = [n for n in tree.body if isinstance(n, ast.ClassDef) and n.name == "AppNamespace"]
    if not cls:
        raise TranslateError("class AppNamespace not found")
    funcs = {f.name: f for f in cls[0].body if isinstance(f, ast.FunctionDef)}
    L = ["/- GENERATED by harness/translate_summ.py from /repo/src/wormhole_mailbox_server/server.py -- do not edit.",
         "   The two pure functions that classify a retired nameplate / mailbox for the usage database. -/",
         "import Wormhole.PySum", "", "namespace Wormhole.GenSumm", "open Wormhole.PySum", ""]
    info = {}
    for name, ident in (("_summarize_nameplate_usage", "nameplate"), ("_summarize_mailbox", "mailbox")):
        if name not in funcs:
            raise TranslateError("%s not found" % name)
        f = funcs[name]
        want = ["self", "side_rows", "delete_time", "pruned"]
        if [a.arg for a in f.args.args] != want:
            raise TranslateError("%s: parameters are no longer %s" % (name, want))
        fn = Fn(f)
        L.append("/-- `AppNamespace.%s(self, side_rows, delete_time, pruned)` -/" % name)
        L.append("def %s : List SS :=\n  %s" % (ident, fn.stmts(f.body)))
        L.append("")
        info[name] = len(f.body)
    L.append("end Wormhole.GenSumm")
    return "\n".join(L) + "\n", info


def main():
    try:
        text, info = generate()
    except (TranslateError, OSError, SyntaxError) as e:
        return {"error": str(e)}
    old = open(OUT).read() if os.path.exists(OUT) else None
    if old != text:
        with open(OUT + ".tmp", "w") as f:
            f.write(text)
        os.replace(OUT + ".tmp", OUT)
    return {"functions": info, "changed": old != text}


if __name__ == "__main__":
    import json, sys
    json.dump(main(), sys.stdout, indent=1)
    print()
