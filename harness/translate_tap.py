#!/usr/bin/env python3
"""Translator, part 6: the periodic sweep of server_tap.makeService -> lean/Wormhole/GeneratedTap.lean.

Reads (with `ast`, nothing is imported or run) the nested function `expire()` of `makeService` and the `TimerService(…)` call
that schedules it, and emits them as data in the language of lean/Wormhole/PyTap.lean:

    now = time.time()                         .now "now"
    old = now - CHANNEL_EXPIRATION_TIME       .assign "old" (.sub (.var "now") (.const "CHANNEL_EXPIRATION_TIME"))
    try: server.prune_all_apps(now, old)      .tryCall "prune_all_apps" [.var "now", .var "old"] "Exception"
    except Exception as e: log…               (the handler may only log)
    server.dump_stats(now, rebooted=rebooted) .call "dump_stats" [.var "now"] [("rebooted", .outer "rebooted")]

plus `timer : (period constant, callee)` from `TimerService(EXPIRATION_CHECK_PERIOD, expire)` and the statement
`rebooted = time.time()` of makeService.  Any other statement, any other expression, an `except` that does more than
log, a handler narrower than `Exception` are translated as what they are or make the translation fail.
`Wormhole/Tie/Tap.lean` proves that running the generated `expire` IS the model's `Sys.expire`.
"""
import ast, os

from translate import TranslateError, SRC, HERE, lean_str

OUT = os.path.join(os.path.dirname(HERE), "lean", "Wormhole", "GeneratedTap.lean")


def expr(n, locs):
    if isinstance(n, ast.Name):
        if n.id in locs:
            return ".var %s" % lean_str(n.id)
        if n.id.isupper():
            return ".const %s" % lean_str(n.id)
        return ".outer %s" % lean_str(n.id)
    if isinstance(n, ast.BinOp) and isinstance(n.op, ast.Sub):
        return ".sub (%s) (%s)" % (expr(n.left, locs), expr(n.right, locs))
    if isinstance(n, ast.Call) and ast.unparse(n) == "time.time()":
        return ".clock"
    raise TranslateError("expire: unsupported expression %s" % ast.unparse(n)[:60])


def only_logs(body):
    for st in body:
        if isinstance(st, ast.Expr) and isinstance(st.value, ast.Call) and ast.unparse(st.value.func) in ("log.msg", "log.err"):
            continue
        if isinstance(st, ast.Pass):
            continue
        return False
    return True


def server_call(n):
    """server.<meth>(args, kw=…) -> (meth, args, kwargs) or None"""
    if isinstance(n, ast.Call) and isinstance(n.func, ast.Attribute) and isinstance(n.func.value, ast.Name) \
            and n.func.value.id == "server":
        return n.func.attr, n.args, n.keywords
    return None


def generate():
    path = os.path.join(SRC, "server_tap.py")
    tree = ast.parse(open(path).read(), path)
    ms = [f for f in tree.body if isinstance(f, ast.FunctionDef) and f.name == "makeService"]
    if not ms:
        raise TranslateError("makeService not found")
    ms = ms[0]
    ex = [f for f in ms.body if isinstance(f, ast.FunctionDef) and f.name == "expire"]
    if len(ex) != 1 or ex[0].args.args:
        raise TranslateError("makeService no longer defines expire() without parameters")
    stmts, locs = [], set()
    for st in ex[0].body:
        if isinstance(st, ast.Assign) and len(st.targets) == 1 and isinstance(st.targets[0], ast.Name):
            e = expr(st.value, locs)
            locs.add(st.targets[0].id)
            stmts.append(".assign %s (%s)" % (lean_str(st.targets[0].id), e))
            continue
        if isinstance(st, ast.Try) and not st.orelse and not st.finalbody and len(st.body) == 1 and len(st.handlers) == 1:
            h = st.handlers[0]
            sc = server_call(st.body[0].value) if isinstance(st.body[0], ast.Expr) else None
            if sc and not sc[2] and getattr(h.type, "id", None) is not None and only_logs(h.body):
                stmts.append(".tryCall %s [%s] %s" % (lean_str(sc[0]), ", ".join(expr(a, locs) for a in sc[1]), lean_str(h.type.id)))
                continue
        if isinstance(st, ast.Expr):
            sc = server_call(st.value)
            if sc:
                kw = ", ".join("(%s, %s)" % (lean_str(k.arg), expr(k.value, locs)) for k in sc[2])
                stmts.append(".call %s [%s] [%s]" % (lean_str(sc[0]), ", ".join(expr(a, locs) for a in sc[1]), kw))
                continue
        raise TranslateError("expire: unsupported statement %s" % ast.unparse(st)[:70])
    timers = [n for n in ast.walk(ms) if isinstance(n, ast.Call) and getattr(n.func, "id", None) == "TimerService"]
    if len(timers) != 1 or len(timers[0].args) != 2 or timers[0].keywords or not all(isinstance(a, ast.Name) for a in timers[0].args):
        raise TranslateError("makeService no longer has exactly one TimerService(<constant>, <function>)")
    period, callee = timers[0].args[0].id, timers[0].args[1].id
    reb = [st for st in ms.body if isinstance(st, ast.Assign) and len(st.targets) == 1 and getattr(st.targets[0], "id", None) == "rebooted"]
    if len(reb) != 1 or ast.unparse(reb[0].value) != "time.time()":
        raise TranslateError("makeService no longer sets rebooted = time.time()")
    L = ["/- GENERATED by harness/translate_tap.py from /repo/src/wormhole_mailbox_server/server_tap.py -- do not edit. -/",
         "import Wormhole.PyTap", "", "namespace Wormhole.GenTap", "open Wormhole.PyTap", "",
         "/-- the nested function `expire()` of `makeService` -/",
         "def expire : List TS := [", ",\n".join("  " + s for s in stmts), "]", "",
         "/-- `TimerService(<period constant>, <callee>)` -/",
         "def timer : String × String := (%s, %s)" % (lean_str(period), lean_str(callee)), "",
         "end Wormhole.GenTap"]
    return "\n".join(L) + "\n", {"statements": len(stmts), "timer": [period, callee]}


def main():
    try:
        text, info = generate()
    except (TranslateError, OSError, SyntaxError) as e:
        return {"error": str(e)}
    old = open(OUT).read() if os.path.exists(OUT) else None
    if old != text:
        with open(OUT + ".tmp", "w") as f:
            f.write(text)
        os.replace(OUT + ".tmp", OUT)
    info["changed"] = old != text
    return info


if __name__ == "__main__":
    import json, sys
    json.dump(main(), sys.stdout, indent=1)
    print()
