#!/usr/bin/env python3
"""Translator, part 4: the BODIES of the handle_* methods of server_websocket.py -> lean/Wormhole/GeneratedWsBody.lean.

Every handler that `onMessage` dispatches to is translated statement by statement into the small imperative
language of lean/Wormhole/PyWs.lean (`PS` / `PE`), if it consists only of

    if <test>: … [else: …]        raise Error("<text>")            assert …
    self.<attr> = <expr>          <local> = <expr>                 self.send("<type>", k=<expr>, …)
    [<target> =] self._app.<m>(<expr>, …)      [<target> =] self._mailbox.<m>(<expr>, …)
    try: <statements>  except <Cls>: raise Error("<text>") …

with expressions built from None / True / False / string constants, `self`, `server_rx`, `self.<attr>`, locals,
`msg["k"]`, `msg.get("k")`, `msg.get("k", (None, None))`, `"k" in msg`, `not`, `or`, `is None`, `is not None`, `==`, `!=`.
A handler that uses anything else (nested functions, loops, comprehensions, keyword arguments in a call, …) is emitted
as `none` with the reason in a comment: it stays tied by differential execution only (on the pinned tree:
handle_list, handle_open, handle_add).  Nothing is imported or executed.

`Wormhole/Tie/WsBody.lean` proves, for the handlers translated, that running the generated body (`PyWs.runHandler`)
IS the model's handler function of Ws.lean.
"""
import ast, os

from translate import TranslateError, SRC, HERE, lean_str
import translate_ws

OUT = os.path.join(os.path.dirname(HERE), "lean", "Wormhole", "GeneratedWsBody.lean")


def namedtuples(path):
    """`X = namedtuple("X", [f1, f2, ...])` of server.py -> {X: [fields in declared order]}"""
    res = {}
    for n in ast.parse(open(path).read(), path).body:
        if isinstance(n, ast.Assign) and len(n.targets) == 1 and isinstance(n.targets[0], ast.Name) \
                and isinstance(n.value, ast.Call) and getattr(n.value.func, "id", None) == "namedtuple" and len(n.value.args) == 2:
            try:
                res[n.targets[0].id] = list(ast.literal_eval(n.value.args[1]))
            except Exception:
                pass
    return res


class Body:
    def __init__(self, func, records=None):
        self.f = func
        self.params = [a.arg for a in func.args.args]
        self.locals = set()
        self.record_types = records or {}     # constructor name -> declared fields
        self.records = {}                     # local name -> declared fields of the record it holds

    def err(self, what, node):
        raise TranslateError("%s line %d: %s: %s" % (self.f.name, getattr(node, "lineno", 0), what, ast.unparse(node)[:70]))

    def expr(self, n):
        if isinstance(n, ast.Constant):
            if n.value is None:
                return ".none_"
            if n.value is True:
                return ".true_"
            if n.value is False:
                return ".false_"
            if isinstance(n.value, str):
                return ".str %s" % lean_str(n.value)
            self.err("unsupported constant", n)
        if isinstance(n, ast.Name):
            if n.id == "self":
                return ".self_"
            if n.id == "server_rx" and "server_rx" in self.params:
                return ".rx"
            if n.id in self.locals:
                return ".local_ %s" % lean_str(n.id)
            if n.id in getattr(self, "fns", set()):
                return ".fn %s" % lean_str(n.id)
            self.err("unknown name", n)
        if translate_ws._is_self_attr(n):
            return ".attr %s" % lean_str(n.attr)
        if isinstance(n, ast.Subscript) and isinstance(n.value, ast.Name) and n.value.id == "msg" \
                and isinstance(n.slice, ast.Constant) and isinstance(n.slice.value, str):
            return ".item %s" % lean_str(n.slice.value)
        if isinstance(n, ast.Call) and isinstance(n.func, ast.Attribute) and isinstance(n.func.value, ast.Name) \
                and n.func.value.id == "msg" and n.func.attr == "get" and not n.keywords \
                and n.args and isinstance(n.args[0], ast.Constant) and isinstance(n.args[0].value, str):
            if len(n.args) == 1:
                return ".get %s" % lean_str(n.args[0].value)
            if len(n.args) == 2 and ast.unparse(n.args[1]) == "(None, None)":
                return ".getPair %s" % lean_str(n.args[0].value)
            self.err("unsupported msg.get default", n)
        if isinstance(n, ast.UnaryOp) and isinstance(n.op, ast.Not):
            return ".not_ (%s)" % self.expr(n.operand)
        if isinstance(n, ast.BoolOp) and isinstance(n.op, ast.Or) and len(n.values) == 2:
            return ".or_ (%s) (%s)" % (self.expr(n.values[0]), self.expr(n.values[1]))
        if isinstance(n, ast.Compare) and len(n.ops) == 1:
            op, l, r = n.ops[0], n.left, n.comparators[0]
            if isinstance(op, (ast.In, ast.NotIn)) and isinstance(l, ast.Constant) and isinstance(l.value, str) \
                    and isinstance(r, ast.Name) and r.id == "msg":
                h = ".has %s" % lean_str(l.value)
                return h if isinstance(op, ast.In) else ".not_ (%s)" % h
            if isinstance(op, (ast.Is, ast.IsNot)) and isinstance(r, ast.Constant) and r.value is None:
                return (".isNone (%s)" if isinstance(op, ast.Is) else ".notNone (%s)") % self.expr(l)
            if isinstance(op, ast.NotEq):
                return ".ne (%s) (%s)" % (self.expr(l), self.expr(r))
            if isinstance(op, ast.Eq):
                return ".eq (%s) (%s)" % (self.expr(l), self.expr(r))
        if isinstance(n, ast.Call) and isinstance(n.func, ast.Name) and n.func.id == "sorted" and len(n.args) == 1 and not n.keywords:
            return ".sorted (%s)" % self.expr(n.args[0])
        if isinstance(n, ast.ListComp) and len(n.generators) == 1 and not n.generators[0].ifs \
                and isinstance(n.generators[0].target, ast.Name) and isinstance(n.elt, ast.Dict) and len(n.elt.keys) == 1 \
                and isinstance(n.elt.keys[0], ast.Constant) and isinstance(n.elt.keys[0].value, str) \
                and isinstance(n.elt.values[0], ast.Name) and n.elt.values[0].id == n.generators[0].target.id:
            return ".dictEach %s (%s)" % (lean_str(n.elt.keys[0].value), self.expr(n.generators[0].iter))
        self.err("unsupported expression", n)

    def call(self, n, into):
        """self._app.m(args) / self._mailbox.m(args)"""
        if not (isinstance(n, ast.Call) and isinstance(n.func, ast.Attribute) and translate_ws._is_self_attr(n.func.value)
                and n.func.value.attr in ("_app", "_mailbox")):
            return None
        if n.keywords:
            self.err("keyword arguments in a call", n)
        parts = []
        for a in n.args:
            if isinstance(a, ast.Name) and a.id in self.records:
                # a record built by a keyword constructor: passed as its fields, in the declared order of the namedtuple
                parts += [".local_ %s" % lean_str("%s.%s" % (a.id, f)) for f in self.records[a.id]]
            else:
                parts.append(self.expr(a))
        args = ", ".join(parts)
        tgt = "none" if into is None else "(some (%s, %s))" % ("true" if into[0] else "false", lean_str(into[1]))
        return ".call %s %s %s [%s]" % (tgt, lean_str(n.func.value.attr), lean_str(n.func.attr), args)

    def stmts(self, body):
        return "[" + ", ".join(self.stmt(s) for s in body if not self.is_doc(s)) + "]"

    @staticmethod
    def is_doc(s):
        return isinstance(s, ast.Expr) and isinstance(s.value, ast.Constant)

    def stmt(self, st):
        text = translate_ws.Fn.raise_text(st)
        if text is not None:
            return ".raise_ %s" % lean_str(text)
        if isinstance(st, ast.Assert):
            return ".assert_"
        if isinstance(st, ast.If):
            return ".if_ (%s) %s %s" % (self.expr(st.test), self.stmts(st.body), self.stmts(st.orelse))
        if isinstance(st, ast.Assign) and len(st.targets) == 1:
            tg = st.targets[0]
            into = (True, tg.attr) if translate_ws._is_self_attr(tg) else ((False, tg.id) if isinstance(tg, ast.Name) else None)
            if into is None:
                self.err("unsupported assignment target", st)
            v = st.value
            if not into[0] and isinstance(v, ast.Call) and isinstance(v.func, ast.Name) and v.func.id in self.record_types \
                    and not v.args and v.keywords:
                fields = self.record_types[v.func.id]
                if sorted(k.arg for k in v.keywords) != sorted(fields):
                    self.err("constructor keywords are not the declared fields %s" % fields, st)
                self.records[into[1]] = fields
                out = []
                for k in v.keywords:        # evaluated in the order written
                    out.append(".setLocal %s (%s)" % (lean_str("%s.%s" % (into[1], k.arg)), self.expr(k.value)))
                return ", ".join(out)
            c = self.call(st.value, into)
            if c is not None:
                if not into[0]:
                    self.locals.add(into[1])
                return c
            if not into[0] and isinstance(v, ast.Call) and isinstance(v.func, ast.Name) and v.func.id == "sorted" \
                    and len(v.args) == 1 and not v.keywords:
                tmp = "%s#arg" % into[1]
                c = self.call(v.args[0], (False, tmp))
                if c is not None:
                    self.locals.add(tmp)
                    self.locals.add(into[1])
                    return "%s, .setLocal %s (.sorted (.local_ %s))" % (c, lean_str(into[1]), lean_str(tmp))
            e = self.expr(st.value)
            if into[0]:
                return ".setAttr %s (%s)" % (lean_str(into[1]), e)
            self.locals.add(into[1])
            return ".setLocal %s (%s)" % (lean_str(into[1]), e)
        if isinstance(st, ast.Expr):
            v = st.value
            if isinstance(v, ast.Call) and translate_ws._is_self_attr(v.func) and v.func.attr == "send" and len(v.args) == 1 \
                    and isinstance(v.args[0], ast.Constant) and isinstance(v.args[0].value, str):
                kw = ", ".join("(%s, %s)" % (lean_str(k.arg), self.expr(k.value)) for k in v.keywords)
                return ".send %s [%s]" % (lean_str(v.args[0].value), kw)
            c = self.call(v, None)
            if c is not None:
                return c
            self.err("unsupported expression statement", st)
        if isinstance(st, ast.FunctionDef) and not st.decorator_list:
            params = [a.arg for a in st.args.args]
            body = [b for b in st.body if not self.is_doc(b) and not isinstance(b, ast.Pass)]
            # def f(p): self.send("ty", k=p.field, ...)
            if len(params) == 1 and len(body) == 1 and isinstance(body[0], ast.Expr) and isinstance(body[0].value, ast.Call) \
                    and translate_ws._is_self_attr(body[0].value.func) and body[0].value.func.attr == "send" \
                    and len(body[0].value.args) == 1 and isinstance(body[0].value.args[0], ast.Constant):
                kws = []
                for k in body[0].value.keywords:
                    v = k.value
                    if not (isinstance(v, ast.Attribute) and isinstance(v.value, ast.Name) and v.value.id == params[0]):
                        self.err("unsupported argument of send in a nested function", v)
                    kws.append("(%s, %s)" % (lean_str(k.arg), lean_str(v.attr)))
                self.fns = getattr(self, "fns", set()) | {st.name}
                return ".defSend %s %s %s [%s]" % (lean_str(st.name), lean_str(params[0]), lean_str(body[0].value.args[0].value),
                                                   ", ".join(kws))
            # def f(): self.a = e; ...
            if not params and body and all(isinstance(b, ast.Assign) and len(b.targets) == 1 and translate_ws._is_self_attr(b.targets[0])
                                           for b in body):
                rs = ", ".join("(%s, %s)" % (lean_str(b.targets[0].attr), self.expr(b.value)) for b in body)
                self.fns = getattr(self, "fns", set()) | {st.name}
                return ".defStop %s [%s]" % (lean_str(st.name), rs)
            self.err("unsupported nested function", st)
        if isinstance(st, ast.For) and not st.orelse and isinstance(st.target, ast.Name) and len(st.body) == 1:
            it, b = st.iter, st.body[0]
            if isinstance(it, ast.Call) and isinstance(it.func, ast.Attribute) and translate_ws._is_self_attr(it.func.value) \
                    and it.func.value.attr in ("_app", "_mailbox") and not it.keywords \
                    and isinstance(b, ast.Expr) and isinstance(b.value, ast.Call) and isinstance(b.value.func, ast.Name) \
                    and b.value.func.id in getattr(self, "fns", set()) and len(b.value.args) == 1 and not b.value.keywords \
                    and isinstance(b.value.args[0], ast.Name) and b.value.args[0].id == st.target.id:
                args = ", ".join(self.expr(a) for a in it.args)
                return ".forCall %s %s %s [%s] %s" % (lean_str(st.target.id), lean_str(it.func.value.attr), lean_str(it.func.attr),
                                                      args, lean_str(b.value.func.id))
            self.err("unsupported for loop", st)
        if isinstance(st, ast.Try) and not st.orelse and not st.finalbody:
            hs = []
            for h in st.handlers:
                cls = getattr(h.type, "id", None)
                t = Fn_raise(h.body)
                if cls is None or t is None or h.name is not None:
                    self.err("unsupported except clause", h)
                hs.append("(%s, %s)" % (lean_str(cls), lean_str(t)))
            return ".try_ %s [%s]" % (self.stmts(st.body), ", ".join(hs))
        self.err("unsupported statement", st)


def Fn_raise(body):
    if len(body) == 1:
        return translate_ws.Fn.raise_text(body[0])
    return None


def generate():
    path = os.path.join(SRC, "server_websocket.py")
    tree = ast.parse(open(path).read(), path)
    cls = [n for n in tree.body if isinstance(n, ast.ClassDef) and n.name == "WebSocketServer"]
    if not cls:
        raise TranslateError("class WebSocketServer not found")
    funcs = {f.name: f for f in cls[0].body if isinstance(f, ast.FunctionDef)}
    _, hs = translate_ws.translate(path)
    records = namedtuples(os.path.join(SRC, "server.py"))
    L = ["/- GENERATED by harness/translate_wsbody.py from /repo/src/wormhole_mailbox_server/server_websocket.py -- do not edit.",
         "   The bodies of the handle_* methods in the statement language of PyWs.lean (`none` = not expressible in it). -/",
         "import Wormhole.PyWs", "", "namespace Wormhole.GenWsBody", "open Wormhole.PyWs", ""]
    info = {}
    for h, _ in hs:
        f = funcs[h]
        try:
            b = Body(f, records)
            txt = b.stmts(f.body)
            L.append("/-- `%s(%s)` -/" % (h, ", ".join(b.params)))
            L.append("def %s : Option (List PS) := some\n  %s" % (h, txt))
            info[h] = "translated"
        except TranslateError as e:
            L.append("/-- `%s`: NOT translated: %s -/" % (h, str(e).replace("-/", "- /")))
            L.append("def %s : Option (List PS) := none" % h)
            info[h] = "not translated: %s" % e
        L.append("")
    L.append("/-- the handlers `onMessage` dispatches to, by name -/")
    L.append("def table : List (String × Option (List PS)) := [")
    L.append(",\n".join("  (%s, %s)" % (lean_str(h), h) for h, _ in hs))
    L.append("]")
    L.append("")
    L.append("end Wormhole.GenWsBody")
    return "\n".join(L) + "\n", info


def main():
    try:
        text, info = generate()
    except (TranslateError, OSError, SyntaxError) as e:
        return {"error": str(e)}
    old = open(OUT).read() if os.path.exists(OUT) else None
    if old != text:
        with open(OUT + ".tmp", "w") as f:
            f.write(text)
        os.replace(OUT + ".tmp", OUT)
    return {"handlers": info, "changed": old != text}


if __name__ == "__main__":
    import json, sys
    json.dump(main(), sys.stdout, indent=1)
    print()
