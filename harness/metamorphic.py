"""Two-run (metamorphic) oracles on the IMPLEMENTATION: the property is a relation between
two histories, so the real code is run on both and its observations are compared.
C06 (other apps removed), C10 (crash + re-send), C11 (kept vs rebuilt server),
C14 (duplicate command), C18 (configurations)."""
import copy, random, itertools
import corr, proto
from oracles import Finding, Tables, make_trace, close_target, dec

CHAN_TABLES = ("nameplates", "nameplate_sides", "mailboxes", "mailbox_sides", "messages", "nextnp")


def chan_only(dump):
    return [x for x in (dump or []) if x.split(" ")[1] in CHAN_TABLES]


def usage_no_reboot(dump):
    out = []
    for x in dump or []:
        p = x.split(" ")
        if p[1].startswith("u_"):
            if p[1] == "u_current":
                p[2] = "_"
            out.append(" ".join(p))
    return out


def _obs(history, mode):
    return corr.observe(history, reader=False, timer=mode.get("timer", False), dumps="all")


# ------------------------------------------------------------------------------------- C11
def check_C11(tr, history, meta, rng):
    if not any(op["op"] == "restart" for op in history):
        return []
    soft = [dict(op, op="softrestart") if op["op"] == "restart" else op for op in history]
    a = tr.obs
    b = _obs(soft, meta.get("mode", {}))
    out = []
    # the status row carries the reboot time, so a usage commit of dump_stats may be effective in one
    # run and not in the other (cf. `eraseUsage` in Props/C11.lean): usage commits are not compared
    nu = lambda ev: [e for e in (ev or []) if e != "C usage"] if ev is not None else None
    for i, ((op, ea, da), (_, eb, db)) in enumerate(zip(a["steps"], b["steps"])):
        ea, eb = nu(ea), nu(eb)
        if ea != eb:
            out.append(Finding("C11", "answers after a restart equal those of a server that was kept", i,
                               {"op": proto.op_line(op) if op["op"] != "softrestart" else "restart", "rebuilt": ea, "kept": eb}))
            break
        if chan_only(da) != chan_only(db) or usage_no_reboot(da) != usage_no_reboot(db):
            x, y = chan_only(da) + usage_no_reboot(da), chan_only(db) + usage_no_reboot(db)
            out.append(Finding("C11", "stored state after a restart equals that of a server that was kept", i,
                               {"op": proto.op_line(op), "rebuilt_only": [r for r in x if r not in y][:6],
                                "kept_only": [r for r in y if r not in x][:6]}))
            break
    return out


# ------------------------------------------------------------------------------------- C18
def check_C18(tr, history, meta, rng, thorough=False):
    cfg = history[0]
    variants = []
    for al, us, bl in itertools.product([True, False], [True, False], [None, 7, 3600]):
        v = dict(cfg, allow_list=al, usage=us, blur=bl)
        if (v["allow_list"], v["usage"], v["blur"]) != (cfg.get("allow_list", True), bool(cfg.get("usage")), cfg.get("blur")):
            variants.append(v)
    if not thorough:
        variants = rng.sample(variants, 3)

    def erase(ev):
        out = []
        for e in ev or []:
            p = e.split(" ")
            if p[0] == "C" and p[1] == "usage":
                continue
            if p[0] == "F" and p[3] == "nameplates":
                p = p[:4]
            out.append(" ".join(p))
        return out
    out = []
    a = tr.obs
    for v in variants:
        b = _obs([v] + history[1:], meta.get("mode", {}))
        for i, ((op, ea, da), (_, eb, db)) in enumerate(zip(a["steps"], b["steps"])):
            if op["op"] == "cfg":
                continue
            if erase(ea) != erase(eb):
                out.append(Finding("C18", "answers do not depend on the listing/usage/blur options", i,
                                   {"op": proto.op_line(op), "config_a": {k: cfg.get(k) for k in ("allow_list", "usage", "blur")},
                                    "config_b": {k: v.get(k) for k in ("allow_list", "usage", "blur")}, "a": erase(ea), "b": erase(eb)}))
                break
            if chan_only(da) != chan_only(db):
                x, y = chan_only(da), chan_only(db)
                out.append(Finding("C18", "the channel database does not depend on the listing/usage/blur options", i,
                                   {"op": proto.op_line(op), "config_b": {k: v.get(k) for k in ("allow_list", "usage", "blur")},
                                    "a_only": [r for r in x if r not in y][:6], "b_only": [r for r in y if r not in x][:6]}))
                break
        if out:
            break
    return out


# ------------------------------------------------------------------------------------- C06
def _conn_apps(history):
    """connection -> app it binds to (first bind carrying appid and side), from the history text"""
    apps = {}
    for op in history:
        if op["op"] == "recv" and op["msg"].get("type") == "bind" and "appid" in op["msg"] and "side" in op["msg"]:
            apps.setdefault(op["c"], op["msg"]["appid"])
        if op["op"] in ("restart",):
            pass
    return apps


def _view(steps_ops, obs, app, conn_apps, keep_index):
    """per original step index: frames to app's connections + app's rows (nameplate side rows joined to names)"""
    view = {}
    for (op, ev, d), idx in zip(obs["steps"], keep_index):
        frames = []
        for e in ev or []:
            p = e.split(" ")
            if p[0] == "F" and conn_apps.get(int(p[1])) == app:
                frames.append(e)
        rows = None
        if d is not None:
            T = Tables(d)
            names = {r[0]: r[2] for r in T.nameplates if r[1] == app}
            mbs = {r[1] for r in T.mailboxes if r[0] == app}
            rows = (sorted((r[2], r[3]) for r in T.nameplates if r[1] == app),
                    sorted((names[s[0]],) + s[1:] for s in T.np_sides if s[0] in names),
                    sorted(r for r in T.mailboxes if r[0] == app),
                    sorted(s for s in T.mb_sides if s[0] in mbs),
                    sorted((r for r in T.messages if r[0] == app), key=repr),
                    sorted((r for r in T.u_nameplates if r[0] == app), key=repr),
                    sorted((r for r in T.u_mailboxes if r[0] == app), key=repr),
                    sorted((r for r in T.u_clients if r[0] == app), key=repr))
        view[idx] = (frames, rows)
    return view


def check_C06(tr, history, meta, rng):
    conn_apps = _conn_apps(history)
    apps = sorted(set(conn_apps.values()))
    if len(apps) < 2:
        return []
    out = []
    full_view_cache = {}
    for app in apps:
        keep, keep_index = [], []
        for i, op in enumerate(history):
            c = op.get("c")
            if op["op"] in ("connect", "recv", "drop") and c in conn_apps and conn_apps[c] != app:
                continue
            keep.append(op); keep_index.append(i)
        b = _obs(keep, meta.get("mode", {}))
        vb = _view(keep, b, app, conn_apps, keep_index)
        va = _view(history, tr.obs, app, conn_apps, list(range(len(history))))
        for idx in keep_index:
            if idx not in vb:
                continue
            fa, ra = va[idx]
            fb, rb = vb[idx]
            op = history[idx]
            if fa != fb:
                out.append(Finding("C06", "what an app's clients observe does not depend on other apps' activity", idx,
                                   {"app": app, "op": proto.op_line(op), "with_others": fa, "alone": fb},
                                   _c06_known(tr, idx, app, conn_apps)))
                break
            if ra is not None and rb is not None and ra != rb:
                names = ("nameplates", "nameplate_sides", "mailboxes", "mailbox_sides", "messages", "usage nameplates",
                         "usage mailboxes", "client versions")
                diff = {n: {"with_others": [x for x in a_ if x not in b_][:4], "alone": [x for x in b_ if x not in a_][:4]}
                        for n, a_, b_ in zip(names, ra, rb) if a_ != b_}
                out.append(Finding("C06", "what is stored for an app does not depend on other apps' activity", idx,
                                   {"app": app, "op": proto.op_line(op), "difference": diff}, _c06_known(tr, idx, app, conn_apps)))
                break
        if [f for f in out if f.known is None]:
            break           # (a difference excused as a known finding does not stop the other apps' comparison)
    return out


def _c06_known(tr, idx, app=None, conn_apps=None):
    """K-global-mailbox-id: a connection of the VIEWED app was refused a mailbox id because it
    exists under another app (IntegrityError); from then on its view legitimately depends on
    the other app.  IntegrityErrors suffered by other apps do not excuse anything."""
    for st in tr.steps:
        if st.i > idx:
            break
        for e in st.internal():
            if e["cls"] == "IntegrityError" and (app is None or (conn_apps or {}).get(e["c"]) == app):
                return "K-global-mailbox-id"
    return None


# ------------------------------------------------------------------------------------- C14
def _eligible(tr):
    res = []
    for st in tr.steps:
        op = st.op
        if op["op"] != "recv" or st.crashed():
            continue
        c, m = op["c"], op["msg"]
        t = m.get("type")
        b = st.bind_pre.get(c)
        if not b or st.internal():
            continue
        if t == "claim" and st.frames(c, "claimed"):
            res.append((st, dict(m)))
        elif t == "release" and st.frames(c, "released"):
            name = m.get("nameplate") if m.get("nameplate") is not None else st.flags_pre.get(c, {}).get("np")
            if name is not None:
                res.append((st, dict(m, nameplate=name)))
        elif t == "open" and not st.frames(c, "error") and "mailbox" in m:
            res.append((st, dict(m)))
        elif t == "close" and st.frames(c, "closed"):
            mb = close_target(st)
            if mb is not None:
                res.append((st, dict(m, mailbox=mb)))
    return res


def _answer(ev, c):
    """frames to c, without the ack id and without the connection number"""
    out = []
    for e in ev or []:
        p = e.split(" ")
        if p[0] == "F" and int(p[1]) == c:
            out.append(" ".join(p[3:]))
    return sorted(out) if any(x.startswith("message") for x in out) else out


def check_C14(tr, history, meta, rng, thorough=False):
    el = _eligible(tr)
    if not el:
        return []
    if not thorough:
        el = rng.sample(el, min(3, len(el)))
    out = []
    cmax = max([op["c"] for op in history if "c" in op] + [0])
    for st, msg in el:
        variants = [False, True] if thorough else [rng.random() < 0.35]
        for with_restart in variants:
            out += _c14_one(tr, history, meta, st, msg, cmax, with_restart)
            if [f for f in out if f.known is None]:
                return out
    return out


def _same_record_modulo_time(row, rows):
    """a usage row that duplicates one of `rows` for the same table/app/result"""
    p = row.split(" ")
    for r_ in rows:
        q = r_.split(" ")
        if q[1] == p[1] and q[2] == p[2] and q[-1] == p[-1]:
            return True
    return False


def _c14_one(tr, history, meta, st, msg, cmax, with_restart):
    """the history with the command of step `st` duplicated on a fresh connection of the same side
    right after it (optionally: after a server restart that both runs get) versus without"""
    out = []
    j = st.i
    op = history[j]
    b = st.bind_pre[op["c"]]
    c2 = cmax + 1000
    dup = [{"op": "connect", "c": c2},
           {"op": "recv", "c": c2, "t": op["t"], "msg": {"type": "bind", "appid": b[0], "side": b[1]}},
           {"op": "recv", "c": c2, "t": op["t"], "msg": msg, "fresh": "dup-%d" % j, "pick": 0, "draws": []},
           {"op": "drop", "c": c2}]
    if with_restart:
        dead = {o["c"] for o in history[:j + 1] if o["op"] == "connect"}
        tail, alive = [], set()
        for o in history[j + 1:]:
            if o["op"] == "connect":
                alive.add(o["c"])
            if "c" in o and o["c"] in dead and o["c"] not in alive:
                continue      # its connection died in the restart
            if o["op"] == "crash":
                break
            tail.append(o)
        mid = [{"op": "restart", "t": op["t"]}]
        base_h = history[:j + 1] + mid + tail
        a = _obs(base_h, meta.get("mode", {}))
    else:
        mid = []
        base_h = history
        a = tr.obs
    off = j + 1 + len(mid)
    dup_h = base_h[:off] + dup + base_h[off:]
    b_obs = _obs(dup_h, meta.get("mode", {}))
    orig_ans = [x for x in _answer(a["steps"][j][1], op["c"]) if not x.startswith("ack")]
    dup_ans = [x for x in _answer(b_obs["steps"][off + 2][1], c2) if not x.startswith("ack")]
    mbid = msg.get("mailbox") if msg.get("type") in ("open", "close") else None
    if msg.get("type") == "claim" and st.post is not None:
        row = st.post.np_by_key().get((b[0], msg["nameplate"]))
        mbid = row[3] if row else None
    nsides = len([s for s in (st.post.mb_sides if st.post else []) if s[0] == mbid]) if mbid else 0
    what = proto.op_line(op) + (" (duplicate sent after a server restart)" if with_restart else "")
    if orig_ans != dup_ans:
        crowded_tok = "error " + proto.hx("crowded")
        known = "K-crowded-rejoin" if (nsides >= 3 and dup_ans == [crowded_tok]) else None
        out.append(Finding("C14", "a re-sent command gets the same answer", j,
                           {"command": what, "original": orig_ans, "duplicate": dup_ans}, known))
        return out
    k = len(dup)
    # the state right after the duplicate, then every later answer and state
    for i in range(off - 1, len(base_h)):
        (opa, ea, da), (_, eb, db) = a["steps"][i], b_obs["steps"][i + k]
        # the duplicate may write an extra usage record; the usage database is not channel state
        ea = [e for e in (ea or []) if e != "C usage"]
        eb = [e for e in (eb or []) if e != "C usage"]
        if i >= off and ea != eb:
            out.append(Finding("C14", "later answers do not differ after a re-sent command", i,
                               {"command": what, "later_op": proto.op_line(opa), "without": ea, "with": eb},
                               _touch_known(msg, a, b_obs, off - 1, k)))
            break
        if da is not None and db is not None and chan_only(da) != chan_only(db):
            x, y = chan_only(da), chan_only(db)
            out.append(Finding("C14", "the stored channel state does not differ after a re-sent command", i,
                               {"command": what, "without_only": [r for r in x if r not in y][:5],
                                "with_only": [r for r in y if r not in x][:5]},
                               _touch_known(msg, a, b_obs, off - 1, k)))
            break
    return out


def _touch_known(msg, a, b_obs, j, k):
    """K-close-touch: right after a duplicated close of a surviving mailbox the only difference
    is that mailbox's `updated` (and what follows from it)"""
    if msg.get("type") != "close":
        return None
    da, db = chan_only(a["steps"][j][2]), chan_only(b_obs["steps"][j + k][2])
    x = [r for r in da if r not in db]
    y = [r for r in db if r not in da]
    if len(x) == 1 and len(y) == 1:
        p, q = x[0].split(" "), y[0].split(" ")
        if p[1] == "mailboxes" and q[1] == "mailboxes" and p[2:4] == q[2:4] and p[5:] == q[5:] and p[4] != q[4] \
                and msg.get("mailbox") is not None and p[3] == proto.hx(msg["mailbox"]):
            return "K-close-touch"
    return None


# ------------------------------------------------------------------------------------- C10 (re-send)
def check_C10_resend(tr, history, meta, rng, thorough=False):
    el = [(st, m) for st, m in _eligible(tr)]
    if not el:
        return []
    if not thorough:
        el = rng.sample(el, min(2, len(el)))
    out = []
    cmax = max([op["c"] for op in history if "c" in op] + [0])
    for st, msg in el:
        j = st.i
        op = history[j]
        if j > 0 and history[j - 1]["op"] == "crash":
            continue
        b = st.bind_pre[op["c"]]
        ncommit = len([e for e in st.events if e["k"] == "C"])
        a = tr.obs
        want_ans = [x for x in _answer(a["steps"][j][1], op["c"]) if not x.startswith("ack")]
        want_db = chan_only(a["steps"][j][2])
        # k = 0: the process dies between the previous command and this one (whatever was not yet
        # committed is lost, the command itself never ran); k >= 1: right after its k-th commit
        for k in range(0, ncommit + 1):
            c2 = cmax + 2000
            h2 = history[:j] + [{"op": "crash", "k": k}, op, {"op": "restart", "t": op["t"]},
                                {"op": "connect", "c": c2},
                                {"op": "recv", "c": c2, "t": op["t"], "msg": {"type": "bind", "appid": b[0], "side": b[1]}},
                                {"op": "recv", "c": c2, "t": op["t"], "msg": msg, "fresh": op.get("fresh", "resend-%d" % j),
                                 "pick": 0, "draws": []}]
            bo = _obs(h2, meta.get("mode", {}))
            for (o2, e2, d2) in bo["steps"]:
                for e in e2 or []:
                    if e.startswith("!"):
                        out.append(Finding("C10", "the server restarts on the files a crash left", j, {"event": e, "crash_after_commit": k}))
            got_ans = [x for x in _answer(bo["steps"][-1][1], c2) if not x.startswith("ack")]
            got_db = chan_only(bo["steps"][-1][2])
            # the usage records (not the status row, not the client-version rows: the re-send binds again)
            urec = lambda d: sorted(x for x in (d or []) if x.split(" ")[1] in ("u_nameplates", "u_mailboxes"))
            want_u, got_u = urec(a["steps"][j][2]), urec(bo["steps"][-1][2])
            mbid = msg.get("mailbox")
            if msg.get("type") == "claim" and st.post is not None:
                row = st.post.np_by_key().get((b[0], msg["nameplate"]))
                mbid = row[3] if row else None
            nsides = len([s for s in (st.post.mb_sides if st.post else []) if s[0] == mbid]) if mbid else 0
            if got_ans != want_ans:
                known = "K-crowded-rejoin" if (nsides >= 3 and got_ans == ["error " + proto.hx("crowded")]) else None
                out.append(Finding("C10", "a re-sent command after a crash gets the same answer", j,
                                   {"command": proto.op_line(op), "crash_after_commit": k, "uncrashed": want_ans, "resent": got_ans}, known))
            elif got_db != want_db:
                x = [r for r in want_db if r not in got_db]
                y = [r for r in got_db if r not in want_db]
                known = None
                if msg.get("type") == "close" and len(x) == 1 and len(y) == 1:
                    p, q = x[0].split(" "), y[0].split(" ")
                    if p[1] == "mailboxes" and p[2:4] == q[2:4] and p[5:] == q[5:] and p[3] == proto.hx(msg.get("mailbox") or ""):
                        known = "K-close-touch"
                out.append(Finding("C10", "a re-sent command after a crash reaches the same stored state", j,
                                   {"command": proto.op_line(op), "crash_after_commit": k, "uncrashed_only": x[:5], "resent_only": y[:5]}, known))
            if got_ans == want_ans and got_db == want_db and got_u != want_u:
                extra = list(got_u)
                for r_ in want_u:
                    if r_ in extra:
                        extra.remove(r_)
                missing = [r_ for r_ in want_u if got_u.count(r_) < want_u.count(r_)]
                # K-usage-crash-dup: the crash fell between the usage commit and the channel commit, so the
                # re-sent command writes the very same record(s) again (exact duplicates).
                # K-reclose-usage-row: a re-sent close of a mailbox that is already gone creates and deletes it
                # again and records that phantom (for_nameplate=0, total_time=0, no waiting time).
                def phantom(row):
                    q = row.split(" ")
                    return msg.get("type") == "close" and q[1] == "u_mailboxes" and q[3] == "0" and q[5] == "0" and q[6] == "~"
                before_u = urec(a["steps"][j - 1][2]) if j > 0 else []
                own = list(want_u)
                for r_ in before_u:
                    if r_ in own:
                        own.remove(r_)          # `own` = the records the uncrashed step itself wrote
                crashed_usage = [e for e in st.raw_events if e.startswith("C ")][k - 1:k] == ["C usage"]
                kinds = set()
                for e_ in extra:
                    if e_ in own and crashed_usage:
                        kinds.add("K-usage-crash-dup")
                    elif phantom(e_):
                        kinds.add("K-reclose-usage-row")
                    else:
                        kinds.add(None)
                known = None if (missing or None in kinds or not kinds) else sorted(kinds)[0]
                out.append(Finding("C10", "a re-sent command after a crash reaches the same stored state (usage records)", j,
                                   {"command": proto.op_line(op), "crash_after_commit": k, "extra_usage_rows": extra[:4],
                                    "missing_usage_rows": missing[:4]}, known))
            if [f for f in out if f.known is None]:
                return out
    return out
