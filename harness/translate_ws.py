#!/usr/bin/env python3
"""Translator, part 3: the validation layer of server_websocket.py -> lean/Wormhole/GeneratedWs.lean.

`WebSocketServer.onMessage` and every `handle_*` begin with checks that `raise Error(<text>)` before
anything is written or any other object is called.  This translator reads those prefixes with `ast`
(nothing is imported or executed) and emits them as DATA:

  * for `onMessage` (the body of its `try:`), the ordered list of items
        guard  <conditions> <text>      `if …: raise Error(text)` / a bare `raise Error(text)`
        ack                            `self.send("ack", id=msg.get("id"))`
        dispatch <type string> <handler>    `if mtype == "<type>": return self.handle_x(…)`
  * for each handler, the ordered list of guards reachable before its first effect (an attribute
    assignment, a call on another object, a send), each with its path condition: the conjunction of the
    `if` tests on the way (negated for `else` branches).

Conditions are over `msg` (key present / absent, item) and the connection's attributes
(`self._x` truthy / falsy / is None / is not None, `msg[k] != self._x`, `a or b`).
Anything else in a test position, a guard that uses a local assigned inside a branch, or an `onMessage`
that no longer has the shape above makes the translation fail (TranslateError): the static tie of the
validation layer is then reported as not established, never guessed.

`Wormhole/WsGuards.lean` evaluates the generated lists on a connection record and a raw JSON object;
`Wormhole/Tie/WsReject.lean` proves that the result equals the model's `rejectText` on the decoded command,
for every connection state and every object of the decoder's domain.
"""
import ast, os, re

from translate import TranslateError, SRC, HERE, lean_str

OUT = os.path.join(os.path.dirname(HERE), "lean", "Wormhole", "GeneratedWs.lean")


def _is_self_attr(n):
    return isinstance(n, ast.Attribute) and isinstance(n.value, ast.Name) and n.value.id == "self"


class Fn:
    def __init__(self, func, msgvar="msg"):
        self.f = func
        self.msg = msgvar
        self.locals = {}         # name -> expression AST (pure), assigned at top level of the prefix
        self.branch_locals = set()

    # ---- expressions -------------------------------------------------------------------------
    def expr(self, n):
        """-> Lean GE term"""
        if isinstance(n, ast.Name):
            if n.id in self.branch_locals:
                raise TranslateError("%s: a check uses local %r assigned inside a branch" % (self.f.name, n.id))
            if n.id in self.locals:
                return self.expr(self.locals[n.id])
            raise TranslateError("%s: unknown name %r in a check" % (self.f.name, n.id))
        if _is_self_attr(n):
            return ".attr %s" % lean_str(n.attr)
        if isinstance(n, ast.Subscript) and isinstance(n.value, ast.Name) and n.value.id == self.msg \
                and isinstance(n.slice, ast.Constant) and isinstance(n.slice.value, str):
            return ".item %s" % lean_str(n.slice.value)
        if isinstance(n, ast.BoolOp) and isinstance(n.op, ast.Or) and len(n.values) == 2:
            return ".or_ (%s) (%s)" % (self.expr(n.values[0]), self.expr(n.values[1]))
        if isinstance(n, ast.Constant) and isinstance(n.value, str):
            return ".lit %s" % lean_str(n.value)
        raise TranslateError("%s: unsupported expression in a check: %s" % (self.f.name, ast.unparse(n)))

    def cond(self, n, neg=False):
        """-> list of Lean Cond terms (a conjunction); `neg` = the test is negated"""
        if isinstance(n, ast.UnaryOp) and isinstance(n.op, ast.Not):
            return self.cond(n.operand, not neg)
        if isinstance(n, ast.Compare) and len(n.ops) == 1:
            op, l, r = n.ops[0], n.left, n.comparators[0]
            if isinstance(op, (ast.In, ast.NotIn)) and isinstance(l, ast.Constant) and isinstance(l.value, str) \
                    and isinstance(r, ast.Name) and r.id == self.msg:
                present = isinstance(op, ast.In) != neg
                return [(".has %s" if present else ".notHas %s") % lean_str(l.value)]
            if isinstance(op, (ast.Is, ast.IsNot)) and isinstance(r, ast.Constant) and r.value is None:
                isnone = isinstance(op, ast.Is) != neg
                return [(".isNone (%s)" if isnone else ".notNone (%s)") % self.expr(l)]
            if isinstance(op, (ast.NotEq, ast.Eq)):
                ne = isinstance(op, ast.NotEq) != neg
                return [(".ne (%s) (%s)" if ne else ".eq (%s) (%s)") % (self.expr(l), self.expr(r))]
        if isinstance(n, (ast.Name, ast.Attribute, ast.BoolOp, ast.Subscript)):
            return [(".falsy (%s)" if neg else ".truthy (%s)") % self.expr(n)]
        raise TranslateError("%s: unsupported test: %s" % (self.f.name, ast.unparse(n)))

    # ---- statements --------------------------------------------------------------------------
    @staticmethod
    def raise_text(st):
        if isinstance(st, ast.Raise) and isinstance(st.exc, ast.Call) and getattr(st.exc.func, "id", None) == "Error" \
                and len(st.exc.args) == 1 and isinstance(st.exc.args[0], ast.Constant) and isinstance(st.exc.args[0].value, str):
            return st.exc.args[0].value
        return None

    def pure_assign(self, st):
        if isinstance(st, ast.Assign) and len(st.targets) == 1 and isinstance(st.targets[0], ast.Name):
            v = st.value
            ok = _is_self_attr(v) or (isinstance(v, ast.Subscript) and isinstance(v.value, ast.Name) and v.value.id == self.msg) \
                or (isinstance(v, ast.Call) and isinstance(v.func, ast.Attribute) and isinstance(v.func.value, ast.Name)
                    and v.func.value.id == self.msg and v.func.attr == "get")
            return ok
        return False

    def guards(self, body, path, top=True):
        """collect guards of `body` under path condition `path`; -> (guards, stopped) where stopped = an effect
        was met (nothing after it belongs to the validation prefix)"""
        out = []
        for st in body:
            text = self.raise_text(st)
            if text is not None:
                out.append((list(path), text))
                return out, True          # this path ends here
            if isinstance(st, ast.Assert) or (isinstance(st, ast.Expr) and isinstance(st.value, ast.Constant)):
                continue                  # asserts delimit the domain (see Decode.lean); docstrings
            if self.pure_assign(st):
                name = st.targets[0].id
                if top:
                    self.locals[name] = st.value
                else:
                    self.branch_locals.add(name)
                continue
            if isinstance(st, ast.If):
                g1, s1 = self.guards(st.body, path + self.cond(st.test), False)
                g2, s2 = self.guards(st.orelse, path + self.cond(st.test, True), False) if st.orelse else ([], False)
                out += g1 + g2
                # a branch that ended in an effect (not a raise) ends the prefix
                e1 = s1 and not (st.body and self._ends_in_raise(st.body))
                e2 = s2 and not (st.orelse and self._ends_in_raise(st.orelse))
                if e1 or e2:
                    return out, True
                continue
            return out, True              # an effect: end of the validation prefix
        return out, False

    def _ends_in_raise(self, body):
        last = body[-1]
        if self.raise_text(last) is not None:
            return True
        if isinstance(last, ast.If) and last.orelse:
            return self._ends_in_raise(last.body) and self._ends_in_raise(last.orelse)
        return False


def lean_guard(g):
    conds, text = g
    return "{ conds := [%s], text := %s }" % (", ".join(conds), lean_str(text))


def translate(path):
    tree = ast.parse(open(path).read(), path)
    cls = [n for n in tree.body if isinstance(n, ast.ClassDef) and n.name == "WebSocketServer"]
    if not cls:
        raise TranslateError("class WebSocketServer not found")
    funcs = {f.name: f for f in cls[0].body if isinstance(f, ast.FunctionDef)}
    if "onMessage" not in funcs:
        raise TranslateError("onMessage not found")
    om = funcs["onMessage"]
    trys = [s for s in om.body if isinstance(s, ast.Try)]
    if len(trys) != 1:
        raise TranslateError("onMessage no longer has one try block")
    t = trys[0]
    # the except clause must be: except Error as e: self.send("error", error=e._explain, orig=msg)
    if len(t.handlers) != 1 or getattr(t.handlers[0].type, "id", None) != "Error":
        raise TranslateError("onMessage: the try block no longer catches exactly Error")
    F = Fn(om)
    items = []
    handlers_used = []
    acked = False
    for st in t.body:
        text = Fn.raise_text(st)
        if text is not None:
            items.append(".guard { conds := [], text := %s }" % lean_str(text))
            break
        if F.pure_assign(st):
            F.locals[st.targets[0].id] = st.value
            continue
        if isinstance(st, ast.Expr) and isinstance(st.value, ast.Call) and _is_self_attr(st.value.func) \
                and st.value.func.attr == "send" and st.value.args and isinstance(st.value.args[0], ast.Constant) \
                and st.value.args[0].value == "ack":
            kw = {k.arg: ast.unparse(k.value) for k in st.value.keywords}
            if kw != {"id": "msg.get('id')"}:
                raise TranslateError("onMessage: the ack no longer echoes msg.get('id'): %r" % kw)
            items.append(".ack")
            acked = True
            continue
        if isinstance(st, ast.If) and not st.orelse and len(st.body) == 1:
            inner = st.body[0]
            rt = Fn.raise_text(inner)
            if rt is not None:
                items.append(".guard %s" % lean_guard((F.cond(st.test), rt)))
                continue
            if isinstance(inner, ast.Return) and isinstance(inner.value, ast.Call) and _is_self_attr(inner.value.func):
                # if mtype == "<const>": return self.handle_x(...)
                tst = st.test
                if isinstance(tst, ast.Compare) and len(tst.ops) == 1 and isinstance(tst.ops[0], ast.Eq) \
                        and isinstance(tst.comparators[0], ast.Constant) and isinstance(tst.comparators[0].value, str) \
                        and F.expr(tst.left) == '.item "type"':
                    h = inner.value.func.attr
                    items.append(".dispatch %s %s" % (lean_str(tst.comparators[0].value), lean_str(h)))
                    handlers_used.append(h)
                    continue
        raise TranslateError("onMessage: statement not understood: %s" % ast.unparse(st)[:80])
    if not acked:
        raise TranslateError("onMessage: no ack found")
    hs = []
    for h in handlers_used:
        if h not in funcs:
            raise TranslateError("handler %s not found" % h)
        f = funcs[h]
        msgvar = "msg" if any(a.arg == "msg" for a in f.args.args) else "\0none"
        G = Fn(f, msgvar)
        gs, _ = G.guards(f.body, [])
        hs.append((h, gs))
    return items, hs


def generate():
    items, hs = translate(os.path.join(SRC, "server_websocket.py"))
    L = ["/- GENERATED by harness/translate_ws.py from /repo/src/wormhole_mailbox_server/server_websocket.py -- do not edit.",
         "   The validation layer: what onMessage and the handle_* functions check before their first effect. -/",
         "import Wormhole.WsGuards", "", "namespace Wormhole.GenWs", "open Wormhole.WsGuards", "",
         "/-- the body of `onMessage`'s try block, in source order -/", "def onMessage : List Item := ["]
    L.append(",\n".join("  " + i for i in items))
    L.append("]")
    L.append("")
    L.append("/-- the checks of every handler that `onMessage` dispatches to, in source order, each with its path condition -/")
    L.append("def handlers : List (String × List Guard) := [")
    L.append(",\n".join("  (%s, [\n%s])" % (lean_str(h), ",\n".join("    " + lean_guard(g) for g in gs)) for h, gs in hs))
    L.append("]")
    L.append("")
    L.append("end Wormhole.GenWs")
    return "\n".join(L) + "\n", {"items": len(items), "handlers": {h: len(g) for h, g in hs}}


def main():
    try:
        text, info = generate()
    except (TranslateError, OSError, SyntaxError) as e:
        return {"error": str(e)}
    old = open(OUT).read() if os.path.exists(OUT) else None
    if old != text:
        with open(OUT + ".tmp", "w") as f:
            f.write(text)
        os.replace(OUT + ".tmp", OUT)
    info["changed"] = old != text
    return info


if __name__ == "__main__":
    import json, sys
    json.dump(main(), sys.stdout, indent=1)
    print()
