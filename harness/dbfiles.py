#!/usr/bin/env python3
"""C19 / C20: fault enumeration on the REAL database.py + correspondence with the Lean model.

    PYTHONPATH=/repo/src /venv/bin/python dbfiles.py C19 quick 1        -> JSON on stdout
    run(prop_id, tier, seed) -> dict                                    (same content)
    python dbfiles.py --replay '<json of a "replay" entry>'             re-runs one scenario

The package under test is imported from $VERIF_REPO_SRC (default /repo/src) and is never
modified.  Every scenario builds a small directory (database path `db.sqlite`, a bystander file,
possibly a backup file) in a fresh scratch directory under /dev/shm, runs one real entry point
in a forked child to completion while recording every boundary (dbfiles_child.py), then once
more per boundary with the child killed there by os._exit, inspects what is left, performs a
normal start where the property speaks about one, and checks

  (1) the property oracle (independent of the model: sha256 of files, sqlite_master against a
      database built directly from the .sql file, row multisets, backup bytes), and
  (2) the prediction of the Lean model (lean/DbMain.lean): same sequence of observable steps,
      same abstract directory after every crash point, same outcome, same restart result.

(1) failing = a violation of C19/C20 by the code; (2) failing alone = the model does not
describe the code (`model_mismatches`), which un-ties the theorems but is not a violation.
All random choices derive from random.Random(seed).
"""
import json
import os
import random
import shutil
import sqlite3
import sys
import tempfile
import time
import warnings

HERE = os.path.dirname(os.path.abspath(__file__))
if HERE not in sys.path:
    sys.path.insert(0, HERE)
import dbfiles_child as child  # noqa: E402
import dbfiles_obs as obs  # noqa: E402
from dbfiles_obs import DB  # noqa: E402

REPO_SRC = os.environ.get("VERIF_REPO_SRC", "/repo/src")
BYSTANDER = "notes.txt"
RULE = ("a (property, entry point, schema, pre-existing content class, kill-point label) tuple "
        "counts as non-trivial when the killed run had already executed at least one observable "
        "step (file-system call or SQL statement) of the entry point; distinct tuples are counted")

_database = None


def get_database():
    global _database
    if _database is None:
        if REPO_SRC not in sys.path:
            sys.path.insert(0, REPO_SRC)
        warnings.filterwarnings("ignore")
        from wormhole_mailbox_server import database
        src = os.path.realpath(database.__file__)
        if not src.startswith(os.path.realpath(REPO_SRC) + os.sep):
            raise RuntimeError("database.py imported from %s, not from %s" % (src, REPO_SRC))
        _database = database
    return _database


def schema_dir():
    return os.path.join(REPO_SRC, "wormhole_mailbox_server", "db-schemas")


def targets():
    db = get_database()
    return {"channel": db.CHANNELDB_TARGET_VERSION, "usage": db.USAGEDB_TARGET_VERSION}


def has_upgrader(schema, v):
    return os.path.exists(os.path.join(schema_dir(), "upgrade-%s-to-v%d.sql" % (schema, v)))


# ---------------------------------------------------------------- building contents
def build_db(path, schema, file_version, version_rows, fill=None, drop_version=False):
    """A database made DIRECTLY from the .sql file with plain sqlite3 (not through the code
    under test).  version_rows: list of values; fill(conn) inserts payload rows."""
    with open(os.path.join(schema_dir(), "%s-v%d.sql" % (schema, file_version))) as f:
        script = f.read()
    if os.path.exists(path):
        os.unlink(path)
    c = sqlite3.connect(path)
    c.executescript(script)
    for v in version_rows:
        c.execute("INSERT INTO version (version) VALUES (?)", (v,))
    if fill:
        fill(c)
    if drop_version:
        c.execute("DROP TABLE version")
    c.commit()
    c.close()
    with open(path, "rb") as f:
        return f.read()


def rand_val(rng, big):
    k = rng.randrange(10)
    if k == 0:
        return None
    if k == 1:
        return rng.choice([2 ** 62, -2 ** 63, 2 ** 63 - 1, 0, -1])
    if k == 2:
        return "".join(rng.choice("abcxyz é中'\"`;-\n") for _ in range(rng.randrange(0, 40)))
    if k == 3:
        return rng.choice("xyz") * rng.randrange(1, big)
    if k == 4:
        return bytes(rng.randrange(256) for _ in range(rng.randrange(0, 20)))
    if k == 5:
        return ""
    return rng.randrange(0, 2000000000)


def fill_usage(rng, big, max_rows):
    def fill(c):
        for _ in range(rng.randrange(0, max_rows + 1)):
            c.execute("INSERT INTO nameplates VALUES (?,?,?,?,?)", [rand_val(rng, big) for _ in range(5)])
        for _ in range(rng.randrange(0, max_rows + 1)):
            c.execute("INSERT INTO mailboxes VALUES (?,?,?,?,?,?)", [rand_val(rng, big) for _ in range(6)])
        for _ in range(rng.choice([0, 1, 1, 2, 3, 5])):
            c.execute("INSERT INTO current VALUES (?,?,?,?)", [rand_val(rng, big) for _ in range(4)])
    return fill


def fill_channel(rng, big, max_rows, fkbad=False):
    def fill(c):
        ids = []
        for i in range(rng.randrange(1, max_rows + 1)):
            mid = "mb%d-%d" % (i, rng.randrange(10 ** 6))
            ids.append(mid)
            c.execute("INSERT INTO mailboxes VALUES (?,?,?,?)", (rand_val(rng, big), mid, rng.randrange(10 ** 9), rng.randrange(2)))
        for i in range(rng.randrange(0, max_rows + 1)):
            c.execute("INSERT INTO nameplates (app_id, name, mailbox_id, request_id) VALUES (?,?,?,?)",
                      (rand_val(rng, big), str(i), rng.choice(ids), rand_val(rng, big)))
        for _ in range(rng.randrange(0, max_rows + 1)):
            c.execute("INSERT INTO messages VALUES (?,?,?,?,?,?,?)", [rand_val(rng, big) for _ in range(7)])
        if fkbad:
            c.execute("INSERT INTO nameplates (app_id, name, mailbox_id, request_id) VALUES ('a','dangling','no-such-mailbox',NULL)")
    return fill


def resolve_version(v, t):
    """'t0' = target, 't1' = target+1, 't-1' = target-1, 'text' = the string 'x'"""
    if v == "text":
        return "x"
    if isinstance(v, str) and v.startswith("t"):
        return t + int(v[1:])
    return v


def make_scenario_files(sc, workdir):
    """-> ({name: bytes}, [full database bytes the observer should know])  — deterministic in sc"""
    rng = random.Random(sc["subseed"])
    big = sc.get("big", 2000)
    max_rows = sc.get("max_rows", 8)
    files, refs = {}, []
    files[BYSTANDER] = bytes(rng.randrange(256) for _ in range(rng.randrange(1, 200)))
    # a neighbour whose name starts like the database's (an operator's copy, the other database of a `<db>` / `<db>.usage`
    # pair; three of the names have the SHAPE of a mkstemp name - eight characters of [a-z0-9_]): never a temporary file of the server, must stay untouched like any other neighbour
    rng2 = random.Random(sc["subseed"] ^ 0xb157a)
    if rng2.random() < 0.6:
        files[DB + rng2.choice([".orig", ".usage", ".bak", ".old-1", ".tmp", ".usage_db", ".20260930", ".bak_2024"])] = \
            bytes(rng2.randrange(256) for _ in range(rng2.randrange(1, 200)))
    cls, schema = sc["cls"], sc["schema"]
    tmp = os.path.join(workdir, "build.sqlite")
    t = targets()[schema]
    fill = {"usage": fill_usage(rng, big, max_rows), "channel": fill_channel(rng, big, max_rows)}
    if cls == "absent":
        pass
    elif cls == "empty":
        files[DB] = b""
    elif cls == "junk":
        n = rng.choice([1, 2, 15, 16, 99, 100, 511, 512, 1024, 4096, 5000])
        files[DB] = bytes(rng.randrange(1, 256) for _ in range(n))
    elif cls == "junk_magic":
        files[DB] = b"SQLite format 3\x00" + bytes(rng.randrange(256) for _ in range(rng.choice([0, 84, 1008, 4080])))
    elif cls == "text":
        files[DB] = b"I am not a database\n" * rng.randrange(1, 50)
    elif cls == "trunc":
        full = build_db(tmp, schema, t, [t], fill[schema])
        refs.append(full)
        cut = rng.choice([rng.randrange(1, 100), rng.randrange(100, 4096), rng.randrange(4096, len(full)),
                          len(full) - 1, len(full) - 4096, 4096, 1024])
        files[DB] = full[:max(1, min(cut, len(full) - 1))]
    elif cls == "db":
        other = sc.get("other_schema")
        s2 = other or schema
        fv = sc.get("file_version", targets()[s2])
        vrows = [resolve_version(v, t) for v in sc["version_rows"]]
        if not other and "file_version" not in sc and vrows and isinstance(vrows[0], int) and vrows[0] < t \
                and os.path.exists(os.path.join(schema_dir(), "%s-v%d.sql" % (schema, vrows[0]))):
            fv = vrows[0]   # a genuine older-version database
        f = fill_channel(rng, big, max_rows, fkbad=True) if sc.get("fkbad") else fill[s2]
        files[DB] = build_db(tmp, s2, fv, vrows, f, drop_version=sc.get("drop_version", False))
    else:
        raise ValueError(cls)
    bk = sc.get("backup")
    if bk == "junk":
        files[DB + "-backup-v1"] = bytes(rng.randrange(256) for _ in range(rng.randrange(1, 3000)))
    elif bk == "stale":
        files[DB + "-backup-v1"] = build_db(tmp, "usage", 1, [1], fill_usage(rng, big, max_rows))
    elif bk == "empty":
        files[DB + "-backup-v1"] = b""
    if os.path.exists(tmp):
        os.unlink(tmp)
    return files, refs


def opens_with_version(path, workdir):
    cp = os.path.join(workdir, "probe.sqlite")
    shutil.copyfile(path, cp)
    try:
        c = sqlite3.connect(cp)
        try:
            c.execute("PRAGMA foreign_key_check").fetchall()
            c.execute("SELECT version FROM version").fetchall()
            return True
        finally:
            c.close()
    except sqlite3.Error:
        return False
    finally:
        os.unlink(cp)


def reference_info(schema, version, workdir):
    p = os.path.join(workdir, "reference.sqlite")
    build_db(p, schema, version, [version])
    info = obs.read_db(p, workdir)
    os.unlink(p)
    return info


# ---------------------------------------------------------------- running the real code
def fork_run(entry, dbpath, kill_at, logpath):
    """-> (events [(kind, detail)], outcome or None when killed, killed?)"""
    database = get_database()
    fd = os.open(logpath, os.O_WRONLY | os.O_CREAT | os.O_TRUNC, 0o600)
    pid = os.fork()
    if pid == 0:
        child.run_entry(database, entry, dbpath, kill_at, fd)
        os._exit(99)
    os.close(fd)
    _, status = os.waitpid(pid, 0)
    code = os.WEXITSTATUS(status) if os.WIFEXITED(status) else -1
    events, outcome = [], None
    with open(logpath) as f:
        for ln in f.read().split("\n"):
            if not ln:
                continue
            a, kind, detail = ln.split("\t")
            if a == "END":
                outcome = kind
            else:
                events.append((kind, bytes.fromhex(detail).decode("utf-8")))
    if code not in (0, child.KILL_EXIT):
        outcome = "CHILD-EXIT-%d" % code
    return events, outcome, code == child.KILL_EXIT


def interpret(events):
    """-> (labels of observable steps, [(event index, completed steps, kill label)])"""
    labels, points = [], []
    done, pending = 0, False
    for i, (kind, detail) in enumerate(events):
        if kind == "sql":
            if pending:
                done += 1
            pending = True
            lab = obs.canon_sql(detail)
            labels.append(lab)
            points.append((i, done, "before " + lab.split("|")[0] + ("|" + lab.split("|")[1] if "|" in lab else "")))
            continue
        if pending and (kind.startswith("a:") or kind.startswith("b:")):
            done += 1
            pending = False
        if kind in ("a:execute", "a:executescript", "b:commit", "a:commit", "b:ctxexit", "a:ctxexit"):
            points.append((i, done, "py " + kind))
        elif kind.startswith("b:"):
            op = kind[2:]
            if op == "connect":
                lab = "connect:main" if detail == DB else "connect:tmp"
            elif op == "copy":
                lab = "copy:open"
            else:
                lab = op
            labels.append(lab)
            points.append((i, done, "before " + op))
        elif kind in ("copy:open", "copy:half"):
            done += 1
            labels.append("copy:half" if kind == "copy:open" else "copy:end")
            points.append((i, done, "during " + kind))
        elif kind.startswith("a:"):
            done += 1
            points.append((i, done, "after " + kind[2:]))
    return labels, points


def write_dir(d, files):
    if os.path.exists(d):
        shutil.rmtree(d)
    os.mkdir(d)
    for n, b in files.items():
        with open(os.path.join(d, n), "wb") as f:
            f.write(b)


def rows_multiset(info):
    return {t: sorted(map(repr, r)) for t, r in info["rows"].items()}


# ---------------------------------------------------------------- oracles
def is_complete(info, ref, target):
    return (info is not None and set(info["objs"]) == set(ref["objs"]) and len(info["objs"]) == len(ref["objs"])
            and info["vers"] == [(target, "integer")] and not any(info["rows"].values()) and not info["fk"])


def expect_class(sc):
    """what C19 demands for this content under this entry point"""
    cls, entry = sc["cls"], sc["entry"]
    if entry.startswith("create_"):
        return "create_fresh" if cls == "absent" else "refuse_existing"
    if entry == "open_existing":
        return "open_only"
    if cls == "absent":
        return "create_fresh"
    if cls != "db" or sc.get("fkbad") or sc.get("drop_version") or not sc["version_rows"]:
        return "reject"
    t = targets()[sc["schema"]]
    v = resolve_version(sc["version_rows"][0], t)
    if not isinstance(v, int):
        return "reject"
    if sc.get("other_schema"):
        return "reject" if v > t else "skip"
    if v == t:
        return "keep"
    if v > t:
        return "reject"
    return "upgrade" if has_upgrader(sc["schema"], v + 1) else "reject_backup"


class Checker(object):
    def __init__(self, sc, exp, init_shas, init_infos, refinfo, orig_db):
        self.sc, self.shas0, self.infos0, self.ref, self.orig = sc, init_shas, init_infos, refinfo, orig_db
        self.exp = exp
        self.target = targets()[sc["schema"]]
        self.out = []

    def bad(self, what, where):
        self.out.append({"what": what, "where": where})

    def unchanged(self, shas, where, allow_new=(), ignore=()):
        shas = {k: v for k, v in shas.items() if k not in ignore}
        for n, h in self.shas0.items():
            if n in ignore:
                continue
            if shas.get(n) != h:
                self.bad("file %s %s" % (n, "disappeared" if n not in shas else "changed (sha256 differs)"), where)
        for n in shas:
            if n not in self.shas0 and n not in allow_new:
                self.bad("file %s was created" % n, where)

    def crash(self, where, shas, infos, journals):
        """directory left by a kill (or by the uninterrupted run when where == 'end')"""
        exp = self.exp
        if exp == "create_fresh":
            self.unchanged(shas, where, ignore=(DB, DB + ".TMP"))
            if DB in shas and not is_complete(infos[DB], self.ref, self.target):
                self.bad("%s exists but is not the complete database" % DB, where)
        elif exp in ("reject", "keep", "refuse_existing", "open_only", "unchanged_only"):
            self.unchanged(shas, where)
        elif exp == "reject_backup":
            v = resolve_version(self.sc["version_rows"][0], self.target)
            self.unchanged(shas, where, allow_new=(DB + "-backup-v%d" % v,))
        elif exp == "upgrade":
            bk = DB + "-backup-v1"
            self.unchanged(shas, where, ignore=(DB, bk))
            info = infos.get(DB)
            if info is None:
                self.bad("%s is missing or unreadable" % DB, where)
            else:
                got = rows_multiset(info)
                for t, r in rows_multiset(self.infos0[DB]).items():
                    if got.get(t) != r:
                        self.bad("records of table %s lost or changed" % t, where)
            if shas.get(DB) != self.shas0[DB] and shas.get(bk) != self.shas0[DB]:
                self.bad("%s modified while %s is not a byte-identical copy of the old file" % (DB, bk), where)

    def outcome(self, outcome):
        exp = self.exp
        if exp in ("create_fresh", "keep", "upgrade") and outcome != "OK":
            self.bad("uninterrupted run failed with %s" % outcome, "end")
        if exp in ("reject", "reject_backup") and outcome == "OK":
            self.bad("content was accepted instead of rejected", "end")
        if exp == "refuse_existing" and outcome != "DBAlreadyExists":
            self.bad("create-only entry point on an existing path: %s instead of DBAlreadyExists" % outcome, "end")
        if exp == "open_only" and self.sc["cls"] == "absent" and outcome != "DBDoesntExist":
            self.bad("open-only entry point on a missing path: %s instead of DBDoesntExist" % outcome, "end")

    def final_upgraded(self, where, shas, infos, journals):
        bk = DB + "-backup-v1"
        info = infos.get(DB)
        if info is None:
            self.bad("%s unreadable after the upgrade" % DB, where)
            return
        if info["vers"] != [(self.target, "integer")]:
            self.bad("version table holds %r after the upgrade" % (info["vers"],), where)
        if set(info["objs"]) != set(self.ref["objs"]) or len(info["objs"]) != len(self.ref["objs"]):
            self.bad("sqlite_master differs from a freshly created v%d database" % self.target, where)
        got = rows_multiset(info)
        for t, r in rows_multiset(self.infos0[DB]).items():
            if got.get(t) != r:
                self.bad("records of table %s lost or changed by the upgrade" % t, where)
        for t, r in got.items():
            if t not in self.infos0[DB]["rows"] and r:
                self.bad("new table %s is not empty" % t, where)
        if shas.get(bk) != self.shas0[DB]:
            self.bad("%s is %s" % (bk, "missing" if bk not in shas else "not byte-identical to the old file"), where)
        if (DB + "-journal") in journals:
            self.bad("a journal file remains after a successful start", where)

    def restart(self, where, outcome, shas, infos, journals, crash_shas):
        exp = self.exp
        if exp == "create_fresh":
            if outcome != "OK":
                self.bad("next start fails with %s" % outcome, where)
            elif not is_complete(infos.get(DB), self.ref, self.target):
                self.bad("next start does not leave the complete database at %s" % DB, where)
            for n, h in crash_shas.items():
                # the neighbours that were there before; what becomes of the server's OWN leftover temporary file at the
                # next start (kept, removed) is not C19's business
                if n != DB and n in self.shas0 and shas.get(n) != h:
                    self.bad("next start changed %s" % n, where)
        elif exp == "upgrade":
            if outcome != "OK":
                self.bad("next start fails with %s: the upgrade cannot be completed" % outcome, where)
            else:
                self.final_upgraded(where, shas, infos, journals)


# ---------------------------------------------------------------- one scenario
def eval_scenario(args):
    sc, root, max_kills = args
    t0 = time.time()
    work = tempfile.mkdtemp(prefix="sc-", dir=root)
    res = {"sc": sc, "violations": [], "kills": [], "evaluations": 0, "error": None}
    try:
        files, refs = make_scenario_files(sc, work)
        tmpl, run_d = os.path.join(work, "tmpl"), os.path.join(work, "run")
        write_dir(tmpl, files)
        ob = obs.Observer(work)
        for r in refs:
            ob.add_ref(r)
        if DB in files and files[DB]:
            ob.add_ref(files[DB])
        desc0, shas0, infos0, _ = ob.directory(tmpl, {}, initial=set(files))
        exp = expect_class(sc)
        if sc["cls"] == "trunc":
            info0 = infos0.get(DB)
            if info0 is not None and info0["vers"] and info0["vers"][0] == (targets()[sc["schema"]], "integer") \
                    and not info0["fk"]:
                # only trailing bytes of the last page are missing and SQLite zero-fills short
                # reads: the file IS a readable current-version database (identical to the full
                # one, or differing in the last bytes of its last record), so "keep" is what
                # C19 demands, not "reject"
                if exp == "reject":
                    exp = "keep"
                res["truncation_still_a_database"] = True
            elif infos0.get(DB) is None and opens_with_version(os.path.join(tmpl, DB), work):
                # less than one page is missing: SQLite opens the file, the schema and the
                # version table are readable, only some payload page is damaged.  The server
                # does not look at it (no integrity check at start-up); C19 then only demands
                # that the file is not touched.  Outside the vocabulary of the model.
                if exp == "reject":
                    exp = "unchanged_only"
                res["damaged_tail"] = True
        if exp == "upgrade" and sc["prop"] == "C19":
            exp = "skip"          # an upgradable older database is C20's subject
        res["expect"] = exp
        if exp == "skip":
            return res
        target = targets()[sc["schema"]]
        refinfo = reference_info(sc["schema"], target, work)
        ck = Checker(sc, exp, shas0, infos0, refinfo, files.get(DB))
        entry, dbpath, log = sc["entry"], os.path.join(run_d, DB), os.path.join(work, "events.log")
        restart_entry = "cou_" + sc["schema"]
        model_entry = {"cou": "getdb", "create": "create", "open": "open"}[entry.split("_")[0]]
        res["line"] = "\t".join([model_entry, sc["schema"], desc0])
        # uninterrupted run
        write_dir(run_d, files)
        events, outcome, _ = fork_run(entry, dbpath, -1, log)
        tmpmap = {}
        descF, shasF, infosF, jF = ob.directory(run_d, tmpmap, initial=set(files))
        labels, points = interpret(events)
        res.update(labels=labels, final=(outcome, descF), n_events=len(events))
        ck.outcome(outcome)
        ck.crash("end", shasF, infosF, jF)
        if exp == "upgrade" and outcome == "OK":
            ck.final_upgraded("end", shasF, infosF, jF)
        res["evaluations"] += 1
        # one killed run per boundary
        do_restart = exp in ("create_fresh", "upgrade")
        if max_kills and len(points) > max_kills:
            rng = random.Random(sc["subseed"] ^ 0x5eed)
            points = sorted(rng.sample(points, max_kills))
        only = sc.get("only_event")
        for (ev, done, klabel) in points:
            if only is not None and ev != only:
                continue
            write_dir(run_d, files)
            ev2, out2, killed = fork_run(entry, dbpath, ev, log)
            if not killed:
                ck.bad("run is not deterministic: event %d not reached again" % ev, klabel)
                continue
            tmpmap = {}
            descK, shasK, infosK, jK = ob.directory(run_d, tmpmap, initial=set(files))
            where = "kill at event %d (%s)" % (ev, klabel)
            n_before = len(ck.out)
            ck.crash(where, shasK, infosK, jK)
            kill = {"ev": ev, "done": done, "label": klabel, "desc": descK, "journals": jK}
            if do_restart:
                _, outR, _ = fork_run(restart_entry, dbpath, -1, log)
                descR, shasR, infosR, jR = ob.directory(run_d, tmpmap, initial=set(files))
                ck.restart(where + " + restart", outR, shasR, infosR, jR, shasK)
                kill["restart"] = (outR, descR)
            for v in ck.out[n_before:]:
                v["event"] = ev
            res["kills"].append(kill)
            res["evaluations"] += 1
        res["violations"] = ck.out
    except Exception as e:  # infrastructure problem: reported, never counted as a pass
        import traceback
        res["error"] = "%s: %s\n%s" % (type(e).__name__, e, traceback.format_exc()[-1500:])
    finally:
        shutil.rmtree(work, ignore_errors=True)
        res["seconds"] = round(time.time() - t0, 3)
    return res


# ---------------------------------------------------------------- model comparison
OUTCOME_TO_STATUS = {"OK": "ok"}


def compare_with_model(res, pred):
    mm = []
    sc = res["sc"]

    def add(what, **kw):
        d = {"what": what, "scenario": sc}
        d.update(kw)
        mm.append(d)
    labels, after = obs.model_index(pred)
    real = res["labels"]
    if res["final"][0] != "OK" and len(labels) == len(real) + 1 and labels[:-1] == real \
            and after[-1][1].startswith("failed") and labels[-1].startswith("sql:"):
        # a statement that fails while it is being prepared never reaches the trace callback:
        # the model's last, failing statement has no counterpart in the trace
        res["labels"] = real = labels
        res["untraced_failing_statement"] = labels[-1]
    if labels != res["labels"]:
        i = 0
        while i < min(len(labels), len(res["labels"])) and labels[i] == res["labels"][i]:
            i += 1
        add("observable step sequences differ at position %d" % i,
            model=labels[i:i + 3], real=res["labels"][i:i + 3])
        return mm
    outcome, descF = res["final"]
    want = "ok" if outcome == "OK" else "failed:" + outcome
    if after[-1][1] != want:
        add("outcome differs", model=after[-1][1], real=want)
    if after[-1][2] != descF:
        add("final directory differs", model=after[-1][2], real=descF)
    for k in res["kills"]:
        if k["done"] >= len(after):
            add("kill point beyond the model's run", event=k["ev"], label=k["label"])
            continue
        mk, mst, mdir = after[k["done"]]
        if mdir != k["desc"]:
            add("directory after crash differs", event=k["ev"], label=k["label"], model=mdir, real=k["desc"])
        if "restart" in k:
            rst, rdir = pred["R"][mk]
            outR, descR = k["restart"]
            wantR = "ok" if outR == "OK" else "failed:" + outR
            if rst != wantR:
                add("restart outcome differs", event=k["ev"], label=k["label"], model=rst, real=wantR)
            elif rdir != descR:
                add("directory after restart differs", event=k["ev"], label=k["label"], model=rdir, real=descR)
    return mm


# ---------------------------------------------------------------- scenario generation
VERSION_VARIANTS = [["t-1"], ["t0"], ["t1"], ["t2"], [0], [3], ["text"], [None], ["t0", "t1"], ["t1", "t0"],
                    ["t0", None], []]


def gen_scenarios(prop, tier, rng):
    quick = tier == "quick"
    big = 3000 if quick else 120000
    max_rows = 6 if quick else 25
    scs = []

    def add(**kw):
        kw.setdefault("big", big)
        kw.setdefault("max_rows", max_rows)
        kw["prop"] = prop
        kw["subseed"] = rng.getrandbits(48)
        scs.append(kw)
    if prop == "C19":
        reps = 12 if quick else 100
        for _ in range(reps):
            for schema in ("channel", "usage"):
                for e in ("cou_", "create_"):
                    add(entry=e + schema, schema=schema, cls="absent")
                add(entry="open_existing", schema=schema, cls="absent")
                for cls in ("empty", "junk", "junk", "junk_magic", "text", "trunc", "trunc", "trunc"):
                    add(entry="cou_" + schema, schema=schema, cls=cls)
                    if rng.random() < (0.4 if quick else 1.0):
                        add(entry=rng.choice(["create_" + schema, "open_existing"]), schema=schema, cls=cls)
                for vr in VERSION_VARIANTS:
                    add(entry="cou_" + schema, schema=schema, cls="db", version_rows=vr)
                    if rng.random() < (0.3 if quick else 1.0):
                        add(entry=rng.choice(["create_" + schema, "open_existing"]), schema=schema, cls="db",
                            version_rows=vr)
                add(entry="cou_" + schema, schema=schema, cls="db", version_rows=["t0"], drop_version=True)
                add(entry="open_existing", schema=schema, cls="db", version_rows=["t0"], drop_version=True)
            add(entry="cou_channel", schema="channel", cls="db", version_rows=["t0"], fkbad=True)
            add(entry="open_existing", schema="channel", cls="db", version_rows=["t0"], fkbad=True)
            add(entry="cou_channel", schema="channel", cls="db", version_rows=[2], other_schema="usage")
    elif prop == "C20":
        n = 180 if quick else 1400
        for i in range(n):
            add(entry="cou_usage", schema="usage", cls="db", file_version=1, version_rows=[1],
                backup=[None, None, "junk", "stale", "empty"][i % 5],
                max_rows=[0, 1, max_rows, max_rows, 3 * max_rows][i % 5])
    else:
        raise ValueError("prop_id must be C19 or C20")
    # the C19 list contains upgradable usage databases (version 1): they belong to C20
    return scs


# ---------------------------------------------------------------- driver
def scratch_root():
    for base in ("/dev/shm", tempfile.gettempdir()):
        try:
            return tempfile.mkdtemp(prefix="verif-dbfiles-", dir=base)
        except OSError:
            continue
    raise RuntimeError("no scratch directory")


def run(prop_id, tier="quick", seed=1, only=None):
    t0 = time.time()
    rng = random.Random(seed)
    get_database()
    scs = gen_scenarios(prop_id, tier, rng)
    for i, sc in enumerate(scs):
        sc["index"] = i
    if only is not None:
        scs = [dict(scs[only["index"]], only_event=only.get("event"))]
    budget = 45 if tier == "quick" else 510
    nproc = min(16, os.cpu_count() or 1) if tier == "thorough" else min(8, os.cpu_count() or 1)
    max_kills = 0
    root = scratch_root()
    results, skipped_budget = [], 0
    try:
        import multiprocessing
        ctx = multiprocessing.get_context("fork")
        with ctx.Pool(nproc) as pool:
            it = pool.imap_unordered(eval_scenario, [(sc, root, max_kills) for sc in scs])
            for _ in range(len(scs)):
                left = budget - (time.time() - t0)
                try:
                    results.append(it.next(timeout=max(1.0, left)))
                except multiprocessing.TimeoutError:
                    skipped_budget = len(scs) - len(results)
                    pool.terminate()
                    break
        results.sort(key=lambda r: r["sc"]["index"])
        t_real = time.time() - t0
        # model predictions, one driver call for all scenarios
        todo = [r for r in results if r.get("line") and not r["error"] and "labels" in r
                and not r.get("damaged_tail")]
        mismatches, model_error = [], None
        try:
            preds = obs.model_predict([r["line"] for r in todo])
            for r, p in zip(todo, preds):
                mismatches.extend(compare_with_model(r, p))
        except Exception as e:
            model_error = "%s: %s" % (type(e).__name__, e)
            mismatches.append({"what": "model driver unavailable: " + model_error})
    finally:
        shutil.rmtree(root, ignore_errors=True)
    violations, kill_points, nontrivial, samples, errors = [], {}, set(), [], []
    n_violations = 0
    hist = {}
    for r in results:
        sc = r["sc"]
        if r["error"]:
            errors.append({"scenario": sc, "error": r["error"]})
            continue
        hist[r.get("expect")] = hist.get(r.get("expect"), 0) + 1
        seen_here = {}
        for v in r["violations"]:
            n_violations += 1
            seen_here[v["what"]] = seen_here.get(v["what"], 0) + 1
            if seen_here[v["what"]] > 3 or len(violations) >= 300:
                continue      # the same failure at many kill points: three witnesses are kept
            violations.append({"what": "%s: %s [%s]" % (prop_id, v["what"], v["where"]),
                               "replay": {"prop": prop_id, "tier": tier, "seed": seed, "index": sc["index"],
                                          "event": v.get("event"), "scenario": sc,
                                          "repo_src": REPO_SRC}})
        for k in r["kills"]:
            kill_points[k["label"]] = kill_points.get(k["label"], 0) + 1
            if k["done"] >= 1:
                nontrivial.add((prop_id, sc["entry"], sc["schema"], r.get("expect"), sc["cls"],
                                json.dumps(sc.get("version_rows")), k["label"]))
        if len(samples) < 12 and r["kills"] and r["sc"]["index"] % 7 == 0:
            samples.append({"scenario": sc, "expect": r.get("expect"), "outcome": r["final"][0],
                            "steps": r["labels"][:6] + (["..."] if len(r["labels"]) > 6 else []),
                            "kill_points": len(r["kills"])})
    if not samples:
        samples = [{"scenario": r["sc"], "expect": r.get("expect")} for r in results[:5]]
    out = {
        "violations": violations,
        "model_mismatches": mismatches,
        "evaluations": sum(r["evaluations"] for r in results),
        "distinct_nontrivial": len(nontrivial),
        "rule": RULE,
        "samples": samples,
        "kill_points": sorted(kill_points),
        "stats": {
            "prop": prop_id, "tier": tier, "seed": seed, "repo_src": REPO_SRC,
            "scenarios": len(results), "violations_total": n_violations, "scenarios_skipped_by_time_budget": skipped_budget,
            "expectation_histogram": hist, "kill_point_histogram": kill_points,
            "infrastructure_errors": errors, "model_error": model_error,
            "observations": {
                "truncated_file_still_the_same_database": sum(1 for r in results if r.get("truncation_still_a_database")),
                "database_with_damaged_last_page_opened_without_complaint_and_left_untouched"
                "_(not_in_model_vocabulary,_not_compared_with_model)": sum(1 for r in results if r.get("damaged_tail")),
                "failing_statement_not_seen_by_tracer": sum(1 for r in results if r.get("untraced_failing_statement")),
            },
            "model_scenarios_compared": len(todo), "processes": nproc,
            "seconds_real_code": round(t_real, 2), "seconds_total": round(time.time() - t0, 2),
            "model_driver": " ".join(obs.driver_cmd()),
        },
    }
    return out


def replay(rep):
    """re-run the scenario of a violation's `replay` entry against the current tree"""
    return run(rep["prop"], rep["tier"], rep["seed"], only={"index": rep["index"], "event": rep.get("event")})


def main(argv):
    if len(argv) >= 2 and argv[0] == "--replay":
        out = replay(json.loads(argv[1]))
    elif len(argv) == 3:
        out = run(argv[0], argv[1], int(argv[2]))
    else:
        sys.stderr.write("usage: dbfiles.py C19|C20 quick|thorough SEED | --replay JSON\n")
        return 2
    json.dump(out, sys.stdout, indent=1, default=repr)
    sys.stdout.write("\n")
    if out["violations"]:
        return 1
    return 2 if out["stats"]["infrastructure_errors"] or out["stats"]["model_error"] else 0


if __name__ == "__main__":
    sys.exit(main(sys.argv[1:]))
