#!/usr/bin/env python3
"""Regenerate /verif/MANIFEST.json from props.py (single source of truth)."""
import json, os, sys
HERE = os.path.dirname(os.path.abspath(__file__))
sys.path.insert(0, HERE)
from props import PROPS, NOTES, NOT_APPLICABLE

VERIF = os.path.dirname(HERE)
props = [json.loads(l) for l in open(os.path.join(VERIF, "properties.jsonl"))]

checks = []
for p in props:
    pid = p["id"]
    if pid in NOT_APPLICABLE:
        continue
    spec = PROPS[pid]
    note = NOTES.get(pid, {})
    checks.append({
        "property_id": pid,
        "quick_cmd": "./check %s --tier quick" % pid,
        "thorough_cmd": "./check %s --tier thorough" % pid,
        "evidence_file": "/verif/evidence/%s.json" % pid,
        "replay_cmd_template": "./check %s --replay {path}" % pid,
        "engine": "lean-proof+correspondence",
        "level_claimed": {"category": spec["level"], "text": note.get("text", ""), "design_ref": "DESIGN.md section 6, %s" % pid},
        "level_note": note.get("note", ""),
        "technique": note.get("technique", "Lean 4 theorems over a hand-written model + differential correspondence with the code"),
    })

m = {
    "version": 1,
    "setup_cmd": "./check setup",
    "hooks": {"guard": "WORMHOLE_MAILBOX_VERIF",
              "enable": "none needed: the harness drives the real code in-process from outside (wrapping proxies, module-global stand-ins); the variable is reserved and unused",
              "baseline_off_cmd": "cd /repo && /venv/bin/python -m pytest -ra -q -p no:cacheprovider --timeout=900 --continue-on-collection-errors",
              "source_commits": [], "add_only": True},
    "engines": [
        {"name": "lean-proof+correspondence", "path": "lean/ + harness/", "serves_properties": [c["property_id"] for c in checks],
         "kind_free_text": "Lean 4 model of the server with per-property theorems; five translators regenerate constants, schema scripts, every SQL statement of server.py, onMessage and all handlers of server_websocket.py and the usage-summary functions from /repo each run, and Lean re-proves the model equal to them; Python harness runs the real code and the compiled model on the same histories, diffs observations and evaluates property oracles on the implementation's traces"}],
    "checks": checks,
    "not_applicable": [{"property_id": k, "reason": v} for k, v in sorted(NOT_APPLICABLE.items())],
    "notes": "Fixes of genuine defects are 'fix:' commits in /repo (see known_findings.json, DESIGN.md section 3). ./check <id> exits 0/1/2 = held / VIOLATION printed / check could not run.",
}
json.dump(m, open(os.path.join(VERIF, "MANIFEST.json"), "w"), indent=1)
print("MANIFEST.json: %d checks, %d not applicable" % (len(checks), len(m["not_applicable"])))
