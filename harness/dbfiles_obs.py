"""Observation of a scratch directory in the vocabulary of the Lean model (DbFile.lean), and a
client for the model driver (lean/DbMain.lean).  Used by dbfiles.py."""
import hashlib
import os
import re
import shutil
import sqlite3
import subprocess

import sys

HERE = os.path.dirname(os.path.abspath(__file__))
if HERE not in sys.path:
    sys.path.insert(0, HERE)
LEAN_DIR = os.path.join(os.path.dirname(HERE), "lean")

SEP_OBJ, SEP_ENTRY, SEP_PATH, SEP_FIELD = "\x1f", "\x1e", "\x1d", "\x1c"
DB = "db.sqlite"


# ---------------------------------------------------------------- SQL text canonicalisation
# the normal form of SQL text is the translator's (harness/translate.py), so that the texts in
# Generated.lean and the texts observed in sqlite_master / in the statement trace agree
from translate import strip_sql_comments, normalise_stmt  # noqa: E402


def canon_sql(raw):
    """label of a traced statement, in the format of DbFile.stepLabel"""
    s = normalise_stmt(strip_sql_comments(raw).replace(";", " "))
    low = s.lower()
    if low == "pragma foreign_keys=on":
        return "sql:pragma_fk_on"
    if low == "pragma foreign_key_check":
        return "sql:pragma_fk_check"
    if low == "begin":
        return "sql:begin"
    if low == "commit":
        return "sql:commit"
    if low == "rollback":
        return "sql:rollback"
    if low == "select version from version":
        return "sql:select_version"
    m = re.match(r"create table `?(\w+)`?", low)
    if m:
        return "sql:table|%s|%s" % (m.group(1), s)
    m = re.match(r"create index `?(\w+)`? on `?(\w+)`?", low)
    if m:
        return "sql:index|%s|%s" % (m.group(1), s)
    m = re.match(r"delete from `?(\w+)`?$", low)
    if m:
        return "sql:deleteall|%s|%s" % (m.group(1), s)
    m = re.match(r"insert into `?(\w+)`?\(`?(\w+)`?\)values\((\d+)\)$", low)
    if m:
        return "sql:insert|%s|%s" % (m.group(1), m.group(3))
    return "sql:?|" + s


# ---------------------------------------------------------------- file observation
def sha(b):
    return hashlib.sha256(b).hexdigest()


def file_sha(path):
    with open(path, "rb") as f:
        return sha(f.read())


def read_db(path, scratch):
    """Open a private COPY of the file (never the original: opening could roll a journal back
    and change the directory under observation).  -> dict or None when SQLite rejects it."""
    cp = os.path.join(scratch, "obs-%d.sqlite" % os.getpid())
    shutil.copyfile(path, cp)
    try:
        c = sqlite3.connect(cp)
        try:
            master = c.execute("SELECT type, name, sql FROM sqlite_master ORDER BY rowid").fetchall()
            objs = [(t, n, normalise_stmt(strip_sql_comments(q or "")))
                    for (t, n, q) in master if not n.startswith("sqlite_")]
            tables = [n for (t, n, q) in objs if t == "table"]
            vers = None
            if "version" in tables:
                vers = c.execute("SELECT version, typeof(version) FROM version ORDER BY rowid").fetchall()
            rows = {}
            for t in tables:
                if t == "version":
                    continue
                rows[t] = c.execute("SELECT * FROM `%s` ORDER BY rowid" % t).fetchall()
            fk = bool(c.execute("PRAGMA foreign_key_check").fetchall())
            return {"objs": objs, "vers": vers, "rows": rows, "fk": fk}
        finally:
            c.close()
    except sqlite3.DatabaseError:
        return None
    finally:
        for suffix in ("", "-journal", "-wal", "-shm"):
            try:
                os.unlink(cp + suffix)
            except OSError:
                pass


def ver_tok(v, ty):
    if ty == "integer":
        return "i%d" % v
    if ty == "null":
        return "n"
    if ty == "text":
        return "t" + v.encode("utf-8").hex()
    return "?" + ty


def rows_digest(rows):
    return sha(repr(sorted(rows, key=repr)).encode("utf-8"))[:12]


def db_desc(info):
    objs = SEP_OBJ.join("%s|%s|%s" % o for o in info["objs"])
    vers = ",".join(ver_tok(v, ty) for (v, ty) in (info["vers"] or []))
    pay = ";".join("%s=%s" % (t, rows_digest(r)) for t, r in sorted(info["rows"].items()) if r)
    return SEP_FIELD.join([objs, vers, pay, "1" if info["fk"] else "0"])


class Observer(object):
    """Describes files as the model does.  `refs`: full database files known to the scenario
    (bytes, description); an unreadable file that is a proper prefix of one is `T<desc>`."""

    def __init__(self, scratch):
        self.scratch = scratch
        self.refs = []

    def add_ref(self, data):
        tmp = os.path.join(self.scratch, "ref-%d.sqlite" % os.getpid())
        with open(tmp, "wb") as f:
            f.write(data)
        info = read_db(tmp, self.scratch)
        os.unlink(tmp)
        if info is not None:
            self.refs.append((data, db_desc(info)))

    def content(self, path):
        with open(path, "rb") as f:
            data = f.read()
        if not data:
            return "J", None
        info = read_db(path, self.scratch)
        if info is None:
            for full, desc in self.refs:
                if len(data) < len(full) and full.startswith(data):
                    return "T" + desc, None
            return "J" + sha(data)[:16], None
        return "D" + db_desc(info), info

    def directory(self, d, tmpmap, initial=None):
        """-> (descriptor string, {model name: sha}, infos, journals).  `tmpmap` maps real
        temporary names to model names (filled on the way).  A temporary file is a sibling `<db>.<anything>`
        that was not there before the run (`initial`: the names the scenario started with) -- how the
        implementation spells the random part is its own business (mkstemp's 8 characters, a `.tmp` suffix, ...);
        a file that WAS there before is never a temporary file, whatever its name."""
        entries, shas, infos, journals = [], {}, {}, []
        for fn in sorted(os.listdir(d)):
            p = os.path.join(d, fn)
            if fn.endswith("-journal") or fn.endswith("-wal") or fn.endswith("-shm"):
                journals.append(fn)
                continue
            name = fn
            if (re.match(r"^" + re.escape(DB) + r"\.[A-Za-z0-9_]{8}$", fn) and (initial is None or fn not in initial)) \
                    or (initial is not None and fn not in initial and fn.startswith(DB + ".")):
                if fn not in tmpmap:
                    tmpmap[fn] = DB + (".TMP" if not tmpmap else ".TMP%d" % (len(tmpmap) + 1))
                name = tmpmap[fn]
            c, info = self.content(p)
            entries.append((name, c))
            shas[name] = file_sha(p)
            infos[name] = info
        entries.sort()
        desc = SEP_ENTRY.join(n + SEP_PATH + c for n, c in entries) if entries else "-"
        return desc, shas, infos, journals


# ---------------------------------------------------------------- model driver client
class ModelError(Exception):
    pass


def driver_cmd():
    exe = os.path.join(LEAN_DIR, ".lake", "build", "bin", "wormhole-db-driver")
    src = os.path.join(LEAN_DIR, "DbMain.lean")
    olean = os.path.join(LEAN_DIR, ".lake", "build", "lib", "lean", "Wormhole", "DbFile.olean")
    if os.path.exists(exe) and os.path.exists(olean) and \
            os.path.getmtime(exe) >= os.path.getmtime(olean) and \
            os.path.getmtime(exe) >= os.path.getmtime(src):
        return [exe]
    return ["lake", "env", "lean", "--run", "DbMain.lean"]


def model_predict(lines):
    """lines: scenario lines (entry TAB schema TAB files).  -> list of predictions, each
    {"S": [(label|None, status, dir)], "R": [(status, dir)]} with `=` resolved."""
    if not lines:
        return []
    p = subprocess.run(driver_cmd(), cwd=LEAN_DIR, input=("\n".join(lines) + "\n").encode("utf-8"),
                       stdout=subprocess.PIPE, stderr=subprocess.PIPE, timeout=600)
    if p.returncode != 0:
        raise ModelError("model driver failed: %s" % p.stderr.decode("utf-8", "replace")[-2000:])
    res, cur = [], None
    prev_s = prev_r = None
    for ln in p.stdout.decode("utf-8").split("\n"):
        if ln == "B":
            cur = {"S": [], "R": []}
            prev_s = prev_r = None
        elif ln == "E":
            res.append(cur)
            cur = None
        elif cur is not None and ln.startswith("S\t"):
            _, k, lab, st, d = ln.split("\t")
            d = prev_s if d == "=" else d
            prev_s = d
            cur["S"].append((None if lab == "-" else lab, st, d))
        elif cur is not None and ln.startswith("R\t"):
            _, k, st, d = ln.split("\t")
            d = prev_r if d == "=" else d
            prev_r = d
            cur["R"].append((st, d))
        elif cur is not None and ln.startswith("X"):
            raise ModelError("model driver: " + ln)
    if len(res) != len(lines):
        raise ModelError("model driver answered %d of %d scenarios; stderr: %s"
                         % (len(res), len(lines), p.stderr.decode("utf-8", "replace")[-1000:]))
    return res


def model_index(pred):
    """-> (labels, after): labels of the observable steps; after[c] = (k, status, dir) for the
    model state once c observable steps (and the silent ones following them) are done."""
    labels, after = [], []
    cur = None
    for k, (lab, st, d) in enumerate(pred["S"]):
        if k > 0 and lab is not None:
            after.append(cur)
            labels.append(lab)
        cur = (k, st, d)
    after.append(cur)
    return labels, after
