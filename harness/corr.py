"""Correspondence check: the model (lean driver) and the implementation (impl.Runner) on
the same history; reports the first step at which their canonical observations differ."""
import sys, os, json, time, traceback
import proto, impl, model


def strip_synced(d):
    return [x for x in (d or []) if not x.startswith("D synced")]


def observe(history, reader=False, timer=False, dumps="all"):
    """run the implementation; -> dict(steps=[(op, events, dump)], final=dump, notes=...)"""
    res, final, notes = impl.run_history(history, reader=reader, timer=timer, dumps=dumps)
    steps = []
    for op, ev, d in res:
        if op["op"] == "dump":
            steps.append((op, None, ev))
        else:
            steps.append((op, proto.canon_events(ev) if ev is not None else None, d))
    return {"steps": steps, "final": final, "notes": notes}


def observe_model(history, dumps="all", registry=False):
    res, final = model.run_model(history, dumps=dumps, driver=model.REG_DRIVER if registry else None)
    steps = []
    for op, ev, d in res:
        if op["op"] == "dump":
            steps.append((op, None, ev))
        else:
            steps.append((op, proto.canon_events(ev) if ev is not None else None, d))
    return {"steps": steps, "final": final}


def first_difference(oi, om, ignore_usage=False):
    """-> None | dict(index, op, kind, impl, model)"""
    def filt(d):
        d = strip_synced(d)
        if ignore_usage:
            d = [x for x in d if not x.startswith("D u_")]
        return d
    for i, ((op, ei, di), (_, em, dm)) in enumerate(zip(oi["steps"], om["steps"])):
        if ignore_usage:
            ei = [x for x in (ei or []) if x != "C usage"] if ei is not None else None
            em = [x for x in (em or []) if x != "C usage"] if em is not None else None
        if ei != em:
            return {"index": i, "op": op, "kind": "events", "impl": ei, "model": em}
        if di is not None and dm is not None and filt(di) != filt(dm):
            a, b = filt(di), filt(dm)
            return {"index": i, "op": op, "kind": "tables",
                    "impl": [x for x in a if x not in b], "model": [x for x in b if x not in a]}
    if oi["final"] is not None and filt(oi["final"]) != filt(om["final"]):
        a, b = filt(oi["final"]), filt(om["final"])
        return {"index": len(oi["steps"]), "op": None, "kind": "final-tables",
                "impl": [x for x in a if x not in b], "model": [x for x in b if x not in a]}
    return None


def compare(history, reader=False, timer=False, dumps="all"):
    oi = observe(history, reader=reader, timer=timer, dumps=dumps)
    om = observe_model(history, dumps=dumps)
    return first_difference(oi, om), oi, om


def shrink(history, still_fails, budget=400, max_seconds=90.0):
    """delta-debugging over the op list (cfg stays first; a `crash` prefix moves with its op); bounded both in the
    number of re-executions and in wall time (a history of thousands of operations is reported as it is)"""
    import time as _time
    deadline = _time.time() + max_seconds
    def units(h):
        u, i = [], 1
        while i < len(h):
            if h[i]["op"] == "crash" and i + 1 < len(h):
                u.append(h[i:i + 2]); i += 2
            else:
                u.append(h[i:i + 1]); i += 1
        return u
    cur = units(history)
    head = history[:1]
    n = 2
    calls = 0
    while len(cur) >= 2 and calls < budget and _time.time() < deadline:
        chunk = max(1, len(cur) // n)
        reduced = False
        for start in range(0, len(cur), chunk):
            cand = cur[:start] + cur[start + chunk:]
            h = head + [op for u in cand for op in u]
            calls += 1
            try:
                bad = still_fails(h)
            except Exception:
                bad = False
            if bad:
                cur = cand
                n = max(n - 1, 2)
                reduced = True
                break
            if calls >= budget or _time.time() >= deadline:
                break
        if not reduced:
            if chunk == 1:
                break
            n = min(n * 2, len(cur))
    return head + [op for u in cur for op in u]


if __name__ == "__main__":
    import gen
    seed = int(sys.argv[1]) if len(sys.argv) > 1 else 1
    n = int(sys.argv[2]) if len(sys.argv) > 2 else 20
    prof = json.loads(sys.argv[3]) if len(sys.argv) > 3 else {}
    gprof = {k: v for k, v in prof.items() if k != 'reader'}
    bad = 0
    t0 = time.time()
    nops = 0
    for i in range(n):
        h = gen.generate(seed * 100003 + i, **gprof)
        nops += len(h)
        try:
            d, oi, om = compare(h, reader=bool(prof.get('reader')), timer=bool(prof.get('timer')))
        except Exception as e:
            traceback.print_exc()
            d = {"index": -1, "kind": "exception", "op": None, "impl": str(e), "model": None}
        if d:
            bad += 1
            print("MISMATCH seed=%d i=%d at %d %s" % (seed, i, d["index"], d["kind"]))
            print("  op   :", proto.op_line(d["op"]) if d["op"] else None)
            print("  impl :", d["impl"])
            print("  model:", d["model"])
            if d["index"] >= 0:
                for op in h[max(0, d["index"] - 6):d["index"]]:
                    print("     ", proto.op_line(op))
    print("histories=%d ops=%d mismatches=%d wall=%.1fs" % (n, nops, bad, time.time() - t0))
