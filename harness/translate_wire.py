#!/usr/bin/env python3
"""Translator, part 8: how configuration and database handles are WIRED from `server_tap.makeService` through
`make_server` and `Server` into every `AppNamespace` and `Mailbox` object -> lean/Wormhole/GeneratedWire.lean.

For each of the classes Server, AppNamespace, Mailbox: the parameters of `__init__` and its assignments `self._x = <expr>`;
for each construction site (`make_server(…)` in makeService, `Server(…)` in make_server, `AppNamespace(…)` in Server.get_app,
`Mailbox(…)` in AppNamespace.open_mailbox): the positional and keyword argument expressions as source text; the parameters of
`make_server`.  Nothing is imported or executed; anything of another shape makes the translation fail.
`Wormhole/Tie/Wire.lean` resolves the bindings and proves (by evaluation) where every attribute the translated methods read
(`_db`, `_usage_db`, `_blur_usage`, `_allow_list`, `_app_id`, `_mailbox_id`, `_log_requests`) comes from.
"""
import ast, os

from translate import TranslateError, SRC, HERE, lean_str

OUT = os.path.join(os.path.dirname(HERE), "lean", "Wormhole", "GeneratedWire.lean")


def lst(items):
    return "[" + ", ".join(items) + "]"


def src_of(n):
    return ast.unparse(n)


def ctor(cls):
    init = [f for f in cls.body if isinstance(f, ast.FunctionDef) and f.name == "__init__"]
    if len(init) != 1:
        raise TranslateError("%s: no single __init__" % cls.name)
    f = init[0]
    a = f.args
    if a.vararg or a.kwarg or a.kwonlyargs:
        raise TranslateError("%s.__init__: unsupported signature" % cls.name)
    params = [x.arg for x in a.args][1:]
    assigns = []
    for st in f.body:
        if isinstance(st, ast.Assign) and len(st.targets) == 1 and isinstance(st.targets[0], ast.Attribute) \
                and isinstance(st.targets[0].value, ast.Name) and st.targets[0].value.id == "self":
            assigns.append((st.targets[0].attr, src_of(st.value)))
        elif isinstance(st, ast.Expr) and isinstance(st.value, ast.Call):
            continue            # base-class initialiser
        elif isinstance(st, ast.Expr) and isinstance(st.value, ast.Constant):
            continue
        else:
            raise TranslateError("%s.__init__ line %d: unsupported statement" % (cls.name, st.lineno))
    return params, assigns


def find_calls(func, name):
    return [n for n in ast.walk(func) if isinstance(n, ast.Call) and isinstance(n.func, ast.Name) and n.func.id == name]


def call_data(site, callee, c):
    if any(isinstance(x, ast.Starred) for x in c.args) or any(k.arg is None for k in c.keywords):
        raise TranslateError("%s: star arguments in the call of %s" % (site, callee))
    return (site, callee, [src_of(x) for x in c.args], [(k.arg, src_of(k.value)) for k in c.keywords])


def generate():
    sp = os.path.join(SRC, "server.py")
    tp = os.path.join(SRC, "server_tap.py")
    import warnings
    with warnings.catch_warnings():
        warnings.simplefilter("ignore")
        stree = ast.parse(open(sp).read(), sp)
        ttree = ast.parse(open(tp).read(), tp)
    classes = {c.name: c for c in stree.body if isinstance(c, ast.ClassDef)}
    for need in ("Server", "AppNamespace", "Mailbox"):
        if need not in classes:
            raise TranslateError("class %s not found" % need)
    funcs = {f.name: f for f in stree.body if isinstance(f, ast.FunctionDef)}
    tfuncs = {f.name: f for f in ttree.body if isinstance(f, ast.FunctionDef)}
    if "make_server" not in funcs or "makeService" not in tfuncs:
        raise TranslateError("make_server / makeService not found")
    meth = lambda cls, name: [f for f in classes[cls].body if isinstance(f, ast.FunctionDef) and f.name == name]
    calls = []
    for site, func, callee in (("makeService", tfuncs["makeService"], "make_server"),
                               ("make_server", funcs["make_server"], "Server"),
                               ("Server.get_app", (meth("Server", "get_app") or [None])[0], "AppNamespace"),
                               ("AppNamespace.open_mailbox", (meth("AppNamespace", "open_mailbox") or [None])[0], "Mailbox")):
        if func is None:
            raise TranslateError("%s not found" % site)
        cs = find_calls(func, callee)
        if len(cs) != 1:
            raise TranslateError("%s: %d calls of %s (expected one)" % (site, len(cs), callee))
        calls.append(call_data(site, callee, cs[0]))
    # ... and these are the ONLY places where such objects are made
    for cls, where in (("Server", "make_server"), ("AppNamespace", "Server.get_app"), ("Mailbox", "AppNamespace.open_mailbox")):
        n = sum(1 for x in ast.walk(stree) if isinstance(x, ast.Call) and isinstance(x.func, ast.Name) and x.func.id == cls)
        if n != 1:
            raise TranslateError("%s objects are constructed at %d places in server.py (expected only in %s)" % (cls, n, where))
    ms = funcs["make_server"].args
    if ms.vararg or ms.kwarg or ms.kwonlyargs:
        raise TranslateError("make_server: unsupported signature")
    ms_params = [x.arg for x in ms.args]
    # the two databases makeService opens
    opens = []
    for st in tfuncs["makeService"].body:
        if isinstance(st, ast.Assign) and len(st.targets) == 1 and isinstance(st.targets[0], ast.Name) and isinstance(st.value, ast.Call) \
                and isinstance(st.value.func, ast.Name) and st.value.func.id.startswith("create_or_upgrade_"):
            opens.append((st.targets[0].id, st.value.func.id, [src_of(x) for x in st.value.args]))
    # the options: defaults and what each opt_* method stores
    ocls = [c for c in ttree.body if isinstance(c, ast.ClassDef) and c.name == "Options"]
    if len(ocls) != 1:
        raise TranslateError("class Options not found in server_tap.py")
    defaults, setters = [], []
    for st in ocls[0].body:
        if isinstance(st, ast.Assign) and len(st.targets) == 1 and isinstance(st.targets[0], ast.Name) \
                and st.targets[0].id in ("optParameters", "optFlags"):
            if not isinstance(st.value, ast.List) or not all(isinstance(e, ast.Tuple) for e in st.value.elts):
                raise TranslateError("Options.%s is not a literal list of tuples" % st.targets[0].id)
            for e in st.value.elts:
                name = e.elts[0]
                if not (isinstance(name, ast.Constant) and isinstance(name.value, str)):
                    raise TranslateError("Options.%s: option name is not a string literal" % st.targets[0].id)
                if st.targets[0].id == "optParameters":
                    defaults.append((name.value, src_of(e.elts[2])))
                else:
                    defaults.append((name.value, "<flag>"))
        elif isinstance(st, ast.FunctionDef) and (st.name == "__init__" or st.name.startswith("opt_")):
            for b in ast.walk(st):
                if isinstance(b, ast.Assign) and len(b.targets) == 1 and isinstance(b.targets[0], ast.Subscript) \
                        and src_of(b.targets[0].value) == "self" and isinstance(b.targets[0].slice, ast.Constant):
                    setters.append((st.name, b.targets[0].slice.value, src_of(b.value)))
    L = ["/- GENERATED by harness/translate_wire.py from server.py and server_tap.py -- do not edit.",
         "   Constructors and construction sites: how options and database handles reach the objects. -/",
         "import Wormhole.Wire", "", "namespace Wormhole.GenWire", "open Wormhole.Wire", ""]
    for name in ("Server", "AppNamespace", "Mailbox"):
        params, assigns = ctor(classes[name])
        L.append("def ctor_%s : Ctor :=\n  { cls := %s, params := %s,\n    assigns := %s }" % (
            name, lean_str(name), lst(lean_str(p) for p in params),
            lst("(%s, %s)" % (lean_str(a), lean_str(e)) for a, e in assigns)))
        L.append("")
    for site, callee, pos, kw in calls:
        ident = "call_" + site.replace(".", "_")
        L.append("/-- `%s(…)` in `%s` -/" % (callee, site))
        L.append("def %s : Call :=\n  { site := %s, callee := %s, pos := %s,\n    kw := %s }" % (
            ident, lean_str(site), lean_str(callee), lst(lean_str(p) for p in pos),
            lst("(%s, %s)" % (lean_str(k), lean_str(v)) for k, v in kw)))
        L.append("")
    L.append("def make_server_params : List String := %s" % lst(lean_str(p) for p in ms_params))
    L.append("")
    L.append("/-- `<var> = create_or_upgrade_*_db(<args>)` in makeService -/")
    L.append("def opens : List (String × String × List String) := %s" % lst(
        "(%s, %s, %s)" % (lean_str(v), lean_str(f), lst(lean_str(a) for a in args)) for v, f, args in opens))
    L.append("")
    L.append("/-- `optParameters` / `optFlags` of server_tap.Options: (option, default expression) -/")
    L.append("def optionDefaults : List (String × String) := %s" % lst("(%s, %s)" % (lean_str(k), lean_str(v)) for k, v in defaults))
    L.append("")
    L.append("/-- `self[<key>] = <expr>` in `Options.__init__` and the `opt_*` methods: (method, key, expression) -/")
    L.append("def optionSetters : List (String × String × String) := %s" % lst(
        "(%s, %s, %s)" % (lean_str(m), lean_str(k), lean_str(v)) for m, k, v in setters))
    L.append("")
    L.append("end Wormhole.GenWire")
    return "\n".join(L) + "\n", {"calls": len(calls), "classes": 3}


def main():
    try:
        text, info = generate()
    except (TranslateError, OSError, SyntaxError) as e:
        return {"error": str(e)}
    old = open(OUT).read() if os.path.exists(OUT) else None
    if old != text:
        with open(OUT + ".tmp", "w") as f:
            f.write(text)
        os.replace(OUT + ".tmp", OUT)
    info["changed"] = old != text
    return info


if __name__ == "__main__":
    import json, sys
    json.dump(main(), sys.stdout, indent=1)
    print()
