#!/usr/bin/env python3
"""The static SQL tie (run by every history-based check, after translate.py and the main build).

1. harness/translate_sql.py regenerates lean/Wormhole/GeneratedSql.lean from /repo: every SQL statement
   embedded in server.py as a `Sql.Stmt` value with its Python argument expressions, plus the declared
   columns of the schema scripts.
2. `lake build Wormhole.Tie.All` re-checks, against that regenerated file, the theorems of
   lean/Wormhole/Tie/*.lean: for every statement, the model's relational primitive IS the meaning of
   the statement (under the semantics of Sql.lean and the argument binding written in the theorem),
   and the list of statements is exactly the list the theorems cover.
3. `#print axioms` of every tie theorem must stay within propext / Classical.choice / Quot.sound.

Result: {"status": "tied" | "broken" | "untranslatable", ...}.  A broken or untranslatable SQL tie is not
by itself reported as a violation: the theorems of the properties do not depend on it, and the tie that
carries them to the code (step-by-step differential execution, which compares every table after every
operation and every commit) is checked separately.  It means that the data layer of the hand-written
model is no longer known STATICALLY to agree with the source; the check then widens its search on
the code (see check.py) and records the status in the evidence.
"""
import json, os, re, subprocess, fcntl

import translate_sql

HERE = os.path.dirname(os.path.abspath(__file__))
LEAN = os.path.join(os.path.dirname(HERE), "lean")
ALLOWED = {"propext", "Classical.choice", "Quot.sound"}


def _spec():
    return json.load(open(os.path.join(LEAN, "theorems.json")))["SQLTIE"]


def _cache_key(generated, extra):
    """the tie's outcome is a function of the regenerated file and of the Lean sources it is checked against"""
    import hashlib, glob
    h = hashlib.sha256()
    for f in [generated] + sorted(glob.glob(os.path.join(LEAN, "Wormhole", "Tie", "*.lean"))) + \
            [os.path.join(LEAN, "Wormhole", x) for x in extra] + [os.path.join(LEAN, "theorems.json")]:
        try:
            h.update(open(f, "rb").read())
        except OSError:
            h.update(b"?")
    return h.hexdigest()


def _cache_get(tag, key):
    try:
        d = json.load(open(os.path.join(LEAN, ".lake", "tie_cache_%s.json" % tag)))
        return d["result"] if d.get("key") == key else None
    except Exception:
        return None


def _cache_put(tag, key, res):
    try:
        with open(os.path.join(LEAN, ".lake", "tie_cache_%s.json" % tag), "w") as f:
            json.dump({"key": key, "result": res}, f)
    except Exception:
        pass


def _lake(target):
    p = subprocess.run(["lake", "build", target], cwd=LEAN, stdout=subprocess.PIPE, stderr=subprocess.STDOUT, timeout=3000)
    return p.returncode == 0, p.stdout.decode()


def run():
    spec = _spec()
    res = {"status": "tied", "statements": 0, "theorems": len(spec["theorems"]), "discharged": 0, "failed_modules": [],
           "functions_untied": [], "detail": ""}
    os.makedirs(os.path.join(LEAN, ".lake"), exist_ok=True)
    with open(os.path.join(LEAN, ".lake", "verif-build.lock"), "w") as lk:
        fcntl.flock(lk, fcntl.LOCK_EX)
        info = translate_sql.main()
        if "error" in info:
            res.update(status="untranslatable", detail=info["error"])
            return res
        res["statements"] = info["statements"]
        res["regenerated"] = info["changed"]
        key = _cache_key(translate_sql.OUT, ["Sql.lean", "Store.lean", "Basic.lean"])
        hit = _cache_get("sql", key)
        if hit is not None:
            hit["cached"] = True
            return hit
        ok, log = _lake("Wormhole.Tie.All")
        if not ok:
            # which modules (= which Python functions) no longer check
            for m in spec["modules"]:
                okm, logm = _lake(m)
                if not okm:
                    res["failed_modules"].append(m)
                    res["functions_untied"] += spec["functions"].get(m, [])
                    errs = [l for l in logm.splitlines() if l.startswith("error")][:4]
                    res["detail"] += "%s: %s\n" % (m, " | ".join(errs))
            res["status"] = "broken"
        built = [m for m in spec["modules"] if m not in res["failed_modules"] and
                 not (m == "Wormhole.Tie.All" and res["failed_modules"])]
        thms = [t for m in built for t in spec["by_module"].get(m, [])]
        if thms:
            src = "\n".join("import %s" % m for m in built) + "\n" + "\n".join("#print axioms %s" % t for t in thms) + "\n"
            path = os.path.join(LEAN, ".lake", "audit_SQLTIE.lean")
            with open(path, "w") as f:
                f.write(src)
            p = subprocess.run(["lake", "env", "lean", path], cwd=LEAN, stdout=subprocess.PIPE, stderr=subprocess.STDOUT, timeout=1200)
            flat = re.sub(r"\s+", " ", p.stdout.decode())
            bad = {}
            for t in thms:
                m = re.search(r"'%s' depends on axioms: \[([^\]]*)\]" % re.escape(t), flat)
                if m:
                    ax = [a.strip() for a in m.group(1).split(",") if a.strip()]
                elif re.search(r"'%s' does not depend on any axioms" % re.escape(t), flat):
                    ax = []
                else:
                    bad[t] = ["missing"]
                    continue
                if [a for a in ax if a not in ALLOWED]:
                    bad[t] = ax
                else:
                    res["discharged"] += 1
            if bad:
                res["status"] = "broken"
                res["detail"] += "axioms: %s\n" % json.dumps(bad)[:600]
    res["detail"] = res["detail"][-1500:]
    _cache_put("sql", key, res)
    return res


def _audit(mods, thms, tag):
    """-> (discharged, bad) for `#print axioms` of thms"""
    src = "\n".join("import %s" % m for m in mods) + "\n" + "\n".join("#print axioms %s" % t for t in thms) + "\n"
    path = os.path.join(LEAN, ".lake", "audit_%s.lean" % tag)
    with open(path, "w") as f:
        f.write(src)
    p = subprocess.run(["lake", "env", "lean", path], cwd=LEAN, stdout=subprocess.PIPE, stderr=subprocess.STDOUT, timeout=1200)
    flat = re.sub(r"\s+", " ", p.stdout.decode())
    bad, ok = {}, 0
    for t in thms:
        m = re.search(r"'%s' depends on axioms: \[([^\]]*)\]" % re.escape(t), flat)
        if m:
            ax = [a.strip() for a in m.group(1).split(",") if a.strip()]
        elif re.search(r"'%s' does not depend on any axioms" % re.escape(t), flat):
            ax = []
        else:
            bad[t] = ["missing"]
            continue
        if [a for a in ax if a not in ALLOWED]:
            bad[t] = ax
        else:
            ok += 1
    return ok, bad


def run_ws():
    """the static tie of the validation layer: translate_ws.py regenerates GeneratedWs.lean from server_websocket.py;
    Wormhole/Tie/WsReject.lean proves that the generated checks decide exactly as the model's `rejectText`"""
    import translate_ws
    spec = json.load(open(os.path.join(LEAN, "theorems.json")))["WSTIE"]
    res = {"status": "tied", "theorems": len(spec["theorems"]), "discharged": 0, "detail": ""}
    with open(os.path.join(LEAN, ".lake", "verif-build.lock"), "w") as lk:
        fcntl.flock(lk, fcntl.LOCK_EX)
        info = translate_ws.main()
        if "error" in info:
            res.update(status="untranslatable", detail=info["error"])
            return res
        res["checks_translated"] = info["handlers"]
        res["regenerated"] = info["changed"]
        import translate_wsbody
        binfo = translate_wsbody.main()
        if "error" in binfo:
            res.update(status="untranslatable", detail=binfo["error"])
            return res
        res["bodies_translated"] = binfo["handlers"]
        key = _cache_key(translate_ws.OUT, ["WsGuards.lean", "Decode.lean", "Ws.lean", "Core.lean", "PyWs.lean", "GeneratedWsBody.lean",
                                            os.path.join("Props", "C17.lean")])
        hit = _cache_get("ws", key)
        if hit is not None:
            hit["cached"] = True
            return hit
        failed = []
        for m in spec["modules"]:
            ok, log = _lake(m)
            if not ok:
                failed.append(m)
                res["detail"] += "%s: %s\n" % (m, " | ".join([l for l in log.splitlines() if l.startswith("error")][:4])[-600:])
        if failed:
            res["status"] = "broken"
            res["failed_modules"] = failed
            _cache_put("ws", key, res)
            return res
        res["discharged"], bad = _audit(spec["modules"], spec["theorems"], "WSTIE")
        if bad:
            res["status"] = "broken"
            res["detail"] = "axioms: %s" % json.dumps(bad)[:600]
        _cache_put("ws", key, res)
    return res


def run_summ():
    """the static tie of the usage summaries: translate_summ.py regenerates GeneratedSumm.lean from `_summarize_nameplate_usage`
    and `_summarize_mailbox`; Wormhole/Tie/Summ.lean proves them equal to `summarizeNameplate` / `summarizeMailbox` of Core.lean"""
    import translate_summ
    spec = json.load(open(os.path.join(LEAN, "theorems.json")))["SUMMTIE"]
    res = {"status": "tied", "theorems": len(spec["theorems"]), "discharged": 0, "detail": ""}
    with open(os.path.join(LEAN, ".lake", "verif-build.lock"), "w") as lk:
        fcntl.flock(lk, fcntl.LOCK_EX)
        info = translate_summ.main()
        if "error" in info:
            res.update(status="untranslatable", detail=info["error"])
            return res
        res["functions_translated"] = info["functions"]
        key = _cache_key(translate_summ.OUT, ["PySum.lean", "Core.lean"])
        hit = _cache_get("summ", key)
        if hit is not None:
            hit["cached"] = True
            return hit
        ok, log = _lake(spec["modules"][0])
        if not ok:
            res["status"] = "broken"
            res["detail"] = " | ".join([l for l in log.splitlines() if l.startswith("error")][:4])[-1000:]
            _cache_put("summ", key, res)
            return res
        res["discharged"], bad = _audit(spec["modules"], spec["theorems"], "SUMMTIE")
        if bad:
            res["status"] = "broken"
            res["detail"] = "axioms: %s" % json.dumps(bad)[:600]
        _cache_put("summ", key, res)
    return res


def run_tap():
    """the static tie of the periodic sweep: translate_tap.py regenerates GeneratedTap.lean from `expire()` / `TimerService(…)` of
    server_tap.makeService; Wormhole/Tie/Tap.lean proves it equal to the model's `Sys.expire`"""
    import translate_tap
    spec = json.load(open(os.path.join(LEAN, "theorems.json")))["TAPTIE"]
    res = {"status": "tied", "theorems": len(spec["theorems"]), "discharged": 0, "detail": ""}
    with open(os.path.join(LEAN, ".lake", "verif-build.lock"), "w") as lk:
        fcntl.flock(lk, fcntl.LOCK_EX)
        info = translate_tap.main()
        if "error" in info:
            res.update(status="untranslatable", detail=info["error"])
            return res
        res["timer"] = info["timer"]
        key = _cache_key(translate_tap.OUT, ["PyTap.lean", "Core.lean", "Generated.lean"])
        hit = _cache_get("tap", key)
        if hit is not None:
            hit["cached"] = True
            return hit
        ok, log = _lake(spec["modules"][0])
        if not ok:
            res["status"] = "broken"
            res["detail"] = " | ".join([l for l in log.splitlines() if l.startswith("error")][:4])[-1000:]
            _cache_put("tap", key, res)
            return res
        res["discharged"], bad = _audit(spec["modules"], spec["theorems"], "TAPTIE")
        if bad:
            res["status"] = "broken"
            res["detail"] = "axioms: %s" % json.dumps(bad)[:600]
        _cache_put("tap", key, res)
    return res


def run_srv():
    """the static tie of the methods of Mailbox / AppNamespace: translate_srv.py regenerates GeneratedSrv.lean from the bodies of
    Mailbox.open/_touch/_add_message/close and AppNamespace._add_mailbox/open_mailbox/claim_nameplate/release_nameplate;
    Wormhole/Tie/Srv.lean proves each equal to the model's function of Core.lean, Tie/SrvStmts.lean ties the statement table"""
    import translate_srv
    spec = json.load(open(os.path.join(LEAN, "theorems.json")))["SRVTIE"]
    res = {"status": "tied", "theorems": len(spec["theorems"]), "discharged": 0, "detail": ""}
    with open(os.path.join(LEAN, ".lake", "verif-build.lock"), "w") as lk:
        fcntl.flock(lk, fcntl.LOCK_EX)
        import translate_sql
        sinfo = translate_sql.main()
        if "error" in sinfo:
            res.update(status="untranslatable", detail=sinfo["error"])
            return res
        import translate_summ
        minfo = translate_summ.main()
        if "error" in minfo:
            res.update(status="untranslatable", detail=minfo["error"])
            return res
        info = translate_srv.main()
        if "error" in info:
            res.update(status="untranslatable", detail=info["error"])
            return res
        res["methods"] = info["methods"]
        res["dropped_statements"] = info["dropped"]
        key = _cache_key(translate_srv.OUT, ["PySrv.lean", "Core.lean", "Store.lean", "Sys.lean", "Sql.lean", "GeneratedSql.lean",
                                             "Tie/Srv.lean", "Tie/SrvStmts.lean", "Tie/SrvAll.lean", "Tie/Defs.lean",
                                             "Tie/MailboxOpen.lean", "Tie/Messages.lean", "Tie/Claim.lean", "Tie/Release.lean", "Tie/MailboxClose.lean", "Tie/SrvWs.lean", "PyWs.lean", "PySum.lean", "GeneratedSumm.lean", "Tie/Prune.lean", "Tie/UsageSql.lean", "Tie/SrvSweep.lean", "Tie/SrvTop.lean", "Tie/SrvSumm.lean", "Generated.lean"])
        hit = _cache_get("srv", key)
        if hit is not None:
            hit["cached"] = True
            return hit
        ok, log = _lake(spec["modules"][0])
        if not ok:
            res["status"] = "broken"
            res["detail"] = " | ".join([l for l in log.splitlines() if l.startswith("error")][:4])[-1000:]
            _cache_put("srv", key, res)
            return res
        res["discharged"], bad = _audit(spec["modules"], spec["theorems"], "SRVTIE")
        if bad:
            res["status"] = "broken"
            res["detail"] = "axioms: %s" % json.dumps(bad)[:600]
        _cache_put("srv", key, res)
    return res


def run_wire():
    """the static tie of the configuration wiring: translate_wire.py regenerates GeneratedWire.lean (constructors of Server / AppNamespace /
    Mailbox and the four construction sites from makeService down); Wormhole/Tie/Wire.lean proves where every attribute comes from"""
    import translate_wire
    spec = json.load(open(os.path.join(LEAN, "theorems.json")))["WIRETIE"]
    res = {"status": "tied", "theorems": len(spec["theorems"]), "discharged": 0, "detail": ""}
    with open(os.path.join(LEAN, ".lake", "verif-build.lock"), "w") as lk:
        fcntl.flock(lk, fcntl.LOCK_EX)
        info = translate_wire.main()
        if "error" in info:
            res.update(status="untranslatable", detail=info["error"])
            return res
        res["construction_sites"] = info["calls"]
        key = _cache_key(translate_wire.OUT, ["Wire.lean"])
        hit = _cache_get("wire", key)
        if hit is not None:
            hit["cached"] = True
            return hit
        ok, log = _lake(spec["modules"][0])
        if not ok:
            res["status"] = "broken"
            res["detail"] = " | ".join([l for l in log.splitlines() if l.startswith("error")][:4])[-1000:]
            _cache_put("wire", key, res)
            return res
        res["discharged"], bad = _audit(spec["modules"], spec["theorems"], "WIRETIE")
        if bad:
            res["status"] = "broken"
            res["detail"] = "axioms: %s" % json.dumps(bad)[:600]
        _cache_put("wire", key, res)
    return res


if __name__ == "__main__":
    print(json.dumps({"sql": run(), "ws": run_ws(), "summ": run_summ(), "tap": run_tap(), "srv": run_srv(), "wire": run_wire()}, indent=1))
