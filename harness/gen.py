"""History generator.  Every random choice derives from one `random.Random(seed)`.

Histories are well-formed in the sense of the model's WF: connection ids are fresh and
alive when used, times never go back, generated mailbox ids (`fresh`) are globally
fresh, identifier fields are strings.  They are *mostly valid* protocol-wise, with a
separate stream of malformed / out-of-order commands mixed in.
"""
import random
from proto import TICKS

DEFAULT = dict(
    n_ops=40, apps=["a", "b"], sides=["s1", "s2", "s3"], names=["1", "2", "7", "07", "xé"],
    client_mailboxes=["m1", "m2"], shared_mailbox_ids=False,
    w_connect=6, w_claim=8, w_allocate=4, w_release=5, w_open=8, w_add=10, w_close=7, w_list=3, w_ping=1,
    w_malformed=3, w_drop=4, w_sweep=2, w_restart=1, w_crash=0, w_fault=0, w_reconnect=4, w_bigjump=1,
    usage=None, blur=None, allow_list=None, int_ids=False, moods=["happy", "lonely", "errory", "scary", "weird", None, "Happy", "SCARY", "lonely ", ""],
    p_badcv=0.0, p_near_ids=0.0, odd_scalars=False, twins=False, backstep=False, big_ints=False, extra_keys=True, quiesce=False, timer=False, welcome=False, start=8000, period=2400, expiration=5280, p_fault=0.0,
)


class Gen(object):
    def __init__(self, seed, **profile):
        self.r = random.Random(seed)
        self.p = dict(DEFAULT)
        self.p.update(profile)
        if self.p["start"] == "boundary":
            # a blur interval that is not tied to the sweep period, and a start shortly before one of its multiples
            b = self.r.choice([600, 900, 3600, 3600])
            self.p["blur"] = b
            self.p["start"] = b * TICKS * self.r.choice([2, 3, 5]) - self.r.randrange(100, 1300) * TICKS
        self.t = self.p["start"]
        self.h = []
        self.nextc = 1
        self.nfresh = 0
        self.conns = {}      # c -> dict(app, side, claimed, opened, mailbox, np)
        self.np_mb = {}      # (app, name) -> believed mailbox id
        self.known_mb = {}   # app -> list of mailbox ids seen
        self.seed = seed

    # -- helpers
    def fresh(self):
        self.nfresh += 1
        return "g%d-%d" % (self.seed % 100000, self.nfresh)

    def tick(self):
        r = self.r
        if self.p["backstep"] and r.random() < 0.12:
            # the wall clock is stepped back (NTP): outside the model's well-formedness, implementation + oracle only
            self.t = max(self.p["start"] if isinstance(self.p["start"], int) else 0, self.t - r.choice([1, 2, 3, 5, 8, 16, 40]))
            return self.t
        if r.random() < 0.6:
            self.t += r.choice([0, 1, 1, 2, 3, 8, 8, 16, 40])
        elif self.p["w_bigjump"] and r.random() < 0.15:
            self.t += r.choice([60 * TICKS, self.p["period"], self.p["expiration"] - self.p["period"], self.p["expiration"] - TICKS,
                                self.p["expiration"], self.p["expiration"] + TICKS, 900 * TICKS])
        self.fire_due()
        return self.t

    def fire_due(self):
        """timer mode: the service timer fires at start-up and then every period"""
        if not self.p["timer"]:
            return
        while self.next_fire <= self.t:
            self.emit({"op": "sweep", "now": self.next_fire, "fault": self.r.random() < self.p["p_fault"]})
            self.next_fire += self.p["period"]

    def emit(self, op):
        self.h.append(op)

    def recv(self, c, msg, **kw):
        op = {"op": "recv", "c": c, "t": self.tick(), "msg": msg}
        if self.p["extra_keys"] and self.r.random() < 0.1:
            op["extra"] = {"zzz_extra": self.r.choice([1, "x", None, [1, 2], {"a": 1}]), "side": "spoofed"}
            if msg.get("type") == "bind":
                op["extra"].pop("side")
        if self.r.random() < 0.3:
            msg["id"] = self.r.choice(["i%d" % self.r.randrange(100), self.r.randrange(100) if self.p["int_ids"] else "z", None])
        op.update(kw)
        self.emit(op)
        return op

    def pick_conn(self, pred=lambda s: True):
        cs = [c for c, s in self.conns.items() if pred(s)]
        return self.r.choice(cs) if cs else None

    def mailbox_pool(self, app):
        pool = list(self.known_mb.get(app, []))
        for m in self.p["client_mailboxes"]:
            pool.append(m if (self.p["shared_mailbox_ids"] or m == "") else "%s-%s" % (app, m))
        if self.p.get("p_near_ids", 0.0) and pool and self.r.random() < self.p["p_near_ids"]:
            # ids that contain / are contained in / share a prefix with an id in use
            base = self.r.choice(pool)
            pool.append(self.r.choice(["x" + base, base + "x", "backup-" + base, base[:-1] or "z", base[1:] or "z", base.upper(),
                                       base + "%", "_" + base[1:]]))
            return pool[-1:]
        return pool

    # -- ops
    def do_connect(self, app=None, side=None, bind=True):
        c = self.nextc
        self.nextc += 1
        self.emit({"op": "connect", "c": c})
        self.conns[c] = dict(app=None, side=None, claimed=False, released=False, opened=False, closed=False,
                             allocated=False, mailbox=None, np=None)
        if bind and self.r.random() < 0.95:
            app = app or self.r.choice(self.p["apps"])
            side = side or self.r.choice(self.p["sides"])
            msg = {"type": "bind", "appid": app, "side": side}
            q = self.r.random()
            if q < 0.3:
                msg["client_version"] = [self.r.choice(["python", "rust"]), self.r.choice(["0.1", "9.9"])]
            elif q < 0.35:
                msg["client_version"] = [None, "x", "junk"]
            elif q < 0.35 + self.p.get("p_badcv", 0.0):
                # outside the protocol's domain: Python raises while indexing it
                msg["client_version"] = self.r.choice([None, ["x"], [], {"a": 1}, "p"])
            self.recv(c, msg)
            self.conns[c].update(app=app, side=side)
        return c

    def do_reconnect(self):
        c = self.pick_conn(lambda s: s["app"] is not None)
        if c is None:
            return self.do_connect()
        s = self.conns[c]
        if self.r.random() < 0.5:
            self.do_drop(c)
        return self.do_connect(s["app"], s["side"])

    def do_claim(self):
        c = self.pick_conn(lambda s: s["app"] is not None and (not s["claimed"] or self.r.random() < 0.1))
        if c is None:
            return self.do_connect()
        s = self.conns[c]
        name = self.r.choice(self.p["names"])
        f = self.fresh()
        self.recv(c, {"type": "claim", "nameplate": name}, fresh=f)
        s["claimed"] = True
        s["np"] = name
        self.np_mb.setdefault((s["app"], name), f)
        self.known_mb.setdefault(s["app"], []).append(self.np_mb[(s["app"], name)])
        if self.r.random() < 0.2:
            self.np_mb.pop((s["app"], name), None)

    def do_allocate(self):
        c = self.pick_conn(lambda s: s["app"] is not None and (not s["allocated"] or self.r.random() < 0.1))
        if c is None:
            return self.do_connect()
        s = self.conns[c]
        f = self.fresh()
        self.recv(c, {"type": "allocate"}, fresh=f, pick=self.r.randrange(0, 1000), draws=[])
        s["allocated"] = True
        self.known_mb.setdefault(s["app"], []).append(f)

    def twin_of(self, held, pool):
        """an identifier of `pool` that is not `held` but looks like it (same after case folding + NFKC + stripping)"""
        import unicodedata
        norm = lambda x: unicodedata.normalize("NFKC", x).casefold().strip()
        tw = [x for x in pool if x != held and norm(x) == norm(held)]
        return self.r.choice(tw) if tw else None

    def do_release(self):
        c = self.pick_conn(lambda s: s["app"] is not None and (not s["released"] or self.r.random() < 0.1))
        if c is None:
            return self.do_connect()
        s = self.conns[c]
        msg = {"type": "release"}
        q = self.r.random()
        if s["np"] is None or q < 0.4:
            msg["nameplate"] = s["np"] if (s["np"] is not None and q < 0.9) else self.r.choice(self.p["names"])
            if self.p["twins"] and s["np"] is not None and self.r.random() < 0.35:
                msg["nameplate"] = self.twin_of(s["np"], self.p["names"]) or msg["nameplate"]
        self.recv(c, msg)
        s["released"] = True

    def do_open(self):
        c = self.pick_conn(lambda s: s["app"] is not None and (not s["opened"] or self.r.random() < 0.1))
        if c is None:
            return self.do_connect()
        s = self.conns[c]
        mb = self.r.choice(self.mailbox_pool(s["app"]))
        self.recv(c, {"type": "open", "mailbox": mb})
        s["opened"] = True
        s["mailbox"] = mb

    def do_add(self):
        c = self.pick_conn(lambda s: s["opened"] and not s["closed"]) or self.pick_conn(lambda s: s["app"] is not None)
        if c is None:
            return self.do_connect()
        ph = self.r.choice(["pake", "0", "1", "version", "phü"])
        if self.p["int_ids"] and self.r.random() < 0.3:
            ph = self.r.randrange(5)
        msg = {"type": "add", "phase": ph, "body": "%02x" % self.r.randrange(256) * self.r.randrange(1, 4)}
        if self.r.random() < 0.15 and getattr(self, "last_add", None):
            # a retransmission: the same phase and body as an earlier add (possibly from another connection of that side)
            msg["phase"], msg["body"] = self.last_add
        self.last_add = (msg["phase"], msg["body"])
        if self.p["big_ints"] and self.r.random() < 0.3:
            # JSON integers at and beyond the edge of a signed 64-bit integer
            big = [2 ** 63, -2 ** 63 - 1, 2 ** 64 - 1, 2 ** 63 - 1, -2 ** 63, 10 ** 30]
            msg[self.r.choice(["id", "phase", "body"])] = self.r.choice(big)
        if self.p["odd_scalars"]:
            # strings that LOOK like something else: numbers, hex in either case, JSON, SQL wildcards, the empty string
            odd = ["1", "007", "-3", " 42 ", "1_0", "\u0663", "1e3", "0x10", "true", "null", "", "DEADBEEF", "0aF3", "deadbeef", "00",
                   "{\"a\":1}", "%", "_", "a'b", "a\"b", "caf\u00e9", "cafe\u0301", "\u212b", "\u00c5", "x" * 300]
            if self.r.random() < 0.6:
                msg["phase"] = self.r.choice(odd)
            if self.r.random() < 0.6:
                msg["body"] = self.r.choice(odd)
            if self.r.random() < 0.3:
                msg["id"] = self.r.choice(odd)
        if self.r.random() < 0.5:
            msg["id"] = self.r.choice(["m%d" % self.r.randrange(50), "007", "1.50", None] +
                                      ([self.r.randrange(50)] if self.p["int_ids"] else []))
        self.recv(c, msg)

    def do_close(self):
        c = self.pick_conn(lambda s: s["app"] is not None and (not s["closed"] or self.r.random() < 0.1))
        if c is None:
            return self.do_connect()
        s = self.conns[c]
        msg = {"type": "close"}
        q = self.r.random()
        if s["mailbox"] is None or q < 0.4:
            pool = self.mailbox_pool(s["app"])
            msg["mailbox"] = s["mailbox"] if (s["mailbox"] is not None and q < 0.9) else self.r.choice(pool)
            if self.p["twins"] and s["mailbox"] is not None and self.r.random() < 0.35:
                msg["mailbox"] = self.twin_of(s["mailbox"], pool) or msg["mailbox"]
        m = self.r.choice(self.p["moods"] + ["absent"])
        if m != "absent":
            msg["mood"] = m
        self.recv(c, msg)
        s["closed"] = True
        if s["mailbox"] is None and "mailbox" in msg:
            pass

    def do_list(self):
        c = self.pick_conn(lambda s: s["app"] is not None)
        if c is None:
            return self.do_connect()
        self.recv(c, {"type": "list"})

    def do_ping(self):
        c = self.pick_conn()
        if c is None:
            return self.do_connect()
        self.recv(c, {"type": "ping", "ping": self.r.choice([1, "p", None, 77])})

    def do_malformed(self):
        c = self.pick_conn()
        if c is None:
            return self.do_connect(bind=False)
        kind = self.r.choice(["notype", "unknown", "nofield", "prebind", "double", "mismatch"])
        if kind == "notype":
            self.recv(c, {"foo": "bar"})
        elif kind == "unknown":
            self.recv(c, {"type": self.r.choice(["bogus", "", "OPEN", "welcome", None, 5, "ping ", "Bind"])})
        elif kind == "nofield":
            self.recv(c, self.r.choice([{"type": "bind"}, {"type": "bind", "appid": "a"}, {"type": "bind", "side": "s1"},
                                        {"type": "claim"}, {"type": "open"}, {"type": "add"}, {"type": "add", "phase": "p"},
                                        {"type": "add", "body": "00"}, {"type": "ping"}, {"type": "release"},
                                        {"type": "close"}]),
                      fresh=self.fresh())
        elif kind == "prebind":
            c2 = self.do_connect(bind=False)
            self.recv(c2, self.r.choice([{"type": "list"}, {"type": "allocate"}, {"type": "claim", "nameplate": "1"},
                                         {"type": "open", "mailbox": "m"}, {"type": "add", "phase": "p", "body": "00"},
                                         {"type": "close"}, {"type": "release"}, {"type": "bogus"}]),
                      fresh=self.fresh(), pick=0, draws=[])
        elif kind == "double":
            s = self.conns[c]
            if s["app"] is not None:
                self.recv(c, {"type": "bind", "appid": self.r.choice(self.p["apps"]), "side": "s9"})
        else:
            s = self.conns[c]
            if s["app"] is not None:
                self.recv(c, self.r.choice([{"type": "release", "nameplate": "zz-other"},
                                            {"type": "close", "mailbox": "zz-other"}]))

    def do_drop(self, c=None):
        c = c if c is not None else self.pick_conn()
        if c is None:
            return
        self.emit({"op": "drop", "c": c})
        del self.conns[c]

    def do_sweep(self, fault=False):
        if self.p["timer"]:
            # only the timer sweeps: move the clock to just before/at/after the next firing
            self.t = max(self.t, self.next_fire + self.r.choice([-1, 0, 0, 1]))
            self.fire_due()
            return
        self.tick()
        if self.r.random() < 0.5:
            self.t += self.r.choice([TICKS, self.p["period"], self.p["expiration"] - 60 * TICKS, self.p["expiration"],
                                     self.p["expiration"] + 40 * TICKS])
        self.emit({"op": "sweep", "now": self.t, "fault": fault})

    def do_restart(self):
        for c in list(self.conns):
            if self.r.random() < 0.7:
                self.do_drop(c)
        self.conns = {}
        self.tick()
        self.emit({"op": "restart", "t": self.t})
        self.next_fire = self.t
        self.fire_due()

    def do_crash(self):
        k = self.r.choice([0, 1, 1, 2, 2, 3, 3, 4, 5, 6, 7, 8])
        self.emit({"op": "crash", "k": k})
        n = len(self.h)
        self.r.choice([self.do_claim, self.do_release, self.do_open, self.do_close, self.do_add, self.do_allocate,
                       self.do_sweep])()
        # the crash prefix must sit directly before exactly one op
        ops_after = self.h[n:]
        if len(ops_after) != 1:
            # the chosen action expanded to several ops (e.g. had to connect first): move the prefix
            self.h.pop(n - 1)
            self.h.insert(len(self.h) - 1, {"op": "crash", "k": k})
        last = self.h[-1]
        if last["op"] in ("connect", "drop") or (last["op"] == "recv" and last["msg"].get("type") in ("bind", "list", "ping")):
            # nothing worth crashing: crash a sweep instead (it has the most commit boundaries)
            self.h.pop(-2)
            self.emit({"op": "crash", "k": k})
            self.do_sweep()
            if self.h[-1]["op"] != "sweep":
                self.h.pop(-1) if self.h[-1]["op"] == "crash" else None
        self.conns = {}
        self.t += self.r.choice([0, 1, 8, 80])     # the process is down: no timer firing in between
        self.emit({"op": "restart", "t": self.t})
        self.next_fire = self.t
        self.fire_due()

    # -- main
    def cfg(self):
        p, r = self.p, self.r
        cfg = {"op": "cfg", "rebooted": self.t,
               "usage": p["usage"] if p["usage"] is not None else r.random() < 0.6,
               "allow_list": p["allow_list"] if p["allow_list"] is not None else r.random() < 0.7,
               "blur": p["blur"] if p["blur"] is not None else r.choice([None, None, 1, 7, 60, 3600, 0])}
        if p["blur"] == "none":
            cfg["blur"] = None
        if p["blur"] == "rand":
            cfg["blur"] = r.choice([1, 7, 20, 60, 100, 777, 3600, 86400, r.randrange(1, 5000)])
        if p["welcome"] or r.random() < 0.2:
            cfg["motd"] = r.choice(["hello", "mötd"])
            if r.random() < 0.5:
                cfg["advertise"] = "1.2.3"
            if r.random() < 0.3:
                cfg["error"] = "go away"
        return cfg

    def history(self):
        p, r = self.p, self.r
        self.emit(self.cfg())
        self.next_fire = self.t
        self.fire_due()
        table = [("w_connect", self.do_connect), ("w_claim", self.do_claim), ("w_allocate", self.do_allocate),
                 ("w_release", self.do_release), ("w_open", self.do_open), ("w_add", self.do_add),
                 ("w_close", self.do_close), ("w_list", self.do_list), ("w_ping", self.do_ping),
                 ("w_malformed", self.do_malformed), ("w_drop", self.do_drop), ("w_sweep", self.do_sweep),
                 ("w_restart", self.do_restart), ("w_crash", self.do_crash), ("w_reconnect", self.do_reconnect),
                 ("w_fault", lambda: self.do_sweep(fault=True))]
        acts = [f for k, f in table for _ in range(p[k])]
        while len(self.h) < p["n_ops"]:
            r.choice(acts)()
        if p["quiesce"]:
            for c in list(self.conns):
                self.do_drop(c)
            self.t += p["expiration"] + r.choice([0, 1, 300]) * TICKS
            if p["timer"]:
                self.t += p["period"]
                self.fire_due()
            else:
                self.emit({"op": "sweep", "now": self.t, "fault": False})
            if r.random() < 0.5:
                # ... and the process is restarted afterwards: what the last sweep deleted must have been committed
                self.do_restart()
        return self.h


def generate(seed, **profile):
    return Gen(seed, **profile).history()
