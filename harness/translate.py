#!/usr/bin/env python3
"""Translator: /repo sources -> lean/Wormhole/Generated.lean (run on every check).

Reads the Python sources with `ast` (nothing from the repository is imported or executed)
and the SQL scripts with a small statement splitter.  If a definition it expects is not
found it raises TranslateError: a broken tie is reported, never silently defaulted.
"""
import ast, os, re, sys, json, hashlib

REPO = os.environ.get("VERIF_REPO", "/repo")
SRC = os.path.join(REPO, "src", "wormhole_mailbox_server")
HERE = os.path.dirname(os.path.abspath(__file__))
OUT = os.path.join(os.path.dirname(HERE), "lean", "Wormhole", "Generated.lean")
TICKS = 8  # harness convention: ticks per second (times are multiples of 1/8 s)


class TranslateError(Exception):
    pass


def _const_eval(node, env):
    """Evaluate a constant arithmetic expression over names in env."""
    if isinstance(node, ast.Constant) and isinstance(node.value, (int, float)):
        return node.value
    if isinstance(node, ast.Name):
        if node.id in env:
            return env[node.id]
        raise TranslateError("unknown name %s in constant expression" % node.id)
    if isinstance(node, ast.BinOp):
        a, b = _const_eval(node.left, env), _const_eval(node.right, env)
        if isinstance(node.op, ast.Mult):
            return a * b
        if isinstance(node.op, ast.Add):
            return a + b
        if isinstance(node.op, ast.Sub):
            return a - b
        if isinstance(node.op, ast.Pow):
            return a ** b
        if isinstance(node.op, ast.Div):
            return a / b
        if isinstance(node.op, ast.FloorDiv):
            return a // b
    if isinstance(node, ast.UnaryOp) and isinstance(node.op, ast.USub):
        return -_const_eval(node.operand, env)
    raise TranslateError("not a constant expression: %s" % ast.dump(node))


def module_constants(path, wanted):
    tree = ast.parse(open(path).read(), path)
    env = {}
    for node in tree.body:
        if isinstance(node, ast.Assign) and len(node.targets) == 1 \
                and isinstance(node.targets[0], ast.Name):
            try:
                env[node.targets[0].id] = _const_eval(node.value, env)
            except TranslateError:
                pass
    missing = [w for w in wanted if w not in env]
    if missing:
        raise TranslateError("%s: constants not found: %s" % (path, missing))
    return {w: env[w] for w in wanted}


def find_function(tree, cls, name):
    for node in ast.walk(tree):
        if isinstance(node, ast.ClassDef) and node.name == cls:
            for f in node.body:
                if isinstance(f, ast.FunctionDef) and f.name == name:
                    return f
    raise TranslateError("function %s.%s not found" % (cls, name))


def alloc_constants(path):
    """The loops of AppNamespace._find_available_nameplate_id:
         for size in range(A,B): ... range(10**(size-1), 10**size) ...
         for tries in range(T): random.randrange(LO, HI)"""
    tree = ast.parse(open(path).read(), path)
    f = find_function(tree, "AppNamespace", "_find_available_nameplate_id")
    size_rng = tries = lohi = None
    for node in ast.walk(f):
        if isinstance(node, ast.For) and isinstance(node.iter, ast.Call) \
                and getattr(node.iter.func, "id", None) == "range" \
                and isinstance(node.target, ast.Name):
            args = [_const_eval(a, {}) for a in node.iter.args] \
                if all(not any(isinstance(n, ast.Name) for n in ast.walk(a)) for a in node.iter.args) else None
            if node.target.id == "size" and args and len(args) == 2:
                size_rng = tuple(args)
                # inner range must be 10**(size-1) .. 10**size
                inner = [n for n in ast.walk(node) if isinstance(n, ast.For) and n is not node]
                ok = False
                for i in inner:
                    if isinstance(i.iter, ast.Call) and getattr(i.iter.func, "id", None) == "range" \
                            and len(i.iter.args) == 2:
                        lo = _const_eval(i.iter.args[0], {"size": 2})
                        hi = _const_eval(i.iter.args[1], {"size": 2})
                        if (lo, hi) == (10, 100):
                            ok = True
                if not ok:
                    raise TranslateError("allocation scan is no longer range(10**(size-1), 10**size)")
            if node.target.id == "tries" and args and len(args) == 1:
                tries = args[0]
        if isinstance(node, ast.Call) and isinstance(node.func, ast.Attribute) \
                and node.func.attr == "randrange" and len(node.args) == 2:
            lohi = (_const_eval(node.args[0], {}), _const_eval(node.args[1], {}))
    if size_rng is None or tries is None or lohi is None:
        raise TranslateError("allocation constants not found (%r %r %r)" % (size_rng, tries, lohi))
    return {"sizeLo": size_rng[0], "sizeHi": size_rng[1], "tries": tries, "lo": lohi[0], "hi": lohi[1]}


# ---- _find_available_nameplate_id, statement by statement -------------------------------------------------

def _lx(node, names):
    """a Python integer expression over loop variables -> Lean Nat term"""
    if isinstance(node, ast.Constant) and isinstance(node.value, int) and not isinstance(node.value, bool) and node.value >= 0:
        return str(node.value)
    if isinstance(node, ast.Name) and node.id in names:
        return node.id
    if isinstance(node, ast.BinOp):
        ops = {ast.Add: "+", ast.Sub: "-", ast.Mult: "*", ast.Pow: "^"}
        for k, v in ops.items():
            if isinstance(node.op, k):
                return "(%s %s %s)" % (_lx(node.left, names), v, _lx(node.right, names))
    raise TranslateError("allocation: expression not understood: %s" % ast.dump(node)[:200])


def _range(call, names):
    """range(a, b) / range(n) -> Lean list term"""
    if not (isinstance(call, ast.Call) and getattr(call.func, "id", None) == "range" and not call.keywords):
        raise TranslateError("allocation: loop is not over range(...)")
    if len(call.args) == 1:
        return "(List.range %s)" % _lx(call.args[0], names)
    if len(call.args) == 2:
        a, b = _lx(call.args[0], names), _lx(call.args[1], names)
        return "(List.range' %s (%s - %s))" % (a, b, a)
    raise TranslateError("allocation: range with a step")


def _is_fmt_d(node, var):
    """`"%d" % var`"""
    return (isinstance(node, ast.BinOp) and isinstance(node.op, ast.Mod) and isinstance(node.left, ast.Constant)
            and node.left.value == "%d" and isinstance(node.right, ast.Name) and node.right.id == var)


def _not_in(test, var, coll):
    return (isinstance(test, ast.Compare) and len(test.ops) == 1 and isinstance(test.ops[0], ast.NotIn)
            and isinstance(test.left, ast.Name) and test.left.id == var
            and isinstance(test.comparators[0], ast.Name) and test.comparators[0].id == coll)


def _assign(st, var=None):
    if isinstance(st, ast.Assign) and len(st.targets) == 1 and isinstance(st.targets[0], ast.Name) \
            and (var is None or st.targets[0].id == var):
        return st.targets[0].id, st.value
    return None, None


def alloc_body(path):
    """AppNamespace._find_available_nameplate_id -> Lean text of `genFindAvailable` (one Lean construct per statement).
    `random.choice(list(S))` is `S[pick % |S|]` (S in generation order; `pick` arbitrary), the i-th `random.randrange(lo, hi)` is
    `draws.getD i (lo + i)`, `"%d" % k` is `toString k`, `raise` is `none`, a `for` whose body may return is `findSome?`."""
    tree = ast.parse(open(path).read(), path)
    f = find_function(tree, "AppNamespace", "_find_available_nameplate_id")
    body = [st for st in f.body if not (isinstance(st, ast.Expr) and isinstance(st.value, ast.Constant))]
    if len(body) != 4:
        raise TranslateError("allocation: %d top-level statements, expected 4" % len(body))
    claimed, v = _assign(body[0])
    if claimed is None or not (isinstance(v, ast.Call) and isinstance(v.func, ast.Attribute)
                               and v.func.attr == "_get_nameplate_ids" and not v.args):
        raise TranslateError("allocation: first statement is not `claimed = self._get_nameplate_ids()`")
    # --- loop 1
    l1 = body[1]
    if not (isinstance(l1, ast.For) and isinstance(l1.target, ast.Name) and not l1.orelse and len(l1.body) == 3):
        raise TranslateError("allocation: first loop has an unexpected shape")
    size = l1.target.id
    r1 = _range(l1.iter, set())
    av, v = _assign(l1.body[0])
    if av is None or not (isinstance(v, ast.Call) and getattr(v.func, "id", None) == "set" and not v.args):
        raise TranslateError("allocation: `available = set()` expected")
    inner = l1.body[1]
    if not (isinstance(inner, ast.For) and isinstance(inner.target, ast.Name) and not inner.orelse and len(inner.body) == 2):
        raise TranslateError("allocation: inner loop has an unexpected shape")
    k = inner.target.id
    r2 = _range(inner.iter, {size})
    idv, v = _assign(inner.body[0])
    if idv is None or not _is_fmt_d(v, k):
        raise TranslateError("allocation: `id = \"%d\" % id_int` expected in the inner loop")
    cond = inner.body[1]
    if not (isinstance(cond, ast.If) and not cond.orelse and len(cond.body) == 1):
        raise TranslateError("allocation: inner `if` has an unexpected shape")
    add = cond.body[0]
    if not (isinstance(add, ast.Expr) and isinstance(add.value, ast.Call) and isinstance(add.value.func, ast.Attribute)
            and add.value.func.attr == "add" and getattr(add.value.func.value, "id", None) == av
            and len(add.value.args) == 1 and getattr(add.value.args[0], "id", None) == idv):
        raise TranslateError("allocation: `available.add(id)` expected")
    if _not_in(cond.test, idv, claimed):
        c1 = "¬ %s ∈ %s" % (idv, claimed)
    elif isinstance(cond.test, ast.Compare) and len(cond.test.ops) == 1 and isinstance(cond.test.ops[0], ast.In) \
            and getattr(cond.test.left, "id", None) == idv and getattr(cond.test.comparators[0], "id", None) == claimed:
        c1 = "%s ∈ %s" % (idv, claimed)
    else:
        raise TranslateError("allocation: inner condition not understood")
    ret = l1.body[2]
    if not (isinstance(ret, ast.If) and not ret.orelse and len(ret.body) == 1 and getattr(ret.test, "id", None) == av
            and isinstance(ret.body[0], ast.Return)):
        raise TranslateError("allocation: `if available: return ...` expected")
    rv = ret.body[0].value
    if not (isinstance(rv, ast.Call) and isinstance(rv.func, ast.Attribute) and rv.func.attr == "choice"
            and getattr(rv.func.value, "id", None) == "random" and len(rv.args) == 1
            and isinstance(rv.args[0], ast.Call) and getattr(rv.args[0].func, "id", None) == "list"
            and len(rv.args[0].args) == 1 and getattr(rv.args[0].args[0], "id", None) == av):
        raise TranslateError("allocation: `random.choice(list(available))` expected")
    # --- loop 2
    l2 = body[2]
    if not (isinstance(l2, ast.For) and isinstance(l2.target, ast.Name) and not l2.orelse and len(l2.body) == 3):
        raise TranslateError("allocation: second loop has an unexpected shape")
    tries = l2.target.id
    r3 = _range(l2.iter, set())
    k2, v = _assign(l2.body[0])
    if k2 is None or not (isinstance(v, ast.Call) and isinstance(v.func, ast.Attribute) and v.func.attr == "randrange"
                          and getattr(v.func.value, "id", None) == "random" and len(v.args) == 2 and not v.keywords):
        raise TranslateError("allocation: `id_int = random.randrange(lo, hi)` expected")
    lo = _lx(v.args[0], set())
    id2, v = _assign(l2.body[1])
    if id2 is None or not _is_fmt_d(v, k2):
        raise TranslateError("allocation: `id = \"%d\" % id_int` expected in the second loop")
    c2 = l2.body[2]
    if not (isinstance(c2, ast.If) and not c2.orelse and len(c2.body) == 1 and isinstance(c2.body[0], ast.Return)
            and getattr(c2.body[0].value, "id", None) == id2):
        raise TranslateError("allocation: `if id not in claimed: return id` expected")
    if _not_in(c2.test, id2, claimed):
        c2t = "¬ %s ∈ %s" % (id2, claimed)
    elif isinstance(c2.test, ast.Compare) and len(c2.test.ops) == 1 and isinstance(c2.test.ops[0], ast.In) \
            and getattr(c2.test.left, "id", None) == id2 and getattr(c2.test.comparators[0], "id", None) == claimed:
        c2t = "%s ∈ %s" % (id2, claimed)
    else:
        raise TranslateError("allocation: second condition not understood")
    if not isinstance(body[3], ast.Raise):
        raise TranslateError("allocation: the function does not end in `raise`")
    L = []
    L.append("def genFindAvailable (%s : List String) (pick : Nat) (draws : List Nat) : Option String :=" % claimed)
    L.append("  (%s.findSome? (fun %s =>" % (r1, size))
    L.append("    let %s : List String := %s.filterMap (fun %s =>" % (av, r2, k))
    L.append("      let %s := toString %s" % (idv, k))
    L.append("      if %s then some %s else none)" % (c1, idv))
    L.append("    %s[pick %% %s.length]?)).or" % (av, av))
    L.append("  ((%s.findSome? (fun %s =>" % (r3, tries))
    L.append("    let %s := draws.getD %s (%s + %s)" % (k2, tries, lo, tries))
    L.append("    let %s := toString %s" % (id2, k2))
    L.append("    if %s then some %s else none)).or" % (c2t, id2))
    L.append("  none)")
    return "\n".join(L)

ALLOC_BEGIN = "-- BEGIN genFindAvailable"
ALLOC_END = "-- END genFindAvailable"


def strip_sql_comments(text):
    out = []
    for line in text.splitlines():
        i = line.find("--")
        if i >= 0:
            line = line[:i]
        out.append(line)
    return "\n".join(out)


def normalise_stmt(stmt):
    s = re.sub(r"\s+", " ", stmt).strip()
    s = re.sub(r"\s*([(),=])\s*", r"\1", s)
    return s


def sql_statements(path):
    """-> list of (kind, object, normalised text)"""
    text = strip_sql_comments(open(path).read())
    res = []
    for raw in text.split(";"):
        s = normalise_stmt(raw)
        if not s:
            continue
        low = s.lower()
        m = re.match(r"create table `?(\w+)`?", low)
        if m:
            res.append(("table", m.group(1), s)); continue
        m = re.match(r"create index `?(\w+)`? on `?(\w+)`?", low)
        if m:
            res.append(("index", m.group(1), s)); continue
        m = re.match(r"delete from `?(\w+)`?$", low)
        if m:
            res.append(("deleteall", m.group(1), s)); continue
        m = re.match(r"insert into `?(\w+)`?\(`?(\w+)`?\)values\((\d+)\)$", low)
        if m:
            res.append(("insert", m.group(1), m.group(3))); continue
        raise TranslateError("%s: unsupported SQL statement: %s" % (path, s))
    return res


def lean_str(s):
    return '"' + s.replace("\\", "\\\\").replace('"', '\\"') + '"'


def lean_stmts(name, stmts):
    lines = ["def %s : List (String × String × String) := [" % name]
    lines.append(",\n".join("  (%s, %s, %s)" % (lean_str(k), lean_str(o), lean_str(t)) for k, o, t in stmts))
    lines.append("]")
    return "\n".join(lines)


def _previous_values():
    """values of the last successfully generated file (used when a section cannot be translated)"""
    vals = {}
    if os.path.exists(OUT):
        txt = open(OUT).read()
        for m in re.finditer(r"^def (\w+) : (?:Nat|Int) := (-?\d+)", txt, re.M):
            vals[m.group(1)] = int(m.group(2))
    return vals


def _previous_alloc_text():
    if os.path.exists(OUT):
        txt = open(OUT).read()
        if ALLOC_BEGIN in txt and ALLOC_END in txt:
            return txt.split(ALLOC_BEGIN + "\n", 1)[1].split("\n" + ALLOC_END, 1)[0]
    return ("def genFindAvailable (claimed : List String) (pick : Nat) (draws : List Nat) : Option String :=\n"
            "  none")


def generate():
    """-> (text, info).  info["errors"] maps a section (tap / alloc / db / scripts) to the reason it
    could not be translated; for such a section the previous values are kept, so that the model
    still builds and the search for a failing input can run against it."""
    errors = {}
    prev = _previous_values()
    try:
        tap = module_constants(os.path.join(SRC, "server_tap.py"),
                               ["CHANNEL_EXPIRATION_TIME", "EXPIRATION_CHECK_PERIOD"])
        exp_t = tap["CHANNEL_EXPIRATION_TIME"] * TICKS
        per_t = tap["EXPIRATION_CHECK_PERIOD"] * TICKS
        if exp_t != int(exp_t) or per_t != int(per_t):
            raise TranslateError("expiration constants are not multiples of 1/%d s" % TICKS)
    except (TranslateError, OSError, SyntaxError) as e:
        errors["tap"] = str(e)
        exp_t, per_t = prev.get("expirationTicks", 5280), prev.get("periodTicks", 2400)
    try:
        dbc = module_constants(os.path.join(SRC, "database.py"),
                               ["CHANNELDB_TARGET_VERSION", "USAGEDB_TARGET_VERSION"])
    except (TranslateError, OSError, SyntaxError) as e:
        errors["db"] = str(e)
        dbc = {"CHANNELDB_TARGET_VERSION": prev.get("channelTarget", 1), "USAGEDB_TARGET_VERSION": prev.get("usageTarget", 2)}
    try:
        alloc = alloc_constants(os.path.join(SRC, "server.py"))
    except (TranslateError, OSError, SyntaxError) as e:
        errors["alloc"] = str(e)
        alloc = {"sizeLo": prev.get("allocSizeLo", 1), "sizeHi": prev.get("allocSizeHi", 4), "tries": prev.get("allocTries", 1000),
                 "lo": prev.get("allocLo", 1000), "hi": prev.get("allocHi", 1000000)}
    # the body, statement by statement: a shape alloc_body does not read is NOT an alarm - the stub below makes
    # Tie/Alloc.lean fail, which un-ties the static tie of the AppNamespace methods (a NOTE and a wider search)
    try:
        alloc_text = alloc_body(os.path.join(SRC, "server.py"))
    except (TranslateError, OSError, SyntaxError) as e:
        errors["alloc_body"] = str(e)
        alloc_text = ("-- NOT TRANSLATED: %s\n" % str(e).replace("\n", " ")[:300] +
                      "def genFindAvailable (claimed : List String) (pick : Nat) (draws : List Nat) : Option String :=\n  none")
    sch = os.path.join(SRC, "db-schemas")
    scripts = {}
    try:
        for fn in sorted(os.listdir(sch)):
            if fn.endswith(".sql"):
                scripts[fn] = sql_statements(os.path.join(sch, fn))
    except (TranslateError, OSError) as e:
        errors["scripts"] = str(e)
    info = {"expirationTicks": int(exp_t), "periodTicks": int(per_t), "alloc": alloc,
            "channelTarget": dbc["CHANNELDB_TARGET_VERSION"], "usageTarget": dbc["USAGEDB_TARGET_VERSION"],
            "scripts": {k: v for k, v in scripts.items()}, "errors": errors}
    if "scripts" in errors:
        # keep the whole previous file: the SQL sections cannot be regenerated piecemeal
        return (open(OUT).read() if os.path.exists(OUT) else ""), info
    L = []
    L.append("/- GENERATED by harness/translate.py from the sources under /repo -- do not edit.")
    L.append("   Regenerated on every check run; the model and the theorems use these values. -/")
    L.append("namespace Wormhole.Generated")
    L.append("")
    L.append("/-- ticks per second (harness convention, not from the source) -/")
    L.append("def ticksPerSecond : Nat := %d" % TICKS)
    L.append("/-- server_tap.CHANNEL_EXPIRATION_TIME, in ticks -/")
    L.append("def expirationTicks : Int := %d" % int(exp_t))
    L.append("/-- server_tap.EXPIRATION_CHECK_PERIOD, in ticks -/")
    L.append("def periodTicks : Int := %d" % int(per_t))
    L.append("/-- `for size in range(sizeLo, sizeHi)` in _find_available_nameplate_id -/")
    L.append("def allocSizeLo : Nat := %d" % alloc["sizeLo"])
    L.append("def allocSizeHi : Nat := %d" % alloc["sizeHi"])
    L.append("/-- `for tries in range(allocTries)`: `random.randrange(allocLo, allocHi)` -/")
    L.append("def allocTries : Nat := %d" % alloc["tries"])
    L.append("def allocLo : Nat := %d" % alloc["lo"])
    L.append("def allocHi : Nat := %d" % alloc["hi"])
    L.append("/-- AppNamespace._find_available_nameplate_id, one construct per statement (see translate.alloc_body) -/")
    L.append(ALLOC_BEGIN)
    L.append(alloc_text)
    L.append(ALLOC_END)
    L.append("def channelTarget : Nat := %d" % dbc["CHANNELDB_TARGET_VERSION"])
    L.append("def usageTarget : Nat := %d" % dbc["USAGEDB_TARGET_VERSION"])
    L.append("")
    L.append("/-! SQL scripts as (kind, object, normalised statement text); comments removed. -/")
    names = {}
    for fn, st in scripts.items():
        ident = "sql_" + re.sub(r"\W", "_", fn[:-4])
        names[fn] = ident
        L.append(lean_stmts(ident, st))
        L.append("")
    L.append("/-- every script found under db-schemas/, by file name -/")
    L.append("def scripts : List (String × List (String × String × String)) := [")
    L.append(",\n".join("  (%s, %s)" % (lean_str(fn), names[fn]) for fn in scripts))
    L.append("]")
    L.append("")
    L.append("end Wormhole.Generated")
    text = "\n".join(L) + "\n"
    return text, info


def main():
    text, info = generate()
    old = open(OUT).read() if os.path.exists(OUT) else None
    if old != text:
        with open(OUT + ".tmp", "w") as f:
            f.write(text)
        os.replace(OUT + ".tmp", OUT)
    info["sha256"] = hashlib.sha256(text.encode()).hexdigest()
    info["changed"] = old != text
    if "--json" in sys.argv:
        json.dump(info, sys.stdout)
        print()
    return info


if __name__ == "__main__":
    try:
        main()
    except TranslateError as e:
        print("TRANSLATE-ERROR: %s" % e, file=sys.stderr)
        sys.exit(3)
