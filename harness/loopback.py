"""Validation of the fake transport: replay histories through the REAL Autobahn/Twisted
stack on 127.0.0.1 (real listening port, real websocket clients, real JSON framing) and
compare, per connection, the frames the clients receive with what the in-process runner
(impl.Runner, which intercepts `sendMessage`) observed for the same history.

  python loopback.py <n-histories> <seed>      -> JSON {"histories":..,"frames":..,"mismatches":[...]}

Histories are restricted to connect / recv / drop / sweep (the server object is the same for
the whole history).  After every operation a `ping` barrier on every open connection makes
sure all frames caused by the operation have arrived (TCP preserves order per connection).
"""
import sys, os, json

HERE = os.path.dirname(os.path.abspath(__file__))
sys.path.insert(0, HERE)


def strip(line):
    """frame line without the connection-independent noise: drop the synced flag"""
    p = line.split(" ")
    return " ".join([p[0], p[1], "_"] + p[3:])


def expected_frames(history):
    import corr
    oi = corr.observe(history, dumps="end")
    per = {}
    for op, ev, _ in oi["steps"]:
        for e in ev or []:
            if e.startswith("F "):
                per.setdefault(int(e.split(" ")[1]), []).append(strip(e))
    return per


def run_real(history):
    """-> per-connection list of frame lines received by real clients"""
    import impl, proto
    from twisted.internet import reactor, endpoints, defer
    from twisted.internet.defer import inlineCallbacks
    from autobahn.twisted import websocket

    r = impl.Runner()
    result = {}
    got = {}
    state = {"barrier": 0}

    class Client(websocket.WebSocketClientProtocol):
        def onOpen(self):
            self.factory.d_open.callback(self)

        def onMessage(self, payload, isBinary):
            msg = json.loads(payload.decode("utf-8"))
            c = self.factory.cid
            if msg.get("type") == "pong" and isinstance(msg.get("pong"), str) and msg["pong"].startswith("__barrier"):
                d = self.factory.waiting.pop(msg["pong"], None)
                if d:
                    d.callback(None)
                return
            if msg.get("type") == "ack" and isinstance(msg.get("id"), str) and msg["id"].startswith("__barrier"):
                return
            got.setdefault(c, []).append(strip(proto.frame_line(c, True, msg)))

        def onClose(self, wasClean, code, reason):
            # the server dropped us (a handler raised) or we closed: release every waiter
            c = self.factory.cid
            if clients.get(c) is self:
                clients.pop(c, None)
                got.setdefault(c, []).append("F %d _ !connection-closed-by-server" % c)
            for tag, w in list(self.factory.waiting.items()):
                self.factory.waiting.pop(tag, None)
                if not w.called:
                    w.callback(None)
            d = getattr(self.factory, "d_closed", None)
            if d and not d.called:
                d.callback(None)

    clients = {}

    @inlineCallbacks
    def barrier():
        ds = []
        for c, p in list(clients.items()):
            state["barrier"] += 1
            tag = "__barrier%d" % state["barrier"]
            d = defer.Deferred()
            p.factory.waiting[tag] = d
            p.sendMessage(json.dumps({"type": "ping", "ping": tag, "id": tag}).encode("utf-8"), False)
            ds.append(d)
        yield defer.DeferredList(ds)

    @inlineCallbacks
    def main():
        try:
            r.run_op(history[0])
            # a real listening site from the service's own web server factory
            from wormhole_mailbox_server.web import make_web_server
            site = make_web_server(r.server, False)
            ep = endpoints.TCP4ServerEndpoint(reactor, 0, interface="127.0.0.1")
            lp = yield ep.listen(site)
            port = lp.getHost().port
            for op in history[1:]:
                k = op["op"]
                if k == "connect":
                    f = websocket.WebSocketClientFactory("ws://127.0.0.1:%d/v1" % port)
                    f.protocol = Client
                    f.cid = op["c"]
                    f.waiting = {}
                    f.d_open = defer.Deferred()
                    f.d_closed = defer.Deferred()
                    cep = endpoints.TCP4ClientEndpoint(reactor, "127.0.0.1", port)
                    yield cep.connect(f)
                    p = yield f.d_open
                    clients[op["c"]] = p
                elif k == "recv":
                    p = clients.get(op["c"])
                    if p is None:
                        continue
                    r.now = op["t"] / float(proto.TICKS)
                    r.pick = op.get("pick", 0)
                    r.draws = list(op.get("draws") or [])
                    r.draw_i = 0
                    r.fresh = op.get("fresh")
                    msg = dict(op["msg"])
                    if op.get("extra"):
                        msg.update(op["extra"])
                    p.sendMessage(json.dumps(msg).encode("utf-8"), False)
                elif k == "drop":
                    p = clients.pop(op["c"], None)
                    if p is not None:
                        p.sendClose()
                        yield p.factory.d_closed
                elif k == "sweep":
                    r.now = op["now"] / float(proto.TICKS)
                    r.fault_next = bool(op.get("fault"))
                    r.timer_service.call[0]()
                    r.fault_next = False
                yield barrier()
            for c, p in list(clients.items()):
                clients.pop(c, None)
                p.sendClose()
                yield p.factory.d_closed
            yield lp.stopListening()
            result["ok"] = True
        except Exception as e:
            import traceback
            result["error"] = "%s: %s\n%s" % (type(e).__name__, e, traceback.format_exc()[-800:])
        reactor.callLater(0, reactor.stop) if False else None
        return None

    d = main()
    from twisted.internet import reactor as _r

    def _timeout():
        if not d.called:
            result["error"] = "timeout: the real stack did not answer within 20 s"
            d.cancel()
    _r.callLater(20, _timeout)
    return d, r, result, got


def main():
    n = int(sys.argv[1])
    seed = int(sys.argv[2])
    import gen
    from twisted.internet import reactor, defer
    out = {"histories": 0, "frames": 0, "mismatches": [], "errors": []}
    hs = []
    for i in range(n):
        h = gen.generate(seed * 7001 + i, n_ops=35, w_restart=0, w_crash=0, w_fault=0, w_sweep=2, w_malformed=6, w_bigjump=1)
        hs.append(h)

    @defer.inlineCallbacks
    def loop():
        for h in hs:
            try:
                exp = expected_frames(h)
                d, r, result, got = run_real(h)
                try:
                    yield d
                except Exception as e:
                    result.setdefault("error", "%s: %s" % (type(e).__name__, e))
                r.close()
                if "error" in result:
                    out["errors"].append(result["error"])
                    continue
                out["histories"] += 1
                import proto
                for c in sorted(set(exp) | set(got)):
                    a, b = proto.canon_events(exp.get(c, [])), proto.canon_events(got.get(c, []))
                    out["frames"] += len(b)
                    if a != b:
                        out["mismatches"].append({"conn": c, "in_process": a[:12], "real_stack": b[:12]})
                        break
            except Exception as e:
                out["errors"].append("%s: %s" % (type(e).__name__, e))
        reactor.stop()
    reactor.callWhenRunning(loop)
    reactor.run()
    print(json.dumps(out))


if __name__ == "__main__":
    main()
