#!/venv/bin/python
"""check.py <property> [--tier quick|thorough] [--replay file]   (cwd = /verif)

One run = (1) regenerate Generated.lean from /repo and rebuild the Lean project,
(2) audit the property's theorems (present, no forbidden tokens, allowed axioms),
(3) replay known findings and the corpus on the real code, (4) correspondence
model <-> implementation and the property oracle on generated histories,
(5) write evidence/<id>.json.  Exit 0 = held; 1 = VIOLATION line printed; 2 = the
check itself could not run.
"""
import sys, os, json, time, re, subprocess, fcntl, hashlib, traceback, random, argparse
from multiprocessing import Pool

HERE = os.path.dirname(os.path.abspath(__file__))
VERIF = os.path.dirname(HERE)
LEAN = os.path.join(VERIF, "lean")
REPO = os.environ.get("VERIF_REPO", "/repo")
sys.path.insert(0, HERE)
sys.path.insert(0, os.path.join(REPO, "src"))

import proto, translate
from props import PROPS, ALLOWED_AXIOMS, FORBIDDEN


def log(*a):
    print(*a, file=sys.stderr, flush=True)


# ----------------------------------------------------------------------------- build + audit
def build(want_proofs=True):
    """-> dict(translate=..., driver_ok, proofs_ok, log)"""
    res = {"driver_ok": False, "proofs_ok": False, "log": ""}
    os.makedirs(os.path.join(LEAN, ".lake"), exist_ok=True)
    with open(os.path.join(LEAN, ".lake", "verif-build.lock"), "w") as lk:
        fcntl.flock(lk, fcntl.LOCK_EX)
        info = translate.main()
        res["translate"] = {k: info[k] for k in ("expirationTicks", "periodTicks", "alloc", "channelTarget",
                                                 "usageTarget", "sha256", "changed", "errors")}
        p = subprocess.run(["lake", "build", "wormhole-driver", "wormhole-db-driver", "wormhole-reg-driver"], cwd=LEAN, stdout=subprocess.PIPE,
                           stderr=subprocess.STDOUT, timeout=3000)
        res["driver_ok"] = p.returncode == 0
        res["log"] += p.stdout.decode()[-3000:]
        if want_proofs:
            p = subprocess.run(["lake", "build", "Wormhole"], cwd=LEAN, stdout=subprocess.PIPE,
                               stderr=subprocess.STDOUT, timeout=6000)
            res["proofs_ok"] = p.returncode == 0
            res["log"] += p.stdout.decode()[-6000:]
    return res


def strip_lean_comments(text):
    out, i, depth = [], 0, 0
    n = len(text)
    while i < n:
        if text.startswith("/-", i):
            depth += 1; i += 2; continue
        if depth and text.startswith("-/", i):
            depth -= 1; i += 2; continue
        if depth:
            i += 1; continue
        if text.startswith("--", i):
            j = text.find("\n", i)
            i = n if j < 0 else j
            continue
        out.append(text[i]); i += 1
    return "".join(out)


def reachable_lean_files():
    """the files of the deliverable: everything imported (transitively) from the library
    root and the driver roots; work-in-progress files that nothing imports are not part of it"""
    roots = [f for f in ("Wormhole.lean", "Main.lean", "DbMain.lean", "RegMain.lean", "Wormhole/Tie/All.lean", "Wormhole/Tie/WsReject.lean", "Wormhole/Tie/WsBody.lean", "Wormhole/Tie/WsTop.lean", "Wormhole/Tie/Summ.lean", "Wormhole/Tie/Tap.lean", "Wormhole/Tie/SrvAll.lean", "Wormhole/Tie/Wire.lean") if os.path.exists(os.path.join(LEAN, f))]
    seen, todo = set(), list(roots)
    while todo:
        f = todo.pop()
        if f in seen or not os.path.exists(os.path.join(LEAN, f)):
            continue
        seen.add(f)
        for m in re.finditer(r"^\s*(?:public\s+)?import\s+(Wormhole(?:\.\w+)*)", open(os.path.join(LEAN, f)).read(), re.M):
            todo.append(m.group(1).replace(".", "/") + ".lean")
    return sorted(seen)


def forbidden_tokens():
    hits = []
    for rel in reachable_lean_files():
        path = os.path.join(LEAN, rel)
        code = strip_lean_comments(open(path).read())
        # string literals may mention the words (e.g. error texts): drop them
        code = re.sub(r'"(?:\\.|[^"\\])*"', '""', code)
        for pat in FORBIDDEN:
            for m in re.finditer(pat, code, re.M):
                hits.append("%s: %s" % (rel, m.group(0).strip()))
    return hits


def audit(pid):
    """-> dict(obligations, discharged, missing, bad_axioms, axioms, log)"""
    spec = PROPS[pid]
    thms = spec.get("theorems", [])
    res = {"obligations": len(thms), "discharged": 0, "missing": [], "bad_axioms": {}, "axioms": {}, "log": ""}
    if not thms:
        return res
    mods = spec.get("modules", [])
    src = "\n".join("import %s" % m for m in mods) + "\n" + "\n".join("#print axioms %s" % t for t in thms) + "\n"
    path = os.path.join(LEAN, ".lake", "audit_%s.lean" % pid)
    with open(path, "w") as f:
        f.write(src)
    p = subprocess.run(["lake", "env", "lean", path], cwd=LEAN, stdout=subprocess.PIPE, stderr=subprocess.STDOUT, timeout=1200)
    txt = p.stdout.decode()
    res["log"] = txt[-4000:]
    flat = re.sub(r"\s+", " ", txt)
    for t in thms:
        m = re.search(r"'%s' depends on axioms: \[([^\]]*)\]" % re.escape(t), flat)
        if m:
            ax = [a.strip() for a in m.group(1).split(",") if a.strip()]
        elif re.search(r"'%s' does not depend on any axioms" % re.escape(t), flat):
            ax = []
        else:
            res["missing"].append(t)
            continue
        res["axioms"][t] = ax
        bad = [a for a in ax if a not in ALLOWED_AXIOMS]
        if bad:
            res["bad_axioms"][t] = bad
        else:
            res["discharged"] += 1
    return res


# ----------------------------------------------------------------------------- history runs
def _filter_events(evs, spec):
    if evs is None:
        return None
    keep_types = spec.get("obs_frames")          # None = all
    out = []
    for e in evs:
        p = e.split(" ")
        if p[0] == "F":
            if keep_types is None or p[3] in keep_types:
                if not spec.get("obs_synced", False):
                    p[2] = "_"
                out.append(" ".join(p))
        elif p[0] == "C":
            if spec.get("obs_commits", False) and (p[1] != "usage" or spec.get("obs_usage", False)):
                out.append(e)
        elif p[0] in ("X", "T"):
            if p[0] in spec.get("obs_misc", "XT"):
                out.append(e)
        else:
            out.append(e)     # '!' events: always
    return out


def _filter_dump(d, spec):
    if d is None:
        return None
    tabs = spec.get("obs_tables")
    out = []
    for ln in d:
        p = ln.split(" ")
        if p[1] in ("synced", "end"):
            continue
        if p[1].startswith("u_") and not spec.get("obs_usage", False):
            continue
        if tabs is not None and p[1] not in tabs and not p[1].startswith("u_"):
            continue
        out.append(ln)
    return out


def difference(oi, om, spec):
    for i, ((op, ei, di), (_, em, dm)) in enumerate(zip(oi["steps"], om["steps"])):
        a, b = _filter_events(ei, spec), _filter_events(em, spec)
        if a != b:
            return {"index": i, "op": proto.op_line(op), "kind": "events", "impl": a, "model": b}
        a, b = _filter_dump(di, spec), _filter_dump(dm, spec)
        if a is not None and b is not None and a != b:
            return {"index": i, "op": proto.op_line(op), "kind": "tables",
                    "impl": [x for x in a if x not in b][:8], "model": [x for x in b if x not in a][:8]}
    a, b = _filter_dump(oi["final"], spec), _filter_dump(om["final"], spec)
    if a is not None and b is not None and a != b:
        return {"index": len(oi["steps"]), "op": None, "kind": "final-tables",
                "impl": [x for x in a if x not in b][:8], "model": [x for x in b if x not in a][:8]}
    return None


def run_history(pid, history, meta):
    """-> dict(findings=[...], diff=None|{...}, stats={...})"""
    import corr, oracles
    from props import run_oracles
    spec = PROPS[pid]
    mode = meta.get("mode", {})
    oi = corr.observe(history, reader=mode.get("reader", False), timer=mode.get("timer", False), dumps="all")
    if meta.get("impl_only"):
        # inputs outside the model's time domain (arbitrary doubles): the oracle alone decides
        tr = oracles.make_trace(oi, history)
        tr.quiesced = False
        tr.obs = oi
        meta = dict(meta, _history=history)
        findings = [f.as_dict() for f in run_oracles(pid, tr, meta)]
        stats = trace_stats(tr, history)
        stats["notes"] = {"impl_only": 1}
        return {"findings": findings, "diff": None, "stats": stats}
    om = corr.observe_model(history, dumps="all")
    d = difference(oi, om, spec)
    if d is None and spec.get("registry_model"):
        # the registry model (lean/Wormhole/Reg.lean: AppNamespace / Mailbox objects with
        # identities, proved to refine the object-free model) is tied to the code as well
        orr = corr.observe_model(history, dumps="all", registry=True)
        d = difference(oi, orr, spec)
        if d is not None:
            d["model"] = {"registry_model": d["model"]}
    tr = oracles.make_trace(oi, history)
    tr.quiesced = bool(meta.get("quiesce"))
    tr.obs = oi
    meta = dict(meta, _history=history)
    findings = [f.as_dict() for f in run_oracles(pid, tr, meta)]
    stats = trace_stats(tr, history)
    stats["notes"] = {k: v for k, v in oi["notes"].items() if k != "draw_ranges"}
    return {"findings": findings, "diff": d, "stats": stats}


def trace_stats(tr, history):
    ops = {}
    errs = {}
    trig = {}
    for st in tr.steps:
        k = st.op["op"]
        if k == "recv":
            k = "recv:" + str(st.op["msg"].get("type", "<none>"))
        ops[k] = ops.get(k, 0) + 1
        for e in st.events:
            if e["k"] == "F" and e["type"] == "error":
                t = proto.unhx(e["args"][0]) if e["args"][0].startswith("h") else e["args"][0]
                errs[t] = errs.get(t, 0) + 1
            if e["k"] == "X":
                errs["internal:" + e["cls"]] = errs.get("internal:" + e["cls"], 0) + 1
        if st.pre is not None and st.post is not None:
            if st.pre.mailbox_ids() - st.post.mailbox_ids():
                trig["mailbox-deleted"] = trig.get("mailbox-deleted", 0) + 1
            if set(st.pre.np_by_key()) - set(st.post.np_by_key()):
                trig["nameplate-deleted"] = trig.get("nameplate-deleted", 0) + 1
        if st.frames(typ="message"):
            trig["message-delivered"] = trig.get("message-delivered", 0) + 1
    return {"ops": ops, "errors": errs, "triggers": trig, "n_ops": len(history),
            "apps": len({st.op["msg"].get("appid") for st in tr.steps if st.op["op"] == "recv" and st.op["msg"].get("type") == "bind"}),
            "conns": len([1 for st in tr.steps if st.op["op"] == "connect"])}


TRACED_FILES = ("server.py", "server_websocket.py", "server_tap.py")


def _executable_lines(path):
    """line numbers that carry code, from the compiled code objects"""
    try:
        code = compile(open(path).read(), path, "exec")
    except Exception:
        return set()
    lines, todo = set(), [code]
    while todo:
        c = todo.pop()
        if c.co_flags & 0x0001:      # function bodies only (module and class bodies run at import)
            for _, _, ln in c.co_lines():
                if ln is not None and ln != c.co_firstlineno:
                    lines.add(ln)
        todo.extend(k for k in c.co_consts if hasattr(k, "co_lines"))
    return lines


def _trace_lines(fn):
    """run fn() recording which lines of the modelled source files execute"""
    hit = set()
    base = os.path.join(REPO, "src", "wormhole_mailbox_server")
    names = {os.path.join(base, f): f for f in TRACED_FILES}

    def tracer(frame, event, arg):
        f = names.get(frame.f_code.co_filename)
        if f is None:
            return None
        if event == "line" or event == "call":
            hit.add((f, frame.f_lineno))
        return tracer
    sys.settrace(tracer)
    try:
        res = fn()
    finally:
        sys.settrace(None)
    return res, hit


def _worker(args):
    pid, seed, profile_name, profile, idx = args
    import gen
    from props import special_history
    try:
        meta = {"profile": profile_name, "seed": seed, "mode": profile.get("_mode", {}), "quiesce": profile.get("quiesce", False),
                "tier": os.environ.get("VERIF_TIER_EFFECTIVE", "quick")}
        if profile.get("_impl_only"):
            meta["impl_only"] = True
        if profile.get("_special"):
            if profile.get("_exhaustive"):
                profile = dict(profile, _index=idx)
            history, meta2 = special_history(pid, profile, seed)
            meta.update(meta2)
        else:
            gp = {k: v for k, v in profile.items() if not k.startswith("_")}
            from props import info
            gp.setdefault("period", info()["periodTicks"])            # the generator places sweeps and absences
            gp.setdefault("expiration", info()["expirationTicks"])    # relative to the CURRENT constants of /repo
            history = gen.generate(seed, **gp)
        if (idx < 12 and not profile.get("_special")) or (idx < 2 and profile.get("_special") and not profile.get("_exhaustive") and not str(profile.get("_special")).startswith("bulk")):
            r, hit = _trace_lines(lambda: run_history(pid, history, meta))
            r["lines"] = sorted(hit)
        else:
            r = run_history(pid, history, meta)
        if os.environ.get("VERIF_AMPLIFY_ALL") and idx < int(os.environ["VERIF_AMPLIFY_ALL"]) and not profile.get("_special"):
            # soundness test of the failing-input search (not part of a registered check): its continuations,
            # run on histories of the unchanged tree, must not make any oracle or the correspondence fail
            import amplify
            from props import info
            for name, h2, m2 in amplify.continuations(history, meta, info()):
                r2 = run_history(pid, h2, m2)
                for f in r2["findings"]:
                    f["clause"] = "[amplified:%s] %s" % (name, f["clause"])
                if r2["findings"] or r2["diff"]:
                    r["findings"] = r["findings"] + r2["findings"]
                    r["diff"] = r["diff"] or r2["diff"]
                    history = h2
                    break
        r["seed"] = seed
        r["profile"] = profile_name
        r["history"] = history if (r["findings"] or r["diff"]) else None
        r["shape"] = hashlib.sha1(" ".join(o["op"] + ":" + str(o.get("msg", {}).get("type", "")) for o in history).encode()).hexdigest()[:12]
        r["sample"] = [proto.op_line(o) for o in history[:14]] if idx < 2 else None
        return r
    except Exception as e:
        return {"error": "%s: %s" % (type(e).__name__, e), "tb": traceback.format_exc()[-2000:], "seed": seed, "profile": profile_name}


# ----------------------------------------------------------------------------- replay files
def write_replay(pid, name, payload):
    d = os.path.join(VERIF, "evidence", "replays")
    os.makedirs(d, exist_ok=True)
    path = os.path.join(d, "%s-%s.json" % (pid, name))
    with open(path, "w") as f:
        json.dump(payload, f, indent=1, default=str)
    return os.path.relpath(path, VERIF)


def shrink_history(pid, history, meta, pred):
    import corr
    def still(h):
        r = run_history(pid, h, meta)
        return pred(r)
    if len(history) > 1500:
        return history          # a bulk history (thousands of operations): reported as it is
    try:
        return corr.shrink(history, still, budget=150)
    except Exception:
        return history


def amplify_search(pid, bases, meta):
    """the correspondence broke and no oracle failed: extend the diverging history in generic ways
    (harness/amplify.py) and ask the property's oracle again"""
    import amplify
    from props import info
    seen = []
    for base in bases:
        if base in seen or len(base) > 1500:      # (a bulk history is reported as it is)
            continue
        seen.append(base)
        try:
            conts = amplify.continuations(base, meta, info())
        except Exception as e:
            log("amplify: %s: %s" % (type(e).__name__, e))
            continue
        for name, h2, m2 in conts:
            try:
                r2 = run_history(pid, h2, m2)
            except Exception as e:
                log("amplify %s: %s: %s" % (name, type(e).__name__, e))
                continue
            bad2 = [f for f in r2["findings"] if f["known"] is None]
            if bad2:
                return name, h2, m2, bad2
    return None


def load_known():
    p = os.path.join(VERIF, "known_findings.json")
    return json.load(open(p)) if os.path.exists(p) else {"findings": []}


# ----------------------------------------------------------------------------- main
def main():
    ap = argparse.ArgumentParser()
    ap.add_argument("pid")
    ap.add_argument("--tier", default=os.environ.get("VERIF_TIER", "quick"))
    ap.add_argument("--replay")
    ap.add_argument("--no-build", action="store_true")
    a = ap.parse_args()
    if a.pid == "--setup" or a.pid == "setup":
        b = build()
        log(b["log"][-2000:])
        ok = b["driver_ok"] and b["proofs_ok"]
        import sqltie
        st = sqltie.run()
        sw = sqltie.run_ws()
        su = sqltie.run_summ()
        sqltie.run_tap()
        sv = sqltie.run_srv()
        sqltie.run_wire()
        log("setup: srv_tie=%s (%d/%d theorems)" % (sv["status"], sv["discharged"], sv["theorems"]))
        print("setup: driver_ok=%s proofs_ok=%s sql_tie=%s (%d statements, %d/%d theorems) ws_tie=%s (%d/%d theorems) summ_tie=%s (%d/%d)" % (
            b["driver_ok"], b["proofs_ok"], st["status"], st["statements"], st["discharged"], st["theorems"],
            sw["status"], sw["discharged"], sw["theorems"], su["status"], su["discharged"], su["theorems"]))
        sys.exit(0 if b["driver_ok"] else 2)
    pid = a.pid
    if pid not in PROPS:
        print("unknown property", pid); sys.exit(2)
    if a.replay:
        # re-run a replay file (or a corpus/findings file) against the current tree
        d = json.load(open(a.replay if os.path.isabs(a.replay) or os.path.exists(a.replay) else os.path.join(VERIF, a.replay)))
        if "history" not in d:
            print("replay file has no history (it names a broken proof obligation):", json.dumps(d)[:600]); sys.exit(1)
        if not a.no_build:
            build(want_proofs=False)
        r = run_history(pid, d["history"], dict(d.get("meta", {}), tier="thorough"))
        for o in d["history"]:
            print("   ", proto.op_line(o))
        for f in r["findings"]:
            print("FINDING", json.dumps(f, default=str)[:1200])
        if r["diff"]:
            print("MODEL/IMPLEMENTATION DIFFER", json.dumps(r["diff"], default=str)[:1200])
        bad = [f for f in r["findings"] if f["known"] is None]
        if bad or r["diff"]:
            print("VIOLATION property=%s replay=%s%s" % (pid, a.replay, "" if bad else " no-failing-input-found"))
            sys.exit(1)
        print("%s replay: ok" % pid)
        sys.exit(0)
    tier = a.tier if a.tier in ("quick", "thorough") else "quick"
    os.environ["VERIF_TIER_EFFECTIVE"] = tier
    seed = int(os.environ.get("VERIF_SEED", "1"))
    t0 = time.time()
    spec = PROPS[pid]
    violations = []     # (replay path, suffix)
    known_lines = []
    evidence = {"property_id": pid, "tier": tier, "seed": seed, "level": spec["level"], "coverage": {}, "assumptions": spec.get("assumptions", []),
                "wall_s": 0.0, "violations": 0}
    cov = evidence["coverage"]

    # (1) translate + build
    b = {"driver_ok": True, "proofs_ok": True, "log": "", "translate": {}} if a.no_build else build()
    # a source section the translator can no longer read un-ties the theorems that use it
    SECTION_PROPS = {"alloc": {"C04"}, "tap": {"C12", "C13"}, "db": {"C19", "C20"}, "scripts": {"C19", "C20"}}
    terr = {k: v for k, v in (b.get("translate") or {}).get("errors", {}).items() if pid in SECTION_PROPS.get(k, set())}
    translator_broken = None
    if terr:
        translator_broken = {"broken": "translator: the source no longer has the shape harness/translate.py reads; the theorems of %s "
                                       "that use these values are no longer tied to the code" % pid, "sections": terr}
    if not b["driver_ok"]:
        log(b["log"][-3000:])
        print("ERROR: the model driver does not build"); sys.exit(2)
    cov["translator"] = b.get("translate")

    # (2) audit
    tok = forbidden_tokens()
    au = audit(pid) if b["driver_ok"] else {"obligations": len(spec.get("theorems", [])), "discharged": 0, "missing": spec.get("theorems", []), "bad_axioms": {}, "axioms": {}, "log": ""}
    proof_broken = None
    if tok:
        proof_broken = {"broken": "forbidden tokens in lean/", "hits": tok[:20]}
    elif au["missing"] or au["bad_axioms"]:
        proof_broken = {"broken": "theorems of %s no longer check" % pid, "missing_or_failing": au["missing"],
                        "bad_axioms": au["bad_axioms"], "lean_log": au["log"][-1500:], "build_log": b["log"][-1500:]}
    cov["obligations"] = au["obligations"]
    cov["discharged"] = au["discharged"]
    cov["theorems"] = au["axioms"]
    cov["checker_cmd"] = "cd lean && lake build Wormhole && lake env lean .lake/audit_%s.lean   (#print axioms of every listed theorem)" % pid
    cov["trusted_base"] = spec.get("trusted_base", [])
    if tier == "thorough" and spec.get("modules") and not proof_broken:
        # independent re-check of the compiled property modules
        tie_mods = [] if pid in ("C19", "C20") else ["Wormhole.Tie.All", "Wormhole.Tie.WsTop", "Wormhole.Tie.Summ", "Wormhole.Tie.Tap", "Wormhole.Tie.SrvAll", "Wormhole.Tie.Wire"]
        tie_mods = [m for m in tie_mods if os.path.exists(os.path.join(LEAN, ".lake", "build", "lib", "lean", m.replace(".", "/") + ".olean"))]
        lc = subprocess.run(["lake", "env", "leanchecker"] + spec["modules"] + tie_mods, cwd=LEAN, stdout=subprocess.PIPE,
                            stderr=subprocess.STDOUT, timeout=3000)
        cov["leanchecker"] = {"modules": spec["modules"] + tie_mods, "exit": lc.returncode, "tail": lc.stdout.decode()[-300:]}
        if lc.returncode != 0:
            proof_broken = {"broken": "leanchecker rejects the compiled modules of %s" % pid, "log": lc.stdout.decode()[-1500:]}

    from props import profiles_for, engine_for
    eng = engine_for(pid)
    results = []
    sql_tie = None
    if eng is None:
        # the static tie of the model's data layer to the SQL text of the current server.py (sqltie.py)
        import sqltie
        try:
            sql_tie = sqltie.run()
        except Exception as e:
            sql_tie = {"status": "not-run", "detail": "%s: %s" % (type(e).__name__, e)}
        cov["sql_tie"] = sql_tie
        try:
            ws_tie = sqltie.run_ws()
        except Exception as e:
            ws_tie = {"status": "not-run", "detail": "%s: %s" % (type(e).__name__, e)}
        cov["ws_validation_tie"] = ws_tie
        try:
            summ_tie = sqltie.run_summ()
        except Exception as e:
            summ_tie = {"status": "not-run", "detail": "%s: %s" % (type(e).__name__, e)}
        cov["usage_summary_tie"] = summ_tie
        try:
            tap_tie = sqltie.run_tap()
        except Exception as e:
            tap_tie = {"status": "not-run", "detail": "%s: %s" % (type(e).__name__, e)}
        cov["sweep_timer_tie"] = tap_tie
        try:
            srv_tie = sqltie.run_srv()
        except Exception as e:
            srv_tie = {"status": "not-run", "detail": "%s: %s" % (type(e).__name__, e)}
        cov["server_methods_tie"] = srv_tie
        try:
            wire_tie = sqltie.run_wire()
        except Exception as e:
            wire_tie = {"status": "not-run", "detail": "%s: %s" % (type(e).__name__, e)}
        cov["configuration_wiring_tie"] = wire_tie
        ties_untied = []
        if sql_tie["status"] != "tied":
            ties_untied.append("SQL statements of server.py (%s: %s)" % (
                sql_tie["status"], "; ".join(sql_tie.get("functions_untied", [])) or sql_tie.get("detail", "")[:200]))
        if ws_tie["status"] != "tied":
            ties_untied.append("onMessage / handle_* of server_websocket.py (%s: %s)" % (ws_tie["status"], ws_tie.get("detail", "")[:200]))
        if summ_tie["status"] != "tied":
            ties_untied.append("usage summaries of server.py (%s: %s)" % (summ_tie["status"], summ_tie.get("detail", "")[:200]))
        if tap_tie["status"] != "tied":
            ties_untied.append("expire() / TimerService of server_tap.py (%s: %s)" % (tap_tie["status"], tap_tie.get("detail", "")[:200]))
        if srv_tie["status"] != "tied":
            ties_untied.append("methods of Mailbox / AppNamespace in server.py (%s: %s)" % (srv_tie["status"], srv_tie.get("detail", "")[:200]))
        if wire_tie["status"] != "tied":
            ties_untied.append("constructors / construction sites from makeService to Mailbox (%s: %s)" % (wire_tie["status"], wire_tie.get("detail", "")[:200]))
        for u in ties_untied:
            log("NOTE: static tie not established on this tree - %s - the hand-written model of that part is tied by differential "
                "execution only; widening the search on the code" % u)
        cov["static_ties_untied"] = ties_untied
    if eng is not None:
        # properties decided by their own engine (database files)
        er = eng(pid, tier, seed)
        cov.update(er["coverage"])
        for v in er["violations"]:
            path = write_replay(pid, "engine-%d" % len(violations), v)
            violations.append((path, v.get("suffix", "")))
        known_lines += er.get("known", [])
    else:
        # (3) known findings + corpus
        kf = load_known()
        jobs = []
        for ent in kf["findings"]:
            if pid in ent.get("properties", []) and ent.get("replay") and ent.get("status") == "known":
                jobs.append(("known", ent))
        corpus_dir = os.path.join(VERIF, "corpus")
        corpus = sorted(f for f in os.listdir(corpus_dir) if f.endswith(".json")) if os.path.isdir(corpus_dir) else []
        ncorpus = 0
        corpus_diffs = []
        for ent_kind, ent in jobs:
            h = json.load(open(os.path.join(VERIF, ent["replay"])))
            r = run_history(pid, h["history"], dict(h.get("meta", {}), tier="thorough"))
            tagged = [f for f in r["findings"] if f["known"] == ent["id"]]
            other = [f for f in r["findings"] if f["known"] != ent["id"] and f["known"] is None]
            if ent.get("status") == "known":
                if tagged:
                    known_lines.append("KNOWN-FINDING: property=%s %s: %s" % (pid, ent["id"], ent["what"]))
                else:
                    log("note: known finding %s no longer reproduces for %s" % (ent["id"], pid))
            for f in other:
                path = write_replay(pid, "known-%s-other" % ent["id"], {"history": h["history"], "meta": h.get("meta", {}), "finding": f})
                violations.append((path, ""))
        for fn in corpus:
            h = json.load(open(os.path.join(corpus_dir, fn)))
            if pid not in h.get("properties", [pid]):
                continue
            ncorpus += 1
            r = run_history(pid, h["history"], dict(h.get("meta", {}), tier="thorough"))
            bad = [f for f in r["findings"] if f["known"] is None]
            if bad:
                path = write_replay(pid, "corpus-" + fn[:-5], {"history": h["history"], "meta": h.get("meta", {}),
                                                                "findings": bad, "correspondence": r["diff"]})
                violations.append((path, ""))
            elif r["diff"]:
                corpus_diffs.append((fn, h, r["diff"]))
        cov["corpus_replayed"] = ncorpus
        cov["corpus_correspondence_mismatches"] = len(corpus_diffs)

        # (4) generated histories
        profs = profiles_for(pid, tier)
        only = os.environ.get("VERIF_ONLY_PROFILE")
        if only:
            profs = [x for x in profs if x[0] in only.split(",")]     # (debugging aid: restrict to named profiles)
        work = []
        rng = random.Random(seed * 7919 + int(hashlib.sha1(pid.encode()).hexdigest()[:6], 16))
        widen = 3 if (sql_tie is not None and cov.get("static_ties_untied") and tier == "quick") else 1
        for name, prof, n in profs:
            for i in range(n if prof.get("_exhaustive") else n * widen):
                work.append((pid, rng.randrange(1 << 30), name, prof, i))
        with Pool(min(16, max(1, len(work)))) as pool:
            results = pool.map(_worker, work, chunksize=max(1, len(work) // 64))
        errors = [r for r in results if "error" in r]
        if errors:
            log("harness errors:", errors[0]["error"], errors[0].get("tb"))
            print("ERROR: harness failure on %d histories: %s" % (len(errors), errors[0]["error"]))
            sys.exit(2)
        lines_hit = set()
        for r in results:
            lines_hit.update(tuple(x) for x in r.get("lines", []))
        code_cov = {}
        for f in TRACED_FILES:
            ex = _executable_lines(os.path.join(REPO, "src", "wormhole_mailbox_server", f))
            got = {ln for (ff, ln) in lines_hit if ff == f}
            code_cov[f] = {"executable_lines": len(ex), "executed": len(ex & got), "never_executed": sorted(ex - got)[:80]}
        cov["code_lines_of_the_implementation_executed"] = {"note": "measured with sys.settrace on the first 12 histories of every generated profile (2 of every constructed one) of this run", "files": code_cov}
        shapes, ops, errs, trig = set(), {}, {}, {}
        nontrivial = set()
        samples = []
        known_counts = {}
        first_diff = None
        for r in results:
            shapes.add(r["shape"])
            for k, v in r["stats"]["ops"].items():
                ops[k] = ops.get(k, 0) + v
            for k, v in r["stats"]["errors"].items():
                errs[k] = errs.get(k, 0) + v
            for k, v in r["stats"]["triggers"].items():
                trig[k] = trig.get(k, 0) + v
            if spec.get("nontrivial", lambda s: True)(r["stats"]):
                nontrivial.add(r["shape"])
            if r.get("sample") and len(samples) < 3:
                samples.append({"profile": r["profile"], "seed": r["seed"], "first_ops": r["sample"]})
            bad = [f for f in r["findings"] if f["known"] is None]
            for f in r["findings"]:
                if f["known"]:
                    known_counts[f["known"]] = known_counts.get(f["known"], 0) + 1
            if bad and len(violations) < 3:
                meta = {"profile": r["profile"], "seed": r["seed"], "mode": dict(PROFILE_MODE(r["profile"], profs)),
                        "quiesce": QUIESCE(r["profile"], profs)}
                clause = bad[0]["clause"]
                small = shrink_history(pid, r["history"], meta,
                                       lambda rr: any(f["known"] is None and f["clause"] == clause for f in rr["findings"]))
                rr = run_history(pid, small, meta)
                path = write_replay(pid, "oracle-%d" % r["seed"], {
                    "property": pid, "clause": clause, "history": small, "history_lines": [proto.op_line(o) for o in small],
                    "meta": meta, "findings": [f for f in rr["findings"] if f["known"] is None] or bad,
                    "correspondence": rr["diff"], "original_length": len(r["history"])})
                violations.append((path, ""))
            if r["diff"] and first_diff is None and not bad:
                first_diff = r
        if first_diff is not None and not violations:
            # correspondence broken but no oracle failed anywhere in this run: search harder on
            # the diverging history (shrunk) and report without a failing input otherwise
            r = first_diff
            meta = {"profile": r["profile"], "seed": r["seed"], "mode": dict(PROFILE_MODE(r["profile"], profs)),
                    "quiesce": QUIESCE(r["profile"], profs)}
            small = shrink_history(pid, r["history"], meta, lambda rr: rr["diff"] is not None)
            rr = run_history(pid, small, meta)
            amp = amplify_search(pid, [small, r["history"]], meta)
            if amp is not None:
                name, h2, m2, bad2 = amp
                clause = bad2[0]["clause"]
                small2 = shrink_history(pid, h2, m2, lambda q: any(f["known"] is None and f["clause"] == clause for f in q["findings"]))
                r2 = run_history(pid, small2, m2)
                path = write_replay(pid, "oracle-amplified-%d" % r["seed"], {
                    "property": pid, "clause": clause, "history": small2, "history_lines": [proto.op_line(o) for o in small2],
                    "meta": m2, "findings": [f for f in r2["findings"] if f["known"] is None] or bad2,
                    "correspondence": r2["diff"], "found_by": "continuation '%s' of the history on which model and implementation first differed" % name,
                    "diverging_history_lines": [proto.op_line(o) for o in small]})
                violations.append((path, ""))
        if first_diff is not None and not violations:
            path = write_replay(pid, "correspondence-%d" % r["seed"], {
                "property": pid, "broken": "correspondence model <-> implementation on obs_%s" % pid,
                "history": small, "history_lines": [proto.op_line(o) for o in small], "meta": meta,
                "difference": rr["diff"] or r["diff"], "oracle_findings": rr["findings"]})
            violations.append((path, " no-failing-input-found"))
        if corpus_diffs and not [v for v in violations if not v[1]]:
            # a corpus history on which model and implementation differ, no oracle failing anywhere so far
            for fn, h, dff in corpus_diffs[:3]:
                amp = amplify_search(pid, [h["history"]], dict(h.get("meta", {}), tier="thorough"))
                if amp is not None:
                    name, h2, m2, bad2 = amp
                    clause = bad2[0]["clause"]
                    small2 = shrink_history(pid, h2, m2, lambda q: any(f["known"] is None and f["clause"] == clause for f in q["findings"]))
                    r2 = run_history(pid, small2, m2)
                    path = write_replay(pid, "oracle-amplified-corpus-" + fn[:-5], {
                        "property": pid, "clause": clause, "history": small2, "history_lines": [proto.op_line(o) for o in small2],
                        "meta": m2, "findings": [f for f in r2["findings"] if f["known"] is None] or bad2, "correspondence": r2["diff"],
                        "found_by": "continuation '%s' of corpus history %s, on which model and implementation differ" % (name, fn)})
                    violations[:] = [v for v in violations if v[1] == ""]
                    violations.append((path, ""))
                    break
            else:
                if not violations:
                    fn, h, dff = corpus_diffs[0]
                    path = write_replay(pid, "corpus-" + fn[:-5], {"history": h["history"], "meta": h.get("meta", {}),
                                                                    "findings": [], "correspondence": dff})
                    violations.append((path, " no-failing-input-found"))
        ndiff = len([r for r in results if r["diff"]])
        cov.update({"evaluations": len(results), "distinct_nontrivial": len(nontrivial),
                    "rule": spec.get("rule", "histories generated from VERIF_SEED per profile; distinct = distinct sequence of operation kinds; non-trivial = reached the property's trigger (see props.py)"),
                    "samples": samples, "traces_validated_against_impl": len(results) - ndiff,
                    "correspondence_mismatches": ndiff, "ops_run": sum(ops.values()), "operation_histogram": ops,
                    "error_histogram": errs, "trigger_histogram": trig, "known_finding_hits": known_counts,
                    "profiles": [(n, c) for n, _, c in profs]})
        ex = [(n, p_, c) for n, p_, c in profs if p_.get("_exhaustive")]
        if ex:
            cov["exhaustive_subspace"] = {"complete": True, "histories": ex[0][2], "length": ex[0][1]["L"],
                                          "alphabet": ["%s by side s%d" % (a, k) if k else a for k, a in __import__("props").EXH_SYMBOLS],
                                          "note": "every word of this length over the alphabet (3 sides, 1 app, 1 nameplate and its mailbox) was run on the code and on the model(s) and checked by the oracle"}

    if pid == "C03" and eng is None:
        # the one function the harness replaces: the real generator of mailbox ids
        from wormhole_mailbox_server import server as _srv
        gen_f = _srv.generate_mailbox_id
        ids = [gen_f() for _ in range(20000)]
        ok = len(set(ids)) == len(ids) and all(isinstance(x, str) and len(x) == 13 and x == x.lower() and x.isalnum() for x in ids)
        cov["real_generate_mailbox_id"] = {"draws": len(ids), "distinct": len(set(ids)), "well_formed": ok, "sample": ids[:2]}
        if not ok and not violations:
            path = write_replay(pid, "mailbox-id-generator", {"broken": "generate_mailbox_id no longer yields distinct 13-character lowercase base32 ids (the freshness hypothesis WFOp.idFresh of C03_distinct models 64 random bits)",
                                                              "distinct": len(set(ids)), "sample": ids[:5]})
            violations.append((path, " no-failing-input-found"))

    if pid == "C17" and eng is None:
        # the same histories through the REAL Autobahn/Twisted stack on 127.0.0.1
        nl = 25 if tier == "quick" else 400
        lp = subprocess.run([sys.executable, "-W", "ignore", os.path.join(HERE, "loopback.py"), str(nl), str(seed)],
                            stdout=subprocess.PIPE, stderr=subprocess.PIPE, timeout=3000, env=dict(os.environ))
        try:
            lr = json.loads(lp.stdout.decode().strip().splitlines()[-1])
        except Exception:
            lr = {"errors": ["loopback run failed: " + lp.stderr.decode()[-400:]], "mismatches": [], "histories": 0, "frames": 0}
        cov["real_stack_replay"] = {"histories": lr.get("histories"), "frames_compared": lr.get("frames"),
                                    "mismatches": len(lr.get("mismatches", [])), "errors": lr.get("errors", [])[:3]}
        if lr.get("mismatches") and not violations:
            path = write_replay(pid, "realstack", {"broken": "frames seen by real websocket clients differ from the frames the in-process runner intercepted",
                                                   "first": lr["mismatches"][0]})
            violations.append((path, " no-failing-input-found"))

    if pid == "C10" and eng is None:
        # validate the crash simulation against real process death on a sample
        import gen, realkill
        nk = 8 if tier == "quick" else 80
        hs = []
        i = 0
        while len(hs) < nk and i < 10 * nk:
            h = gen.generate(seed * 1000003 + i, w_crash=6, n_ops=40, usage=(i % 2 == 0))
            i += 1
            idx = [j for j, o in enumerate(h) if o["op"] == "crash"]
            if idx:
                hs.append(h[:idx[0] + 2])
        with Pool(min(16, len(hs))) as pool:
            rk = pool.map(realkill.validate, hs)
        badk = [(h, r) for h, r in zip(hs, rk) if r]
        cov["real_kill_validations"] = len(hs)
        cov["real_kill_mismatches"] = len(badk)
        if badk:
            path = write_replay(pid, "realkill", {"history": badk[0][0], "difference": badk[0][1]})
            print("ERROR: the crash simulation disagrees with a real kill (see %s)" % path)
            sys.exit(2)

    if proof_broken is not None and not violations:
        path = write_replay(pid, "proof", proof_broken)
        violations.append((path, " no-failing-input-found"))
    if translator_broken is not None and not violations:
        path = write_replay(pid, "translator", translator_broken)
        violations.append((path, " no-failing-input-found"))

    evidence["violations"] = len(violations)
    evidence["wall_s"] = round(time.time() - t0, 2)
    # schema minimums for exploration-style keys
    cov.setdefault("evaluations", max(1, cov.get("obligations", 1)))
    cov.setdefault("distinct_nontrivial", cov.get("evaluations", 1))
    cov.setdefault("samples", [{"theorems": spec.get("theorems", [])[:5]}])
    cov.setdefault("rule", "see props.py")
    os.makedirs(os.path.join(VERIF, "evidence"), exist_ok=True)
    with open(os.path.join(VERIF, "evidence", "%s.json" % pid), "w") as f:
        json.dump(evidence, f, indent=1, default=str)
    for ln in known_lines:
        print(ln)
    for path, suffix in violations:
        print("VIOLATION property=%s replay=%s%s" % (pid, path, suffix))
    print("%s %s: %s  (theorems %d/%d, histories %s, mismatches %s, %.1fs)" % (
        pid, tier, "VIOLATED" if violations else "ok", cov.get("discharged", 0), cov.get("obligations", 0),
        cov.get("evaluations"), cov.get("correspondence_mismatches"), time.time() - t0))
    sys.exit(1 if violations else 0)


def PROFILE_MODE(name, profs):
    for n, p, _ in profs:
        if n == name:
            return p.get("_mode", {})
    return {}


def QUIESCE(name, profs):
    for n, p, _ in profs:
        if n == name:
            return p.get("quiesce", False)
    return False


if __name__ == "__main__":
    try:
        main()
    except SystemExit:
        raise
    except BaseException as e:      # a crash of the check itself is never a verdict
        traceback.print_exc()
        print("ERROR: check could not run: %s: %s" % (type(e).__name__, e))
        sys.exit(2)
