"""Validation of the crash simulation: the same history is run (a) in-process, where a crash
is simulated by abandoning the connections right after the k-th effective commit, and
(b) in a child process that really dies (os._exit) at that point; the database FILES left by
(b) must hold exactly what (a) predicts.  Used by the C10 thorough tier on a sample."""
import os, sys, json, subprocess, tempfile, shutil, sqlite3

HERE = os.path.dirname(os.path.abspath(__file__))


def child(workdir, hist_path):
    sys.path.insert(0, HERE)
    import impl
    history = json.load(open(hist_path))
    r = impl.Runner(workdir=workdir)
    r.real_kill = True
    for op in history:
        r.run_op(op)
    os._exit(0)


def files_dump(workdir, usage):
    import impl
    out = []
    c = sqlite3.connect(os.path.join(workdir, "relay.sqlite"))
    out += impl.raw_dump(c, "chan"); c.close()
    if usage:
        c = sqlite3.connect(os.path.join(workdir, "usage.sqlite"))
        out += impl.raw_dump(c, "usage"); c.close()
    return sorted(out)


def validate(history):
    """history must end with [..., crash k, op]; -> None if consistent, else a description"""
    import impl
    assert history[-2]["op"] == "crash"
    usage = bool(history[0].get("usage"))
    # (a) simulated
    r = impl.Runner()
    try:
        for op in history:
            r.run_op(op)
        sim = [x for x in r.dump() if not x.startswith("D synced")]
    finally:
        r.close()
    # (b) real kill
    d = tempfile.mkdtemp(prefix="wmv-kill-", dir=impl._scratch_root())
    try:
        hp = os.path.join(d, "history.json")
        json.dump(history, open(hp, "w"))
        env = dict(os.environ)
        p = subprocess.run([sys.executable, "-W", "ignore", os.path.abspath(__file__), "--child", d, hp], env=env,
                           stdout=subprocess.PIPE, stderr=subprocess.PIPE, timeout=300)
        if p.returncode not in (0, 77):
            return {"error": "child exited %d: %s" % (p.returncode, p.stderr.decode()[-400:])}
        real = files_dump(d, usage)
        if real != sorted(sim):
            return {"simulated_only": [x for x in sim if x not in real][:6], "real_only": [x for x in real if x not in sim][:6],
                    "child_exit": p.returncode}
        return None
    finally:
        shutil.rmtree(d, ignore_errors=True)


if __name__ == "__main__":
    if sys.argv[1] == "--child":
        child(sys.argv[2], sys.argv[3])
