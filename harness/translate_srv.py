#!/usr/bin/env python3
"""Translator, part 7: the methods of `Mailbox` / `AppNamespace` (server.py) that are straight-line code over SQL
statements -> lean/Wormhole/GeneratedSrv.lean, in the little imperative language of lean/Wormhole/PySrv.lean.

Each `X.execute(sql, (args…))` becomes `.exec <into> <fetch> "<name>" [args…]` where <name> is the name
harness/translate_sql.py gives that statement (GeneratedSql.lean) and the argument tuple is translated expression by
expression; `.fetchone()` / `.fetchall()` / `.lastrowid`, `row["col"]`, `if/else`, `not`, `len(e) > n`,
`[c for r in rows if r["col"]]`, `db.commit()` / `self._usage_db.commit()`, calls of sibling methods (keyword arguments
put into the callee's parameter order), `raise Cls(…)`, `return [e]`.

`for v in X.execute(…).fetchall(): …`; in Mailbox.close, `for (send_f, stop_f) in self._listeners.values(): stop_f()` directly
followed by `self._listeners = {}` is the one statement `.stopListeners`; `any([r["col"] for r in rows])`.

Dropped, and listed in the generated file (`dropped`): `assert isinstance(…)`, aliases `db = self._db`, SQL text bound
to a local that is only used as the text of `execute`, `if self._log_requests: log.msg(…)`, and the registry block
`if not <id> in self._mailboxes: [log]; self._mailboxes[<id>] = Mailbox(self, self._db, self._usage_db, self._app_id, <id>)`
(checked to have exactly that shape: the object made for an id is the Mailbox of this app with that id).
Anything else makes the translation fail (reported, never guessed).  Nothing is imported or executed.
"""
import ast, os

from translate import TranslateError, SRC, HERE, lean_str
import translate_sql

OUT = os.path.join(os.path.dirname(HERE), "lean", "Wormhole", "GeneratedSrv.lean")

METHODS = [("Mailbox", "open"), ("Mailbox", "_touch"), ("Mailbox", "_add_message"), ("Mailbox", "close"),
           ("AppNamespace", "_summarize_nameplate_and_store"), ("AppNamespace", "_summarize_mailbox_and_store"),
           ("AppNamespace", "_add_mailbox"), ("AppNamespace", "open_mailbox"),
           ("AppNamespace", "claim_nameplate"), ("AppNamespace", "release_nameplate")]
# methods a translated method may call without being translated themselves (primitives of PySrv.callee0)
PRIMITIVE = {("AppNamespace", "_summarize_nameplate_usage"), ("AppNamespace", "_summarize_mailbox")}   # translate_summ.py
SELF_ATTRS = ("_app_id", "_mailbox_id", "_usage_db")


def lean_list(items):
    return "[" + ", ".join(items) + "]"


def src_of(n):
    return ast.unparse(n)


class Fn:
    def __init__(self, cls, f, classes, stmt_names):
        self.cls, self.f, self.classes, self.stmt_names = cls, f, classes, stmt_names
        self.params = [a.arg for a in f.args.args][1:]
        if f.args.vararg or f.args.kwarg or f.args.kwonlyargs or f.args.defaults or f.args.args[0].arg != "self":
            self.err("unsupported signature", f)
        self.assigned = set()
        for n in ast.walk(f):
            if isinstance(n, ast.Assign):
                for t in n.targets:
                    if isinstance(t, ast.Name):
                        self.assigned.add(t.id)
            elif isinstance(n, ast.For):
                if isinstance(n.target, ast.Name):
                    self.assigned.add(n.target.id)
                if n.orelse:
                    self.err("for/else", n)
            elif isinstance(n, (ast.AugAssign, ast.AnnAssign, ast.While, ast.With, ast.Try, ast.Delete,
                                ast.Global, ast.Nonlocal, ast.Lambda, ast.FunctionDef, ast.NamedExpr)) and n is not f:
                self.err("unsupported construct", n)
        both = self.assigned & set(self.params)
        if both:
            self.err("a parameter is assigned to (%s)" % ", ".join(sorted(both)), f)
        self.dbalias = {}      # local -> "chan" | "usage"
        self.sqlvars = set()   # locals holding SQL text
        self.objvars = set()   # locals holding a Mailbox object
        self.dropped = []
        for n in ast.walk(f):
            if isinstance(n, ast.Assign) and len(n.targets) == 1 and isinstance(n.targets[0], ast.Name):
                v, s = n.targets[0].id, src_of(n.value)
                if s in ("self._db", "self._usage_db"):
                    if self.dbalias.get(v, s) != s:
                        self.err("alias bound to two databases", n)
                    self.dbalias[v] = s
                elif isinstance(n.value, ast.Constant) and isinstance(n.value.value, str):
                    self.sqlvars.add(v)
        for v in list(self.dbalias) + list(self.sqlvars):
            n_assign = sum(1 for n in ast.walk(f) if isinstance(n, ast.Assign) and any(isinstance(t, ast.Name) and t.id == v for t in n.targets))
            if n_assign != 1:
                self.err("%s is assigned more than once" % v, f)
        # a SQL-text local may only be read as the first argument of execute
        for v in self.sqlvars:
            reads = [n for n in ast.walk(f) if isinstance(n, ast.Name) and n.id == v and isinstance(n.ctx, ast.Load)]
            ok = [c.args[0] for c in ast.walk(f) if isinstance(c, ast.Call) and isinstance(c.func, ast.Attribute)
                  and c.func.attr == "execute" and c.args]
            if any(r not in ok for r in reads):
                self.err("the SQL text %s is used for something else than execute()" % v, f)

    def err(self, what, n):
        raise TranslateError("%s.%s line %d: %s: %s" % (self.cls, self.f.name, getattr(n, "lineno", 0), what, src_of(n)[:90]))

    # ------------------------------------------------------------ expressions
    def expr(self, n):
        if isinstance(n, ast.Constant):
            if n.value is None:
                return ".none_"
            if n.value is True:
                return ".true_"
            if n.value is False:
                return ".false_"
            if isinstance(n.value, int):
                return ".int %s" % (("(%d)" % n.value) if n.value < 0 else str(n.value))
            self.err("unsupported constant", n)
        if isinstance(n, ast.Name):
            if n.id in self.dbalias or n.id in self.sqlvars:
                self.err("a database handle / SQL text used as a value", n)
            if n.id in self.assigned:
                return ".var %s" % lean_str(n.id)
            if n.id in self.params:
                return ".param %s" % lean_str(n.id)
            self.err("unknown name", n)
        if isinstance(n, ast.Attribute) and isinstance(n.value, ast.Name):
            if n.value.id == "self" and n.attr in SELF_ATTRS:
                return ".selfAttr %s" % lean_str(n.attr)
            if n.value.id in self.params and n.value.id not in self.assigned:
                return ".msgField (.param %s) %s" % (lean_str(n.value.id), lean_str(n.attr))
            if n.value.id in self.assigned and n.value.id not in self.dbalias and n.value.id not in self.sqlvars:
                return ".attr (.var %s) %s" % (lean_str(n.value.id), lean_str(n.attr))
        if isinstance(n, ast.Subscript) and isinstance(n.slice, ast.Constant) and isinstance(n.slice.value, str):
            return ".field (%s) %s" % (self.expr(n.value), lean_str(n.slice.value))
        if isinstance(n, ast.Subscript) and src_of(n.value) == "self._mailboxes" and self.cls == "AppNamespace":
            return ".mailboxObj (%s)" % self.expr(n.slice)
        if isinstance(n, ast.UnaryOp) and isinstance(n.op, ast.Not):
            return ".not_ (%s)" % self.expr(n.operand)
        if isinstance(n, ast.Call) and isinstance(n.func, ast.Name) and not n.keywords:
            if n.func.id == "len" and len(n.args) == 1:
                return ".len (%s)" % self.expr(n.args[0])
            if n.func.id == "generate_mailbox_id" and not n.args:
                return ".freshMailboxId"
        if isinstance(n, ast.Call) and isinstance(n.func, ast.Name) and n.func.id == "any" and len(n.args) == 1 and not n.keywords \
                and isinstance(n.args[0], ast.ListComp) and len(n.args[0].generators) == 1:
            lc = n.args[0]
            g = lc.generators[0]
            if isinstance(g.target, ast.Name) and not g.ifs and not g.is_async and isinstance(lc.elt, ast.Subscript) \
                    and isinstance(lc.elt.value, ast.Name) and lc.elt.value.id == g.target.id \
                    and isinstance(lc.elt.slice, ast.Constant) and isinstance(lc.elt.slice.value, str):
                return ".anyField (%s) %s" % (self.expr(g.iter), lean_str(lc.elt.slice.value))
        if isinstance(n, ast.Compare) and len(n.ops) == 1 and isinstance(n.ops[0], ast.Gt):
            return ".gt (%s) (%s)" % (self.expr(n.left), self.expr(n.comparators[0]))
        if isinstance(n, ast.ListComp) and len(n.generators) == 1 and isinstance(n.elt, ast.Constant) \
                and n.elt.value not in (None, False, 0, ""):
            g = n.generators[0]
            if isinstance(g.target, ast.Name) and len(g.ifs) == 1 and not g.is_async:
                c = g.ifs[0]
                if isinstance(c, ast.Subscript) and isinstance(c.value, ast.Name) and c.value.id == g.target.id \
                        and isinstance(c.slice, ast.Constant) and isinstance(c.slice.value, str):
                    return ".filterField (%s) %s" % (self.expr(g.iter), lean_str(c.slice.value))
        self.err("unsupported expression", n)

    # ------------------------------------------------------------ statements
    def execute_call(self, n):
        """n: an expression `X.execute(sql, args)[.fetchone()|.fetchall()|.lastrowid]` -> (fetch, name, args) or None"""
        fetch = ".nothing"
        c = n
        if isinstance(c, ast.Call) and isinstance(c.func, ast.Attribute) and c.func.attr in ("fetchone", "fetchall") \
                and not c.args and not c.keywords:
            fetch = ".one" if c.func.attr == "fetchone" else ".all"
            c = c.func.value
        elif isinstance(c, ast.Attribute) and c.attr == "lastrowid":
            fetch = ".lastrowid"
            c = c.value
        if not (isinstance(c, ast.Call) and isinstance(c.func, ast.Attribute) and c.func.attr == "execute"):
            return None
        key = (c.lineno, c.col_offset)
        if key not in self.stmt_names:
            self.err("statement not known to the SQL translator", c)
        st = self.stmt_names[key]
        args = []
        if len(c.args) == 2:
            args = [self.expr(e) for e in c.args[1].elts]
        return fetch, st["name"], args

    def method_call(self, n):
        """n: `self.m(…)` / `<objvar>.m(…)` -> (qualified name, target expr or None, args) or None"""
        if not (isinstance(n, ast.Call) and isinstance(n.func, ast.Attribute)):
            return None
        recv, meth = src_of(n.func.value), n.func.attr
        if recv == "self":
            cls, target = self.cls, None
        elif recv == "self._app" and self.cls == "Mailbox":
            cls, target = "AppNamespace", None      # the AppNamespace this Mailbox belongs to (same app id)
        elif recv in self.objvars:
            cls, target = "Mailbox", ".var %s" % lean_str(recv)
        else:
            return None
        if (cls, meth) not in self.classes:
            return None
        callee = self.classes[(cls, meth)]
        if (cls, meth) not in METHODS and (cls, meth) not in PRIMITIVE:
            self.err("call of a method that is not translated", n)
        ps = [a.arg for a in callee.args.args][1:]
        if callee.args.vararg or callee.args.kwarg or callee.args.kwonlyargs or callee.args.defaults:
            self.err("callee has an unsupported signature", n)
        vals = {}
        if len(n.args) > len(ps):
            self.err("too many arguments", n)
        for p, a in zip(ps, n.args):
            vals[p] = self.expr(a)
        for k in n.keywords:
            if k.arg is None or k.arg not in ps or k.arg in vals:
                self.err("bad keyword argument", n)
            vals[k.arg] = self.expr(k.value)
        if set(vals) != set(ps):
            self.err("missing arguments", n)
        return "%s.%s" % (cls, meth), target, [vals[p] for p in ps]

    def is_log_only(self, body):
        return all(isinstance(s, ast.Expr) and isinstance(s.value, ast.Call) and src_of(s.value.func) == "log.msg" for s in body)

    def registry_block(self, st):
        """`if not <e> in self._mailboxes:` … -> True when it only fills the registry with the Mailbox of that id"""
        t = st.test
        if not (isinstance(t, ast.UnaryOp) and isinstance(t.op, ast.Not) and isinstance(t.operand, ast.Compare)
                and len(t.operand.ops) == 1 and isinstance(t.operand.ops[0], ast.In)
                and src_of(t.operand.comparators[0]) == "self._mailboxes") and \
           not (isinstance(t, ast.Compare) and len(t.ops) == 1 and isinstance(t.ops[0], ast.NotIn)
                and src_of(t.comparators[0]) == "self._mailboxes"):
            return False
        key = src_of(t.operand.left if isinstance(t, ast.UnaryOp) else t.left)
        if st.orelse or self.cls != "AppNamespace":
            return False
        made = 0
        for s in st.body:
            if isinstance(s, ast.If) and src_of(s.test) == "self._log_requests" and not s.orelse and self.is_log_only(s.body):
                continue
            if isinstance(s, ast.Assign) and len(s.targets) == 1 and \
                    src_of(s.targets[0]) == "self._mailboxes[%s]" % key and \
                    src_of(s.value) == "Mailbox(self, self._db, self._usage_db, self._app_id, %s)" % key:
                made += 1
                continue
            return False
        return made == 1

    def listener_loop(self, st):
        return isinstance(st, ast.For) and src_of(st.iter) == "self._listeners.values()" and not st.orelse \
            and isinstance(st.target, ast.Tuple) and [src_of(e) for e in st.target.elts] == ["send_f", "stop_f"] \
            and len(st.body) == 1 and src_of(st.body[0]) == "stop_f()" and self.cls == "Mailbox"

    def stmts(self, body):
        out = []
        i = 0
        while i < len(body):
            s = body[i]
            if self.listener_loop(s):
                if not (i + 1 < len(body) and src_of(body[i + 1]) == "self._listeners = {}"):
                    self.err("the listener loop is not followed by `self._listeners = {}`", s)
                out.append(".stopListeners")
                i += 2
                continue
            x = self.stmt(s)
            if x is not None:
                out.append(x)
            i += 1
        return lean_list(out)

    def drop(self, st, why):
        self.dropped.append((why, src_of(st).split("\n")[0][:100]))
        return None

    def stmt(self, st):
        if isinstance(st, ast.Expr) and isinstance(st.value, ast.Constant):
            return None
        if isinstance(st, ast.Assert):
            t = st.test
            if isinstance(t, ast.Call) and isinstance(t.func, ast.Name) and t.func.id == "isinstance":
                return self.drop(st, "assert")
            self.err("unsupported assert", st)
        if isinstance(st, ast.Assign) and len(st.targets) == 1 and isinstance(st.targets[0], ast.Name):
            v = st.targets[0].id
            if v in self.dbalias:
                return self.drop(st, "alias")
            if v in self.sqlvars:
                return self.drop(st, "sql text")
            ex = self.execute_call(st.value)
            if ex:
                if ex[0] == ".nothing":
                    self.err("a cursor is kept", st)
                return ".exec (some %s) %s %s %s" % (lean_str(v), ex[0], lean_str(ex[1]), lean_list(ex[2]))
            mc = self.method_call(st.value)
            if mc:
                return ".call (some %s) %s %s %s" % (lean_str(v), lean_str(mc[0]),
                                                     "(some (%s))" % mc[1] if mc[1] else "none", lean_list(mc[2]))
            e = self.expr(st.value)
            if e.startswith(".mailboxObj"):
                self.objvars.add(v)
            return ".assign %s (%s)" % (lean_str(v), e)
        if isinstance(st, ast.Expr):
            ex = self.execute_call(st.value)
            if ex:
                if ex[0] != ".nothing":
                    self.err("fetched rows are discarded", st)
                return ".exec none .nothing %s %s" % (lean_str(ex[1]), lean_list(ex[2]))
            v = st.value
            if isinstance(v, ast.Call) and isinstance(v.func, ast.Attribute) and v.func.attr == "commit" and not v.args and not v.keywords:
                recv = src_of(v.func.value)
                recv = self.dbalias.get(recv, recv)
                if recv == "self._db":
                    return ".commit"
                if recv == "self._usage_db":
                    return ".ucommit"
                self.err("commit on an unknown handle", st)
            if self.cls == "Mailbox" and src_of(v) == "self._app.free_mailbox(self._mailbox_id)":
                return self.drop(st, "registry")
            mc = self.method_call(v)
            if mc:
                return ".call none %s %s %s" % (lean_str(mc[0]), "(some (%s))" % mc[1] if mc[1] else "none", lean_list(mc[2]))
            self.err("unsupported expression statement", st)
        if isinstance(st, ast.If):
            if src_of(st.test) == "self._log_requests" and not st.orelse and self.is_log_only(st.body):
                return self.drop(st, "logging")
            if self.registry_block(st):
                return self.drop(st, "registry")
            return ".if_ (%s) %s %s" % (self.expr(st.test), self.stmts(st.body), self.stmts(st.orelse))
        if isinstance(st, ast.For) and isinstance(st.target, ast.Name) and not st.orelse:
            ex = self.execute_call(st.iter)
            if ex and ex[0] == ".all":
                return ".forExec %s %s %s %s" % (lean_str(st.target.id), lean_str(ex[1]), lean_list(ex[2]), self.stmts(st.body))
            self.err("unsupported loop", st)
        if isinstance(st, ast.Raise) and st.exc is not None and st.cause is None:
            e = st.exc
            if isinstance(e, ast.Call) and isinstance(e.func, ast.Name):
                return ".raise_ %s" % lean_str(e.func.id)
            if isinstance(e, ast.Name):
                return ".raise_ %s" % lean_str(e.id)
        if isinstance(st, ast.Return):
            return ".ret (%s)" % (self.expr(st.value) if st.value is not None else ".none_")
        self.err("unsupported statement", st)


def generate():
    path = os.path.join(SRC, "server.py")
    tree = ast.parse(open(path).read(), path)
    classes = {}
    for c in tree.body:
        if isinstance(c, ast.ClassDef):
            for f in c.body:
                if isinstance(f, ast.FunctionDef):
                    classes[(c.name, f.name)] = f
    stmt_names = {st["pos"]: st for st in translate_sql.embedded_statements(path)}
    L = ["/- GENERATED by harness/translate_srv.py from /repo/src/wormhole_mailbox_server/server.py -- do not edit.",
         "   The bodies of the methods of Mailbox / AppNamespace that are straight-line code over SQL statements. -/",
         "import Wormhole.PySrv", "", "namespace Wormhole.GenSrv", "open Wormhole.PySrv", ""]
    info, dropped, names = {}, [], []
    for cls, name in METHODS:
        if (cls, name) not in classes:
            raise TranslateError("%s.%s not found" % (cls, name))
        fn = Fn(cls, classes[(cls, name)], classes, stmt_names)
        body = fn.stmts(fn.f.body)
        ident = "%s_%s" % (cls, name.lstrip("_") if False else name)
        ident = ident.replace("__", "_")
        names.append(("%s.%s" % (cls, name), ident))
        L.append("/-- `%s.%s(self, %s)`, line %d -/" % (cls, name, ", ".join(fn.params), fn.f.lineno))
        L.append("def %s : Method :=\n  { params := %s,\n    body := %s }" % (ident, lean_list(lean_str(p) for p in fn.params), body))
        L.append("")
        info["%s.%s" % (cls, name)] = len(fn.f.body)
        dropped += [("%s.%s" % (cls, name), why, text) for why, text in fn.dropped]
    L.append("/-- every translated method, by qualified name -/")
    L.append("def table : List (String × Method) := " + lean_list("(%s, %s)" % (lean_str(q), i) for q, i in names))
    L.append("")
    L.append("/-- statements the translation leaves out (method, why, first line): asserts on argument types, aliases of the")
    L.append("    database handles, SQL text held in a local, logging, the registry of Mailbox objects -/")
    L.append("def dropped : List (String × String × String) := [")
    L.append(",\n".join("  (%s, %s, %s)" % (lean_str(m), lean_str(w), lean_str(t)) for m, w, t in dropped))
    L.append("]")
    L.append("")
    L.append("end Wormhole.GenSrv")
    return "\n".join(L) + "\n", {"methods": info, "dropped": len(dropped)}


def main():
    try:
        text, info = generate()
    except (TranslateError, OSError, SyntaxError) as e:
        return {"error": str(e)}
    old = open(OUT).read() if os.path.exists(OUT) else None
    if old != text:
        with open(OUT + ".tmp", "w") as f:
            f.write(text)
        os.replace(OUT + ".tmp", OUT)
    info["changed"] = old != text
    return info


if __name__ == "__main__":
    import json, sys
    json.dump(main(), sys.stdout, indent=1)
    print()
