"""History / event line protocol shared by the model driver (lean/Main.lean) and the
implementation runner (impl.py).  See DESIGN.md 4.1a.

A history is a list of op dicts:
  {"op":"cfg","allow_list":bool,"usage":bool,"blur":int|None,"motd":..,"advertise":..,"error":..,"rebooted":ticks}
  {"op":"connect","c":int}
  {"op":"recv","c":int,"t":ticks,"msg":{...json...}, "fresh":str|None, "pick":int, "draws":[int]}
  {"op":"drop","c":int}
  {"op":"sweep","now":ticks,"fault":bool}
  {"op":"restart","t":ticks}
  {"op":"crash","k":int}              (applies to the next op)
  {"op":"dump"}
Times are integer ticks (TICKS per second).

Two forms of the `recv` line (environment variable VERIF_RECV_FORM):
  json (default)  `recvj`: the JSON object itself goes to the driver, pair by pair (`extra` keys merged
                  in, as the implementation runner does); the classification into the model's `Cmd` is
                  the Lean definition `Wormhole.decodeCmd` (lean/Wormhole/Decode.lean), about which
                  `decode_ignores_extra_keys` etc. are proved (lean/Wormhole/Props/Decode.lean).
  classic         `recv`: the harness classifies the object (`op_line_classic`; `extra` keys are dropped).
The `cfg` op is sent as `cfgw` (the three welcome options; the driver computes the welcome text with
`Wormhole.mkCfg`) unless VERIF_RECV_FORM=classic (`cfg` with the text computed by `welcome_json`).
"""
import json, os

TICKS = 8
ABSENT = object()


def hx(s):
    return "h" + s.encode("utf-8").hex()


def unhx(tok):
    assert tok.startswith("h"), tok
    return bytes.fromhex(tok[1:]).decode("utf-8")


def tok_val(v):
    """JSON scalar -> token ('-' absent, '~' null, h<hex>, i<int>)"""
    if v is ABSENT:
        return "-"
    if v is None:
        return "~"
    if isinstance(v, bool):
        return "j" + json.dumps(v)
    if isinstance(v, str):
        return hx(v)
    if isinstance(v, int):
        return "i%d" % v
    if isinstance(v, float) and v == int(v) and abs(v) < 2 ** 53:
        # SQLite INTEGER affinity / JSON floats that are whole numbers
        return "i%d" % int(v)
    if isinstance(v, (bytes, bytearray, memoryview)):
        return "b" + bytes(v).hex()          # a BLOB cell (the model has none: always a difference)
    try:
        return "j" + json.dumps(v, sort_keys=True)
    except (TypeError, ValueError):
        return "r" + hx(repr(v))


def ticks_of(seconds):
    """float seconds -> ticks token (int when exact)"""
    if seconds is None:
        return "~"
    x = seconds * TICKS
    if x == int(x):
        return "%d" % int(x)
    return "f%r" % (seconds,)


def welcome_json(cfg):
    w = {}
    if cfg.get("motd") is not None:
        w["motd"] = str(cfg["motd"])
    if cfg.get("advertise"):
        w["current_cli_version"] = cfg["advertise"]
    if cfg.get("error"):
        w["error"] = cfg["error"]
    return json.dumps(w, sort_keys=True)


def bad_client_version(cv):
    """the exception class `client_version[0]`, `client_version[1]` raises, or None"""
    try:
        cv[0]; cv[1]
        return None
    except Exception as e:
        return type(e).__name__


def jtok(v):
    """JSON value -> token of the `recvj` form: `~` null, `t`/`f` booleans, `h<hex>` string, `i<int>`
    integer, `o` anything else (float, array, object)"""
    if v is None:
        return "~"
    if v is True:
        return "t"
    if v is False:
        return "f"
    if isinstance(v, str):
        return hx(v)
    if isinstance(v, int):
        return "i%d" % v
    return "o"


def opt_tok(v):
    """an option that is a string or None -> `h<hex>` / `-`"""
    return "-" if v is None else hx(v if isinstance(v, str) else str(v))


def op_line_json(op):
    """`recv` op dict -> `recvj` line: the JSON object as sent to the implementation (msg + extra), one
    `<hex of key>=<token>` per key in order.  The only thing computed here is the indexing of
    `client_version` (`cv=<tok [0]>,<tok [1]>`, or `cv=!<ExceptionClass>` when Python cannot index it)."""
    m = dict(op["msg"])
    if op.get("extra"):
        m.update(op["extra"])
    d = op.get("draws") or []
    parts = ["recvj", "%d" % op["c"], "%d" % op["t"], "%d" % op.get("pick", 0),
             ",".join("%d" % x for x in d) if d else "-", opt_tok(op.get("fresh"))]
    for key, v in m.items():
        if key == "client_version":
            bad = bad_client_version(v)
            parts.append("cv=!" + bad if bad else "cv=%s,%s" % (jtok(v[0]), jtok(v[1])))
        else:
            parts.append("%s=%s" % (key.encode("utf-8").hex(), jtok(v)))
    return " ".join(parts)


def recv_form():
    return os.environ.get("VERIF_RECV_FORM", "json") or "json"


def op_line(op):
    """op dict -> line for the model driver"""
    k = op["op"]
    if recv_form() != "classic":
        if k == "recv":
            return op_line_json(op)
        if k == "cfg":
            return "cfgw %d %d %s %s %s %s %d" % (
                1 if op.get("allow_list", True) else 0, 1 if op.get("usage") else 0,
                "-" if op.get("blur") is None else "%d" % op["blur"],
                opt_tok(op.get("motd")), opt_tok(op.get("advertise")), opt_tok(op.get("error")),
                op.get("rebooted", 0))
    return op_line_classic(op)


def op_line_classic(op):
    """op dict -> line for the model driver, `recv` classified by the harness (the old form)"""
    k = op["op"]
    if k == "cfg":
        return "cfg %d %d %s %s %d" % (1 if op.get("allow_list", True) else 0, 1 if op.get("usage") else 0,
                                         "-" if op.get("blur") is None else "%d" % op["blur"],
                                         hx(welcome_json(op)), op.get("rebooted", 0))
    if k == "connect":
        return "connect %d" % op["c"]
    if k == "drop":
        return "drop %d" % op["c"]
    if k == "sweep":
        return "sweep %d %d" % (op["now"], 1 if op.get("fault") else 0)
    if k == "restart":
        return "restart %d" % op["t"]
    if k == "crash":
        return "crash %d" % op["k"]
    if k == "dump":
        return "dump"
    if k == "recv":
        m = op["msg"]
        head = "recv %d %d %s " % (op["c"], op["t"], tok_val(m.get("id", ABSENT)))
        if "type" not in m:
            return head + "notype"
        t = m["type"]
        g = lambda key: tok_val(m.get(key, ABSENT))
        if t == "ping":
            return head + "ping " + g("ping")
        if t == "bind":
            if "client_version" in m:
                cv = m["client_version"]
                bad = bad_client_version(cv)
                if bad:
                    # outside the model's domain (client_version must be a sequence of >= 2
                    # items): Python raises while indexing it, after the connection was bound
                    # and before anything is written; the driver composes exactly that
                    impl, ver = "!" + bad, "-"
                else:
                    impl, ver = tok_val(cv[0]), tok_val(cv[1])
            else:
                impl = ver = "-"
            return head + "bind %s %s %s %s" % (g("appid"), g("side"), impl, ver)
        if t == "list":
            return head + "list"
        if t == "allocate":
            d = op.get("draws") or []
            return head + "allocate %d %s %s" % (op.get("pick", 0), ",".join("%d" % x for x in d) if d else "-",
                                                 hx(op["fresh"]))
        if t == "claim":
            return head + "claim %s %s" % (g("nameplate"), hx(op["fresh"]))
        if t == "release":
            return head + "release " + g("nameplate")
        if t == "open":
            return head + "open " + g("mailbox")
        if t == "add":
            return head + "add %s %s" % (g("phase"), g("body"))
        if t == "close":
            return head + "close %s %s" % (g("mailbox"), g("mood"))
        return head + "unknown"
    raise ValueError(op)


def frame_line(c, synced, msg):
    """outbound frame (parsed JSON dict) of the implementation -> event line"""
    t = msg.get("type")
    head = "F %d %d " % (c, 1 if synced else 0)
    if t == "welcome":
        return head + "welcome " + hx(json.dumps(msg.get("welcome"), sort_keys=True))
    if t == "ack":
        return head + "ack " + tok_val(msg.get("id"))
    if t == "pong":
        return head + "pong " + tok_val(msg.get("pong"))
    if t == "error":
        return head + "error " + tok_val(msg.get("error"))
    if t == "nameplates":
        ids = [n.get("id") for n in msg.get("nameplates")]
        return head + "nameplates " + (",".join(tok_val(i) for i in ids) if ids else "-")
    if t == "allocated":
        return head + "allocated " + tok_val(msg.get("nameplate"))
    if t == "claimed":
        return head + "claimed " + tok_val(msg.get("mailbox"))
    if t == "released":
        return head + "released"
    if t == "closed":
        return head + "closed"
    if t == "message":
        return head + "message %s %s %s %s %s" % (tok_val(msg.get("side")), tok_val(msg.get("phase")),
                                                  tok_val(msg.get("body")), ticks_of(msg.get("server_rx")),
                                                  tok_val(msg.get("id")))
    return head + "other " + hx(json.dumps(msg, sort_keys=True))


def canon_events(lines):
    """Canonical form of the events of one step: maximal runs of consecutive `message`
    frames are sorted (a broadcast reaches its listeners in dict order; a replay batch is
    ordered by server_rx only, ties unspecified)."""
    out, run = [], []
    for ln in lines:
        p = ln.split(" ")
        if p[0] == "F" and len(p) > 3 and p[3] == "message":
            run.append(ln)
        else:
            if run:
                out.extend(sorted(run)); run = []
            out.append(ln)
    if run:
        out.extend(sorted(run))
    return out


def parse_event(ln):
    p = ln.split(" ")
    if p[0] == "F":
        return {"k": "F", "c": int(p[1]), "synced": p[2] == "1", "type": p[3], "args": p[4:]}
    if p[0] == "C":
        return {"k": "C", "db": p[1]}
    if p[0] == "X":
        return {"k": "X", "c": None if p[1] == "-" else int(p[1]), "cls": p[2]}
    if p[0] == "T":
        num = lambda x: int(x) if not x.startswith("f") else float(x[1:]) * TICKS
        return {"k": "T", "now": num(p[1]), "old": num(p[2])}
    return {"k": "?", "raw": ln}


def parse_dump(lines):
    """`D table fields...` lines -> {table: sorted list of tuples of tokens}"""
    d = {}
    for ln in lines:
        p = ln.split(" ")
        if p[0] != "D" or p[1] == "end":
            continue
        d.setdefault(p[1], []).append(tuple(p[2:]))
    for k in d:
        d[k].sort()
    return d
