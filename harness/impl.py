"""Implementation runner: executes a history (proto.py) against the REAL code of /repo,
in-process, and emits the same event/dump lines as the Lean model driver.

No hooks in /repo: the runner
  * builds the service with the real `server_tap.makeService` (real Options parsing, real
    database.py on real files in a scratch directory, real make_server/make_web_server),
    with `create_or_upgrade_*_db` wrapped from outside so the connections handed to
    make_server are recording proxies;
  * replaces the module globals `server_websocket.time`, `server_tap.time`,
    `server.random`, `server.generate_mailbox_id` (looked up at call time by the code);
  * instantiates the real `WebSocketServer` protocol from the real factory and overrides
    `sendMessage` on the instance to capture frames;
  * drives `expire()` either by calling the TimerService's callable or (timer mode) by
    advancing a `task.Clock` installed as the TimerService's clock.

Run with /venv/bin/python and PYTHONPATH=<repo>/src.
"""
import os, sys, json, sqlite3, shutil, tempfile, hashlib

from proto import TICKS, ABSENT, hx, tok_val, ticks_of, frame_line, welcome_json


class Crash(BaseException):
    """the simulated kill; a BaseException so that `except Exception` in the code under
    test (expire) cannot swallow it"""
    pass


_LOGGING_SILENCED = False


def _silence_twisted_logging():
    """Before logging is started Twisted prints every logged failure to stderr."""
    global _LOGGING_SILENCED
    if _LOGGING_SILENCED:
        return
    _LOGGING_SILENCED = True
    try:
        from twisted.logger import globalLogBeginner
        globalLogBeginner.beginLoggingTo([lambda ev: None], redirectStandardIO=False, discardBuffer=True)
    except Exception:
        pass


class _Time(object):
    """stand-in for the `time` module in server_websocket / server_tap"""
    def __init__(self, runner):
        self._r = runner

    def time(self):
        return self._r.now


class _Random(object):
    """stand-in for the `random` module in server.py; choices come from the history"""
    def __init__(self, runner):
        self._r = runner

    def choice(self, seq):
        seq = list(seq)
        try:
            seq.sort(key=lambda s: (int(s), s))
        except ValueError:
            seq.sort()
        self._r.note("choice", len(seq))
        return seq[self._r.pick % len(seq)]

    def randrange(self, a, b=None):
        i = self._r.draw_i
        self._r.draw_i += 1
        self._r.draw_ranges.add((a, b))
        d = self._r.draws
        return d[i] if i < len(d) else (a + i)


TABLES = [
    ("nameplates", "chan", "SELECT id, app_id, name, mailbox_id FROM nameplates"),
    ("nameplate_sides", "chan", "SELECT nameplates_id, claimed, side, added FROM nameplate_sides"),
    ("mailboxes", "chan", "SELECT app_id, id, updated, for_nameplate FROM mailboxes"),
    ("mailbox_sides", "chan", "SELECT mailbox_id, opened, side, added, mood FROM mailbox_sides"),
    ("messages", "chan", "SELECT app_id, mailbox_id, side, phase, body, server_rx, msg_id FROM messages"),
    ("u_nameplates", "usage", "SELECT app_id, started, waiting_time, total_time, result FROM nameplates"),
    ("u_mailboxes", "usage", "SELECT app_id, for_nameplate, started, total_time, waiting_time, result FROM mailboxes"),
    ("u_current", "usage", "SELECT rebooted, updated, blur_time, connections_websocket FROM current"),
    ("u_client_versions", "usage", "SELECT app_id, side, connect_time, implementation, version FROM client_versions"),
]
# column kinds: s = string-ish, t = time, b = bool, n = plain number, v = value
KINDS = {
    "nameplates": "nsss", "nameplate_sides": "nbst", "mailboxes": "sstb", "mailbox_sides": "sbsts",
    "messages": "sssvvtv", "u_nameplates": "sttts", "u_mailboxes": "sbttts", "u_current": "ttnn",
    "u_client_versions": "sstss",
}


def _cell(kind, v):
    if kind == "t":
        return ticks_of(v)
    if kind == "b":
        return "~" if v is None else ("1" if v else "0")
    if kind == "n":
        return "~" if v is None else ("%d" % v if isinstance(v, int) or v == int(v) else repr(v))
    return tok_val(v)


def raw_dump(conn, which):
    """rows of every table of one database, read through `conn` (a raw sqlite3 connection)"""
    cur = conn.cursor()
    cur.row_factory = None
    out = []
    for name, db, sql in TABLES:
        if db != which:
            continue
        rows = cur.execute(sql).fetchall()
        kinds = KINDS[name]
        for r in rows:
            out.append("D %s %s" % (name, " ".join(_cell(k, v) for k, v in zip(kinds, r))))
    if which == "chan":
        row = cur.execute("SELECT seq FROM sqlite_sequence WHERE name='nameplates'").fetchone()
        out.append("D nextnp %d" % ((row[0] + 1) if row else 1))
    out.sort()
    return out


class RecDB(object):
    """recording proxy around a sqlite3 connection (what the server gets as `db`)"""
    def __init__(self, conn, which, runner, path):
        self.__dict__["_conn"] = conn
        self.__dict__["_which"] = which
        self.__dict__["_r"] = runner
        self.__dict__["_path"] = path
        self.__dict__["_last"] = raw_dump(conn, which)

    def execute(self, *a, **kw):
        r = self._r
        if r.fault_next and self._which == "chan":
            r.fault_next = False
            raise sqlite3.OperationalError("database is locked (injected)")
        r.nexec += 1
        cur = self._conn.execute(*a, **kw)
        if not self._conn.in_transaction and a and isinstance(a[0], str) and \
                a[0].lstrip()[:6].upper() in ("INSERT", "UPDATE", "DELETE"):
            # a write outside any transaction is durable at once (connection in autocommit
            # mode): it is a commit boundary, and a crash point, of its own
            snap = raw_dump(self._conn, self._which)
            if snap != self._last:
                self.__dict__["_last"] = snap
                r.event("C " + self._which)
                r.ncommit += 1
                if r.crash_at is not None and r.ncommit == r.crash_at:
                    r.crash_raised = True
                    raise Crash()
        return cur

    def commit(self):
        r = self._r
        if self._conn.in_transaction:
            self._conn.commit()
            snap = raw_dump(self._conn, self._which)
            if snap != self._last:
                self.__dict__["_last"] = snap
                r.event("C " + self._which)
                r.ncommit += 1
                if r.crash_at is not None and r.ncommit == r.crash_at:
                    r.crash_raised = True
                    if getattr(r, "real_kill", False):
                        os._exit(77)
                    raise Crash()
        else:
            self._conn.commit()

    def __getattr__(self, k):
        return getattr(self._conn, k)

    def __setattr__(self, k, v):
        setattr(self._conn, k, v)

    def __bool__(self):
        return True


class _Request(object):
    peer = "tcp4:127.0.0.1:0"


class Runner(object):
    def __init__(self, workdir=None, reader=False, timer=False, real_startup=True):
        self.own_dir = workdir is None
        self.dir = workdir or tempfile.mkdtemp(prefix="wmv-", dir=_scratch_root())
        self.reader = reader          # compare an independent reader's view at every frame
        self.timer = timer            # drive expire() through the real TimerService clock
        self.now = 0.0
        self.pick = 0
        self.draws = []
        self.draw_i = 0
        self.draw_ranges = set()
        self.fresh = None
        self.fault_next = False
        self.crash_at = None
        self.ncommit = 0
        self.nexec = 0
        self.events = []
        self.notes = {}
        self.cfg = None
        self.conns = {}
        self.service = None
        self.server = None
        self.chan = self.usage = None
        self.down = True
        self.pending_crash = None
        self.crash_raised = False
        self.sweep_args = []
        self.logged_errors = []
        self._install()

    # ---- environment -------------------------------------------------------------
    def _install(self):
        from wormhole_mailbox_server import server, server_websocket, server_tap
        from twisted.python import log
        self.m_server, self.m_ws, self.m_tap = server, server_websocket, server_tap
        self._saved = (server.random, server.generate_mailbox_id, server_websocket.time, server_tap.time,
                       server_tap.create_or_upgrade_channel_db, server_tap.create_or_upgrade_usage_db)
        server.random = _Random(self)
        server.generate_mailbox_id = self._gen_id
        server_websocket.time = _Time(self)
        server_tap.time = _Time(self)
        orig_c, orig_u = self._saved[4], self._saved[5]

        def cc(path):
            conn = orig_c(path)
            self.chan = RecDB(conn, "chan", self, path)
            return self.chan

        def cu(path):
            conn = orig_u(path)
            if conn is None:
                self.usage = None
                return None
            self.usage = RecDB(conn, "usage", self, path)
            return self.usage
        server_tap.create_or_upgrade_channel_db = cc
        server_tap.create_or_upgrade_usage_db = cu
        self._observer = self._log_observer
        log.addObserver(self._observer)
        _silence_twisted_logging()

    def close(self):
        from twisted.python import log
        s, ws, tap = self.m_server, self.m_ws, self.m_tap
        (s.random, s.generate_mailbox_id, ws.time, tap.time,
         tap.create_or_upgrade_channel_db, tap.create_or_upgrade_usage_db) = self._saved
        try:
            log.removeObserver(self._observer)
        except ValueError:
            pass
        self._teardown()
        if self.own_dir:
            shutil.rmtree(self.dir, ignore_errors=True)

    def _log_observer(self, ev):
        if ev.get("isError"):
            f = ev.get("failure")
            cls = f.type.__name__ if f is not None else "unknown"
            if cls == "Crash":
                return
            self.logged_errors.append(cls)
            self.event("X - %s" % cls)

    def _gen_id(self):
        self.note("genid", 1)
        if self.fresh is None:
            raise RuntimeError("history gave no fresh mailbox id for this command")
        return self.fresh

    def note(self, k, v):
        self.notes[k] = self.notes.get(k, 0) + 1

    def event(self, line):
        self.events.append(line)

    # ---- service life cycle --------------------------------------------------------
    def _argv(self):
        c = self.cfg
        a = ["--channel-db", os.path.join(self.dir, "relay.sqlite"), "--port", "tcp:0:interface=127.0.0.1"]
        if c.get("usage"):
            a += ["--usage-db", os.path.join(self.dir, "usage.sqlite")]
        if c.get("blur") is not None:
            a += ["--blur-usage", "%d" % c["blur"]]
        if not c.get("allow_list", True):
            a += ["--disallow-list"]
        if c.get("motd") is not None:
            a += ["--motd", c["motd"]]
        if c.get("advertise"):
            a += ["--advertise-version", c["advertise"]]
        if c.get("error"):
            a += ["--signal-error", c["error"]]
        return a

    def _startup(self, t_ticks):
        from twisted.internet import task
        from twisted.application.internet import TimerService
        self.now = t_ticks / float(TICKS)
        opts = self.m_tap.Options()
        opts.parseOptions(self._argv())
        self.chan = self.usage = None
        self.service = self.m_tap.makeService(opts)
        self.server = None
        self.timer_service = None
        for svc in self.service:
            if isinstance(svc, self.m_server.Server):
                self.server = svc
            if isinstance(svc, TimerService):
                self.timer_service = svc
        assert self.server is not None and self.timer_service is not None
        # twistd starts the parent service, which starts every child in the order makeService added them: the Server's own
        # startService runs at every (re)start, before the first firing of the timer (the web endpoint is not started: no sockets)
        self.server.startService()
        # the factory that makeService's web server would hand connections to
        self.factory = None
        for svc in self.service:
            fac = getattr(svc, "factory", None)
            res = getattr(fac, "resource", None)
            if res is not None:
                v1 = res.children.get(b"v1")
                if v1 is not None:
                    self.factory = v1._factory
        if self.factory is None:
            self.factory = self.m_ws.WebSocketServerFactory(None, self.server)
            self.note("own-factory", 1)
        # record the (now, old) every firing hands to prune_all_apps
        orig = self.server.prune_all_apps

        def rec_prune(now, old, _orig=orig):
            self.sweep_args.append((now, old))
            self.event("T %s %s" % (ticks_of(now), ticks_of(old)))
            return _orig(now, old)
        self.server.prune_all_apps = rec_prune
        self.conns = {}
        self.down = False
        if self.timer:
            self.clock = task.Clock()
            self.clock.rightNow = self.now
            self.timer_service.clock = self.clock
            # startService fires the first expire() immediately; the history has a
            # `sweep` op at this instant, which run_op turns into this call
            self.timer_started = False

    def _teardown(self):
        for db in (self.chan, self.usage):
            if db is not None:
                try:
                    db._conn.close()     # no commit: pending work is lost, as in a kill
                except Exception:
                    pass
        if self.timer and getattr(self, "timer_service", None) is not None and getattr(self, "timer_started", False):
            try:
                self.timer_service._loop.stop() if self.timer_service._loop.running else None
            except Exception:
                pass
        self.chan = self.usage = None
        self.service = self.server = None
        self.conns = {}
        self.down = True

    # ---- dumps -----------------------------------------------------------------------
    def dump(self):
        out = []
        out += raw_dump(self.chan._conn, "chan")
        if self.usage is not None:
            out += raw_dump(self.usage._conn, "usage")
        out.append("D synced %d" % (1 if self._synced() else 0))
        out.sort()
        return out

    def reader_dump(self):
        """what an independent reader of the FILES sees"""
        out = []
        c = sqlite3.connect(os.path.join(self.dir, "relay.sqlite"))
        out += raw_dump(c, "chan")
        c.close()
        if self.usage is not None:
            c = sqlite3.connect(os.path.join(self.dir, "usage.sqlite"))
            out += raw_dump(c, "usage")
            c.close()
        out.sort()
        return out

    def _synced(self):
        """does the committed state equal the state the server's connections see?"""
        same = True
        for db in (self.chan, self.usage):
            if db is None:
                continue
            if db._conn.in_transaction:
                if raw_dump(db._conn, db._which) != db._last:
                    same = False
                else:
                    self.note("pending-but-equal", 1)
        if self.reader:
            # an independent reader of the files must see what the server sees
            mine = raw_dump(self.chan._conn, "chan")
            if self.usage is not None:
                mine += raw_dump(self.usage._conn, "usage")
            mine.sort()
            if (mine == self.reader_dump()) != same:
                self.event("!reader-disagrees-with-commit-tracking")
                same = False
        return same

    # ---- operations ----------------------------------------------------------------
    def _send_hook(self, c):
        def sendMessage(payload, isBinary=False, **kw):
            try:
                msg = json.loads(payload.decode("utf-8"))
            except Exception:
                self.event("!frame-not-json %d" % c)
                return
            if not isinstance(msg, dict) or not isinstance(msg.get("type"), str) or \
                    not isinstance(msg.get("server_tx"), (int, float)) or isinstance(msg.get("server_tx"), bool):
                self.event("!frame-malformed %d %s" % (c, hx(json.dumps(msg, sort_keys=True))))
            elif msg["server_tx"] != self.now:
                self.event("!frame-server_tx %d %r" % (c, msg["server_tx"]))
            if msg.get("type") == "error" and msg.get("orig") != self.cur_msg:
                self.event("!error-orig-mismatch %d" % c)
            self.event(frame_line(c, self._synced(), msg))
        return sendMessage

    def run_op(self, op):
        """-> list of event lines of this step"""
        self.events = []
        k = op["op"]
        if k == "cfg":
            self.cfg = dict(op)
            self._startup(op.get("rebooted", 0))
            return self._finish()
        if k == "crash":
            self.pending_crash = op["k"]
            return None
        if k == "dump":
            return self.dump()
        crash_k = self.pending_crash
        self.pending_crash = None
        self.ncommit = 0
        self.crash_raised = False
        self.crash_at = crash_k if (crash_k is not None and crash_k > 0) else None
        if crash_k == 0:
            if getattr(self, "real_kill", False):
                os._exit(77)
            self._teardown()
            self._startup_after_crash()
            return self._finish()
        if self.down and op["op"] != "restart":
            return self._finish()
        try:
            self._do(op)
        except Crash:
            self.crash_at = None
            self._teardown()
            self._startup_after_crash()
            return self._finish()
        self.crash_at = None
        if crash_k is not None:
            if getattr(self, "real_kill", False):
                os._exit(77)
            self._teardown()
            self._startup_after_crash()
        return self._finish()

    def _startup_after_crash(self):
        # the model keeps `rebooted` until the history's next `restart t`; start on the
        # files right away so that start-up problems surface at the crash point
        try:
            self._startup(int(round(self.now * TICKS)))
        except Exception as e:
            # the real start-up path refused the files the crash left (integrity check, version ...)
            self.event("!startup-failed %s" % type(e).__name__)
            self.down = True
        self.server_rebooted_hint = True

    def _finish(self):
        ev = self.events
        self.events = []
        return ev

    def _advance(self, t_ticks):
        self.now = t_ticks / float(TICKS)
        if self.timer and getattr(self, "timer_started", False):
            before = len(self.sweep_args)
            delta = self.now - self.clock.seconds()
            if delta > 0:
                self.clock.advance(delta)
            if len(self.sweep_args) != before:
                self.event("!unexpected-firing %d" % (len(self.sweep_args) - before))

    def _do(self, op):
        k = op["op"]
        if k == "connect":
            c = op["c"]
            p = self.factory.buildProtocol(None)
            p.sendMessage = self._send_hook(c)
            self.conns[c] = p
            self.cur_msg = None
            p.onConnect(_Request())
            p.onOpen()
        elif k == "recv":
            c = op["c"]
            self._advance(op["t"])
            self.pick = op.get("pick", 0)
            self.draws = list(op.get("draws") or [])
            self.draw_i = 0
            self.fresh = op.get("fresh")
            p = self.conns.get(c)
            if p is None:
                return
            msg = dict(op["msg"])
            extra = op.get("extra")
            if extra:
                msg.update(extra)     # keys the handlers must ignore (the model's decoder gets them too and ignores them: Props/Decode.lean)
            self.cur_msg = json.loads(json.dumps(msg))
            payload = json.dumps(msg).encode("utf-8")
            try:
                p.onMessage(payload, False)
            except Crash:
                raise
            except Exception as e:
                self.event("X %d %s" % (c, type(e).__name__))
                self.last_exc = e
        elif k == "drop":
            p = self.conns.pop(op["c"], None)
            if p is not None:
                try:
                    p.onClose(True, None, None)
                except Crash:
                    raise
                except Exception as e:
                    self.event("X %d %s" % (op["c"], type(e).__name__))
        elif k == "sweep":
            nerr = len(self.logged_errors)
            self.fault_next = bool(op.get("fault"))
            if self.timer:
                before = len(self.sweep_args)
                self.now = op["now"] / float(TICKS)
                try:
                    if not self.timer_started:
                        self.timer_started = True
                        self.clock.rightNow = self.now
                        self.timer_service.startService()
                    else:
                        self.clock.advance(self.now - self.clock.seconds())
                except Crash:
                    raise
                if self.crash_raised:
                    # LoopingCall turns every exception into a Failure; the kill is ours
                    raise Crash()
                fired = len(self.sweep_args) - before
                if fired != 1 and not (op.get("fault") and fired == 0):
                    self.event("!timer-fired %d" % fired)
                if not self.timer_service._loop.running:
                    self.event("!timer-loop-stopped")
            else:
                self.now = op["now"] / float(TICKS)
                expire = self.timer_service.call[0]
                try:
                    expire()
                except Crash:
                    raise
                except Exception as e:
                    self.event("X - escaped:%s" % type(e).__name__)
            self.fault_next = False
        elif k == "restart":
            self._teardown()
            try:
                self._startup(op["t"])
            except Exception as e:
                self.event("!startup-failed %s" % type(e).__name__)
                self.down = True
        elif k == "softrestart":
            # the same instant for a server that is NOT restarted: every client drops
            for c in list(self.conns):
                p = self.conns.pop(c)
                p.onClose(True, None, None)
            self.now = op["t"] / float(TICKS)
        else:
            raise ValueError(op)


def _scratch_root():
    for d in ("/dev/shm", tempfile.gettempdir()):
        if os.path.isdir(d) and os.access(d, os.W_OK):
            return d
    return None


def run_history(history, reader=False, timer=False, dumps="end"):
    """-> list of (op, events|None, dump|None).  dumps: 'end' | 'all' | 'none'"""
    r = Runner(reader=reader, timer=timer)
    res = []
    try:
        for i, op in enumerate(history):
            ev = r.run_op(op)
            d = None
            if dumps == "all" and op["op"] not in ("crash", "dump") and not r.down and not op.get("_nodump"):
                d = r.dump()
            res.append((op, ev, d))
        final = r.dump() if not r.down else None
        notes = dict(r.notes)
        notes["draw_ranges"] = sorted(r.draw_ranges)
        return res, final, notes
    finally:
        r.close()
