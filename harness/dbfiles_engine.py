"""Adapter: harness/dbfiles.py (real-kill fault enumeration of database.py + diff against the
Lean step model lean/Wormhole/DbFile.lean) -> the result shape check.py expects."""
import os, json

os.environ.setdefault("VERIF_REPO_SRC", os.path.join(os.environ.get("VERIF_REPO", "/repo"), "src"))
import dbfiles


def run(pid, tier, seed):
    r = dbfiles.run(pid, tier, seed)
    violations = []
    for v in r.get("violations", [])[:3]:
        violations.append({"property": pid, "what": v.get("what"), "replay": v.get("replay"), "detail": {k: v[k] for k in v if k not in ("what", "replay")},
                           "how_to_replay": "PYTHONPATH=/repo/src /venv/bin/python harness/dbfiles.py --replay '<the replay object as JSON>'"})
    if not violations and r.get("model_mismatches"):
        m = r["model_mismatches"][0]
        violations.append({"property": pid, "broken": "correspondence of the Lean step model (DbFile.lean) with database.py",
                           "mismatch": m, "suffix": " no-failing-input-found"})
    cov = {"evaluations": r.get("evaluations", 0), "distinct_nontrivial": r.get("distinct_nontrivial", 0),
           "rule": r.get("rule", ""), "samples": r.get("samples", [])[:4], "kill_points": r.get("kill_points", []),
           "traces_validated_against_impl": r.get("evaluations", 0) - len(r.get("model_mismatches", [])),
           "correspondence_mismatches": len(r.get("model_mismatches", [])), "stats": r.get("stats", {})}
    return {"coverage": cov, "violations": violations, "known": []}
