"""Search for a failing input once the model/implementation correspondence has broken.

A divergence between the model and the code (a different stamp, a missing commit, a listener that is
not registered ...) is often not yet a violation of the property at the point where it is first seen:
it becomes one only after more has happened (time passes and a sweep deletes a channel that was in use,
the process dies and the acknowledged write is gone, the peer closes and the mailbox stays ...).
`continuations(history, meta, info)` extends the (shrunk) diverging history in a few generic,
property-independent ways; check.py runs the property's oracle on each extension.  Everything is
derived from the history alone (no state of the implementation or the model is consulted).
"""
from proto import TICKS


class _View(object):
    """what a reader of the history knows at its end"""

    def __init__(self, history, timer):
        self.t = 0
        self.conns = {}          # live connection -> (app, side) or None
        self.binds = []          # every (app, side) ever bound, in order
        self.names = {}          # app -> [nameplate names mentioned]
        self.boxes = {}          # app -> [mailbox ids mentioned or generated]
        self.claimed = {}        # (app, side) -> [names]
        self.opened = {}         # (app, side) -> [mailbox ids]
        self.cmax = 0
        self.up = True
        self.next_fire = None    # timer mode: the next firing time of the service's timer
        self.timer = timer
        pending_crash = False
        for op in history:
            k = op["op"]
            if "c" in op:
                self.cmax = max(self.cmax, op["c"])
            if k == "cfg":
                self.t = max(self.t, op.get("rebooted", 0))
                self.next_fire = self.t
            elif k == "crash":
                pending_crash = True
                continue
            elif k == "connect":
                self.conns[op["c"]] = None
            elif k == "drop":
                self.conns.pop(op["c"], None)
            elif k == "restart":
                self.t = max(self.t, op["t"])
                self.conns = {}
                self.up = True
                self.next_fire = self.t
            elif k == "sweep":
                self.t = max(self.t, op["now"])
                self.next_fire = op["now"]          # corrected below (+ period) by the caller
                self._swept = True
            elif k == "recv":
                self.t = max(self.t, op["t"])
                m = op["msg"]
                c = op["c"]
                ty = m.get("type")
                if c in self.conns:
                    b = self.conns[c]
                    if ty == "bind" and b is None and isinstance(m.get("appid"), str) and isinstance(m.get("side"), str):
                        b = self.conns[c] = (m["appid"], m["side"])
                        if b not in self.binds:
                            self.binds.append(b)
                    elif b is not None:
                        app = b[0]
                        if ty == "claim" and isinstance(m.get("nameplate"), str):
                            self.names.setdefault(app, [])
                            if m["nameplate"] not in self.names[app]:
                                self.names[app].append(m["nameplate"])
                            self.claimed.setdefault(b, [])
                            if m["nameplate"] not in self.claimed[b]:
                                self.claimed[b].append(m["nameplate"])
                        if ty in ("open", "close") and isinstance(m.get("mailbox"), str):
                            self.boxes.setdefault(app, [])
                            if m["mailbox"] not in self.boxes[app]:
                                self.boxes[app].append(m["mailbox"])
                            if ty == "open":
                                self.opened.setdefault(b, [])
                                if m["mailbox"] not in self.opened[b]:
                                    self.opened[b].append(m["mailbox"])
                        if ty in ("claim", "allocate") and isinstance(op.get("fresh"), str):
                            self.boxes.setdefault(app, [])
                            if op["fresh"] not in self.boxes[app]:
                                self.boxes[app].append(op["fresh"])
            if pending_crash:
                pending_crash = False
                self.conns = {}
                self.up = False
        self.last_sweep = None
        for op in history:
            if op["op"] in ("cfg", "restart"):
                self.last_sweep = None
            elif op["op"] == "sweep":
                self.last_sweep = op["now"]


class _Ext(object):
    def __init__(self, history, meta, info):
        self.timer = bool((meta.get("mode") or {}).get("timer"))
        self.v = _View(history, self.timer)
        self.P = info["periodTicks"]
        self.E = info["expirationTicks"]
        self.t = self.v.t
        self.ops = []
        self.n = 0
        self.cnext = self.v.cmax + 5000
        if self.timer:
            self.next_fire = (self.v.last_sweep + self.P) if self.v.last_sweep is not None else max(self.t, self.v.next_fire or 0)
        else:
            self.next_fire = self.t + self.P
        if not self.v.up:
            self.restart()
        elif self.timer:
            self.advance(0)          # (a shrunk history may have lost firings that were due)

    def restart(self):
        self.t += TICKS
        self.ops.append({"op": "restart", "t": self.t})
        self.v.conns = {}
        self.v.up = True
        self.next_fire = self.t
        self.v.last_sweep = None
        self.advance(0)              # the service's timer fires at start-up

    def advance(self, dt):
        """let dt ticks pass; the expiry timer fires on its schedule meanwhile"""
        target = self.t + dt
        while self.next_fire <= target:
            self.ops.append({"op": "sweep", "now": max(self.next_fire, self.t), "fault": False})
            self.t = max(self.next_fire, self.t)
            self.next_fire += self.P
        self.t = target

    def final_sweep(self):
        if self.timer:
            self.ops.append({"op": "sweep", "now": self.next_fire, "fault": False})
            self.t = self.next_fire
            self.next_fire += self.P
        else:
            self.t += TICKS
            self.ops.append({"op": "sweep", "now": self.t, "fault": False})

    def connect(self, app, side):
        c = self.cnext
        self.cnext += 1
        self.ops.append({"op": "connect", "c": c})
        self.recv(c, {"type": "bind", "appid": app, "side": side})
        self.v.conns[c] = (app, side)
        return c

    def recv(self, c, msg, **kw):
        self.n += 1
        if self.t + 1 < self.next_fire:
            self.t += 1
        op = {"op": "recv", "c": c, "t": self.t, "msg": msg}
        if msg.get("type") in ("claim", "allocate"):
            op["fresh"] = "amp-%d-%d" % (self.cnext, self.n)
            op["pick"] = 0
            op["draws"] = []
        op.update(kw)
        self.ops.append(op)

    def drop_all(self):
        for c in sorted(self.v.conns):
            self.ops.append({"op": "drop", "c": c})
        self.v.conns = {}

    def probe(self):
        """every live bound connection adds a message; a newcomer per app lists"""
        for c, b in sorted(self.v.conns.items()):
            if b is not None:
                self.recv(c, {"type": "add", "phase": "amp%d" % self.n, "body": "aa"})
        for app in sorted({b[0] for b in self.v.binds}):
            c = self.connect(app, "amp-observer")
            self.recv(c, {"type": "list"})

    def everybody_returns(self):
        """every side that was ever bound comes back on a new connection and repeats its claims and opens"""
        back = {}
        for b in self.v.binds:
            back[b] = self.connect(b[0], b[1])
        for b in self.v.binds:
            for name in self.v.claimed.get(b, [])[:1]:
                self.recv(back[b], {"type": "claim", "nameplate": name})
            for mb in self.v.opened.get(b, [])[:1]:
                self.recv(back[b], {"type": "open", "mailbox": mb})
        return back


def continuations(history, meta, info):
    """-> [(name, extended history, meta)]"""
    out = []
    E, P = info["expirationTicks"], info["periodTicks"]

    def done(name, x, **mk):
        out.append((name, list(history) + x.ops, dict(meta, **mk)))

    # 1. everybody stays connected and silent while the timer keeps firing, then speaks again
    x = _Ext(history, meta, info)
    x.advance(3 * E + P)
    x.probe()
    done("stay-connected", x)

    # 1b. only one of the connected clients stays (each in turn), the others leave
    v0 = _View(history, False)
    for keep in sorted(c for c, b in v0.conns.items() if b is not None)[:4]:
        if len(v0.conns) < 2:
            break
        x = _Ext(history, meta, info)
        for c in sorted(x.v.conns):
            if c != keep:
                x.ops.append({"op": "drop", "c": c})
                del x.v.conns[c]
        x.advance(3 * E + P)
        x.probe()
        done("only-%d-stays" % keep, x)

    # 2. everybody leaves; sweeps until well after the expiration time (the store must end empty,
    #    nothing may go earlier than its last activity allows)
    x = _Ext(history, meta, info)
    x.drop_all()
    x.advance(E + 2 * P)
    x.final_sweep()
    done("everybody-leaves", x, quiesce=True)

    # 3. the process is restarted now (what was not committed is gone); every side returns, repeats
    #    its claim and open, the peers speak, then everybody closes
    x = _Ext(history, meta, info)
    x.restart()
    back = x.everybody_returns()
    x.probe()
    for b, c in back.items():
        for mb in x.v.opened.get(b, [])[:1]:
            x.recv(c, {"type": "close", "mailbox": mb, "mood": "happy"})
        for name in x.v.claimed.get(b, [])[:1]:
            x.recv(c, {"type": "release", "nameplate": name})
    x.probe()
    done("restart-and-return", x)

    # 4. the connected sides go on: a newcomer per application claims every name and opens every
    #    mailbox seen so far, everybody adds, then the old connections close and release
    x = _Ext(history, meta, info)
    live = sorted((c, b) for c, b in x.v.conns.items() if b is not None)
    for app in sorted({b[0] for b in x.v.binds}):
        c = x.connect(app, "amp-newcomer")
        for name in x.v.names.get(app, [])[:1]:
            x.recv(c, {"type": "claim", "nameplate": name})
        for mb in x.v.boxes.get(app, [])[:1]:
            x.recv(c, {"type": "open", "mailbox": mb})
    x.probe()
    for c, b in live:
        x.recv(c, {"type": "close", "mood": "happy"})
        x.recv(c, {"type": "release"})
    x.probe()
    x.advance(P)
    done("go-on", x)

    # 5. a short absence of everybody, shorter than the expiration time, then they return
    x = _Ext(history, meta, info)
    x.drop_all()
    x.advance(E - P - 8 * TICKS if E > P + 8 * TICKS else E // 2)
    x.everybody_returns()
    x.probe()
    x.advance(P)
    done("short-absence", x)
    return out
