"""Per-property configuration: theorems, observables compared between model and code,
generator profiles, oracles (including the two-run / metamorphic ones)."""
import os, json, copy, random
import proto

ALLOWED_AXIOMS = {"propext", "Classical.choice", "Quot.sound"}
FORBIDDEN = [r"\bsorry\b", r"\badmit\b", r"^\s*axiom\s", r"\bnative_decide\b", r"\bbv_decide\b", r"\bimplemented_by\b",
             r"\bunsafe\s", r"maxHeartbeats\s+0\b", r"\bopaque\s"]

CHAN = ["nameplates", "nameplate_sides", "mailboxes", "mailbox_sides", "messages", "nextnp"]

TRUSTED = [
    "Lean 4.33.0 kernel; axioms of every listed theorem are checked to be a subset of {propext, Classical.choice, Quot.sound}",
    "harness/translate.py (constants and SQL scripts -> Generated.lean, regenerated on every run)",
    "the hand-written model lean/Wormhole/{Store,Sys,Core,Ws}.lean, tied to the code by differential execution on generated histories (this run's counts are in coverage)",
    "the implementation runner harness/impl.py (fake transport, virtual clock, recording sqlite proxies, crash = reopen at last commit)",
    "SQLite (atomic durable commit, immediate FK/PK enforcement, type affinity), CPython, Twisted TimerService/LoopingCall, Autobahn framing: modelled, not verified",
]

G = {}   # general generator defaults per tier are applied in profiles_for


def _nt(key):
    return lambda stats: stats["triggers"].get(key, 0) > 0 or stats["ops"].get(key, 0) > 0


PROPS = {
    "C01": dict(level="exploration", obs_frames={"message", "error", "ack"}, obs_tables={"messages", "mailboxes"},
                nontrivial=_nt("message-delivered"), theorems=[], modules=[]),
    "C02": dict(level="exploration", obs_frames={"message", "error"}, obs_tables=set(), nontrivial=_nt("message-delivered"),
                theorems=[], modules=[]),
    "C03": dict(level="exploration", obs_frames={"claimed", "error"}, obs_tables={"nameplates", "nextnp"},
                nontrivial=_nt("recv:claim"), theorems=[], modules=[]),
    "C04": dict(level="exploration", obs_frames={"allocated", "error"}, obs_tables={"nameplates", "nameplate_sides"},
                nontrivial=_nt("recv:allocate"), theorems=[], modules=[]),
    "C05": dict(level="exploration", obs_frames={"claimed", "error", "message", "closed"}, obs_tables={"mailbox_sides", "nameplate_sides"},
                nontrivial=lambda s: s["errors"].get("crowded", 0) > 0, theorems=[], modules=[]),
    "C06": dict(level="exploration", obs_frames=None, obs_tables=set(CHAN), nontrivial=lambda s: s["apps"] >= 2, theorems=[], modules=[]),
    "C07": dict(level="exploration", obs_frames={"nameplates", "claimed", "released", "error", "allocated"},
                obs_tables={"nameplates", "nameplate_sides"}, nontrivial=_nt("nameplate-deleted"), theorems=[], modules=[]),
    "C08": dict(level="exploration", obs_frames={"closed", "error"}, obs_tables=set(CHAN), nontrivial=_nt("mailbox-deleted"),
                theorems=[], modules=[]),
    "C09": dict(level="exploration", obs_frames=None, obs_tables=set(CHAN), obs_commits=True, obs_synced=True, obs_usage=True,
                nontrivial=lambda s: s["n_ops"] > 5, theorems=[], modules=[]),
    "C10": dict(level="fault_enumeration", obs_frames=None, obs_tables=set(CHAN), obs_commits=True,
                nontrivial=lambda s: s["ops"].get("restart", 0) > 0, theorems=[], modules=[]),
    "C11": dict(level="exploration", obs_frames=None, obs_tables=set(CHAN), nontrivial=lambda s: s["ops"].get("restart", 0) > 0,
                theorems=[], modules=[]),
    "C12": dict(level="exploration", obs_frames={"message", "error"}, obs_tables=set(CHAN), nontrivial=_nt("sweep"), theorems=[], modules=[]),
    "C13": dict(level="exploration", obs_frames={"error"}, obs_tables=set(CHAN), nontrivial=_nt("sweep"), theorems=[], modules=[]),
    "C14": dict(level="exploration", obs_frames=None, obs_tables=set(CHAN), nontrivial=lambda s: s["n_ops"] > 5, theorems=[], modules=[]),
    "C15": dict(level="exploration", obs_frames=set(), obs_tables=set(), obs_usage=True, obs_misc="",
                nontrivial=lambda s: s["triggers"].get("mailbox-deleted", 0) + s["triggers"].get("nameplate-deleted", 0) > 0,
                theorems=[], modules=[]),
    "C16": dict(level="exploration", obs_frames=set(), obs_tables=set(), obs_usage=True, obs_misc="",
                nontrivial=lambda s: s["triggers"].get("mailbox-deleted", 0) + s["triggers"].get("nameplate-deleted", 0) > 0,
                theorems=[], modules=[]),
    "C17": dict(level="exploration", obs_frames=None, obs_tables=set(CHAN), obs_usage=True,
                nontrivial=lambda s: sum(v for k, v in s["errors"].items() if not k.startswith("internal")) > 0, theorems=[], modules=[]),
    "C18": dict(level="exploration", obs_frames=None, obs_tables=set(CHAN), nontrivial=_nt("recv:list"), theorems=[], modules=[]),
    "C19": dict(level="fault_enumeration", theorems=[], modules=[]),
    "C20": dict(level="fault_enumeration", theorems=[], modules=[]),
}
for _k in PROPS:
    if _k not in ("C19", "C20"):
        PROPS[_k]["registry_model"] = True      # both Lean machines (Sys and the registry machine RSys) are run against the code
for _p in PROPS.values():
    _p.setdefault("trusted_base", TRUSTED)
    _p.setdefault("assumptions", [
        "histories are well-formed: connection ids fresh, receive times non-decreasing, generated mailbox ids never seen before, identifier fields are strings",
        "times are multiples of 1/8 s so that Python float arithmetic is exact"])

_overrides_path = os.path.join(os.path.dirname(os.path.abspath(__file__)), "..", "lean", "theorems.json")
if os.path.exists(_overrides_path):
    for _k, _v in json.load(open(_overrides_path)).items():
        if _k in PROPS:
            PROPS[_k].update(_v)


def profiles_for(pid, tier):
    """-> list of (name, profile dict, number of histories)"""
    q = tier == "quick"
    N = (lambda a, b: a if q else b)
    base = dict(n_ops=45 if q else 70)
    three = dict(base, apps=["a", "b", "a2"], sides=["s1", "s2", "s3", "s4"])
    # identifiers that differ only by letter case, by Unicode normalisation form (NFC / NFD, Angstrom / A-ring), by width or by
    # surrounding blanks: the server must keep every one of them apart; scalars that look like numbers, hex, JSON, SQL wildcards
    look = dict(base, apps=["caf\u00e9", "cafe\u0301", "App", "app", "50%off"], sides=["a1b2", "A1B2", "s\u00e9", "se\u0301", "a1b2 "],
                names=["1", "\uff11", "ab", "AB", "\u00e9", "e\u0301", "1 ", ""], client_mailboxes=["mb", "MB", "m\u00e9", "me\u0301", ""],
                odd_scalars=True, twins=True)
    P = {
        "C01": [("backstep", dict(three, backstep=True, _impl_only=True, w_add=16, w_open=12, w_restart=2), N(40, 300)),
                ("bulk-expired", dict(_special="bulk", mode="expired"), N(1, 4)),
                ("lookalike", dict(look, w_add=16, w_open=12, w_sweep=2, w_restart=2), N(80, 600)),
                ("general", dict(three, w_add=16, w_open=12, w_sweep=3, w_restart=2), N(160, 1500)),
                ("reuse", dict(base, apps=["a", "b"], client_mailboxes=["m1"], names=["1"], w_add=14, w_open=12, w_close=12,
                               w_claim=3, w_allocate=0, w_sweep=4, w_restart=2), N(120, 1200)),
                ("ints", dict(base, int_ids=True, w_add=16, w_open=12), N(40, 300)),
                ("shared-ids", dict(base, apps=["a", "b"], shared_mailbox_ids=True, client_mailboxes=["m1", "m2"], w_add=16,
                                    w_open=14, w_claim=2, w_allocate=0), N(80, 600))],
        "C02": [("rescued-idle", dict(_special="rescued-idle"), N(30, 200)),
                ("bulk-apps", dict(_special="bulk-apps"), N(1, 3)),
                ("bulk-subscribed", dict(_special="bulk", mode="subscribed"), N(1, 4)),
                ("lookalike", dict(look, w_add=18, w_open=12, w_reconnect=6, w_restart=1), N(80, 600)),
                ("general", dict(three, w_add=18, w_open=12, w_reconnect=8, w_sweep=4, w_restart=2), N(160, 1500)),
                ("ints", dict(base, int_ids=True, w_add=18, w_open=12, w_reconnect=6), N(60, 400)),
                ("restart-sweep", dict(base, apps=["a"], sides=["s1", "s2"], client_mailboxes=["m1"], names=["1"], w_claim=2,
                                       w_allocate=0, w_add=16, w_open=14, w_close=3, w_sweep=8, w_restart=5, w_connect=10,
                                       w_bigjump=0), N(160, 1500)),
                ("shared-ids", dict(base, apps=["a", "b"], shared_mailbox_ids=True, client_mailboxes=["m1", "m2"], w_add=16,
                                    w_open=14, w_claim=2, w_allocate=0), N(80, 600))],
        "C03": [("rescued-idle", dict(_special="rescued-idle"), N(30, 200)),
                ("long-idle", dict(base, n_ops=30, apps=["a"], sides=["s1", "s2"], names=["1"], client_mailboxes=["m1"], w_claim=10, w_open=10,
                               w_sweep=14, w_bigjump=10, w_add=1, w_release=1, w_close=1, w_drop=1, w_reconnect=2, w_allocate=0,
                               w_malformed=0), N(80, 600)),
                ("claim-sweep-boundary", dict(_special="claim-sweep-boundary"), N(60, 400)),
                ("lookalike", dict(look, w_claim=16, w_release=8, w_close=6, w_restart=2), N(80, 600)),
                ("general", dict(three, w_claim=16, w_release=8, w_close=8, w_restart=2, w_sweep=3, names=["1", "2", "7"]), N(200, 2000)),
                ("late-claim", dict(_special="late-claim"), N(30, 200)),
                # one name, three sides, the nameplate's own mailbox in use (both holders open it and add) when a third
                # side's claim arrives: a claim must never retire / re-point a nameplate that is held
                ("third-after-traffic", dict(base, n_ops=40, apps=["a"], sides=["s1", "s2", "s3"], names=["1"], client_mailboxes=["m1"],
                                             w_claim=12, w_open=12, w_add=16, w_release=1, w_close=1, w_reconnect=6, w_connect=8,
                                             w_allocate=0, w_sweep=0, w_restart=1, w_malformed=0, w_bigjump=0, w_drop=1), N(160, 1500)),
                # one name, two or three sides, frequent restarts: whatever a command left uncommitted is lost at the
                # restart, and the claims that follow must still agree with the history
                ("small-restart", dict(base, n_ops=26, apps=["a"], sides=["s1", "s2", "s3"], names=["1"], client_mailboxes=["m1"],
                                       w_claim=16, w_release=16, w_restart=12, w_reconnect=8, w_connect=8, w_allocate=0, w_open=2,
                                       w_add=1, w_close=3, w_sweep=1, w_malformed=0, w_bigjump=0), N(240, 2000))],
        "C04": [("general", dict(three, w_allocate=14, w_claim=8, w_release=8, names=["1", "2", "3", "03", "٣", "12", "x", "²", "①", "4²", " 5", "+6"],
                                 w_sweep=2), N(160, 1500)),
                ("fill", dict(_special="fill"), N(24, 120)),
                ("alloc-paired", dict(_special="alloc-paired"), N(40, 300))],
        "C05": [("backstep", dict(base, backstep=True, _impl_only=True, apps=["a"], sides=["s1", "s2", "s3", "s4"], names=["1", "2"], client_mailboxes=["m1"], w_claim=12, w_open=12, w_close=8, w_release=6, w_add=10, w_reconnect=10), N(80, 600)),
                ("lookalike", dict(look, apps=["App"], names=["ab", "AB"], client_mailboxes=["mb"], w_claim=12, w_open=12, w_close=6, w_add=10, w_reconnect=8), N(80, 600)),
                ("third", dict(base, apps=["a"], sides=["s1", "s2", "s3", "s4"], names=["1", "2"], client_mailboxes=["m1"],
                               w_claim=12, w_open=12, w_close=8, w_release=6, w_add=10, w_reconnect=10, w_restart=1), N(220, 2000))],
        "C06": [("bulk-apps", dict(_special="bulk-apps"), N(1, 3)),
                ("lookalike", dict(look, w_sweep=3, w_restart=1, w_add=12, w_open=12), N(80, 600)),
                ("two-apps", dict(base, apps=["a", "b"], sides=["s1", "s2"], names=["1", "2"], client_mailboxes=["m1"], w_sweep=3,
                                  w_restart=1), N(120, 1000)),
                ("odd-strings", dict(base, apps=["a", "b", ""], sides=["s1", "", "s1 "], names=["1", ""], client_mailboxes=["m1", ""],
                                     w_malformed=8, w_add=12, w_open=10), N(80, 600)),
                ("id-reuse", dict(base, apps=["a", "b"], sides=["s1", "s2"], names=["1"], shared_mailbox_ids=True,
                                  client_mailboxes=["m1"], w_open=14, w_add=12, w_close=6, w_drop=8, w_sweep=6, w_bigjump=6,
                                  w_claim=2, w_allocate=0, w_restart=0), N(100, 800))],
        "C07": [("lookalike", dict(look, w_claim=14, w_release=12, w_close=8, w_list=8, w_reconnect=8), N(80, 600)),
                ("general", dict(three, w_claim=14, w_release=12, w_close=8, w_list=8, names=["1", "2", "7"], w_reconnect=8), N(200, 2000)),
                ("near-ids", dict(base, apps=["a", "b"], sides=["s1", "s2"], names=["1", "2", "12", "21"], p_near_ids=0.5, w_claim=12,
                                  w_open=14, w_close=14, w_release=6, w_list=6, w_add=4), N(120, 1000)),
                ("crowded-release", dict(base, apps=["a"], sides=["s1", "s2", "s3", "s4"], names=["1"], client_mailboxes=["m1"],
                                         w_claim=16, w_release=16, w_list=6, w_open=2, w_add=1, w_close=3, w_allocate=0,
                                         w_reconnect=8, w_connect=10), N(100, 800))],
        "C08": [("reclose-moods", dict(base, n_ops=30, usage=True, apps=["a"], sides=["s1", "s2"], names=["1"], client_mailboxes=["m1"], w_open=14, w_close=18, w_reconnect=10, w_connect=8, w_claim=3, w_release=2, w_allocate=0, w_add=3, w_sweep=1, w_malformed=0), N(60, 500)),
                ("lookalike", dict(look, w_close=14, w_open=12, w_claim=10, w_release=6, w_reconnect=8), N(80, 600)),
                ("general", dict(three, w_close=14, w_open=12, w_claim=10, w_release=6, w_reconnect=8, names=["1", "2"],
                                 sides=["s1", "s2"]), N(200, 2000)),
                ("third", dict(base, apps=["a"], sides=["s1", "s2", "s3"], names=["1"], client_mailboxes=["m1"], w_close=14,
                               w_open=12, w_claim=10), N(60, 500)),
                ("near-ids", dict(base, apps=["a", "b"], sides=["s1", "s2"], names=["1", "2", "12", "21"], p_near_ids=0.5, w_claim=12,
                                  w_open=14, w_close=14, w_release=6, w_add=8), N(100, 800))],
        "C09": [("bigints", dict(base, big_ints=True, int_ids=True, _impl_only=True, _mode={"reader": True}, w_add=18, w_open=14, w_close=3, usage=True), N(40, 300)),
                ("reader", dict(three, _mode={"reader": True}, w_sweep=4, w_restart=1, usage=True), N(80, 600)),
                ("reader-nousage", dict(three, _mode={"reader": True}, w_sweep=4, usage=False), N(60, 400))],
        "C10": [("crash", dict(three, w_crash=6, w_sweep=3, quiesce=True), N(160, 1500)),
                ("crash-usage", dict(base, w_crash=8, w_sweep=4, quiesce=True, usage=True), N(100, 1000)),
                ("resend", dict(three, n_ops=30, w_sweep=1, w_restart=1), N(60, 500)),
                ("resend-small", dict(base, n_ops=24, apps=["a"], sides=["s1", "s2", "s3"], names=["1"], client_mailboxes=["m1"],
                                      w_claim=12, w_release=12, w_open=12, w_close=12, w_add=4, w_reconnect=8, w_allocate=0,
                                      w_sweep=1, w_restart=0, w_malformed=0), N(60, 500))],
        "C11": [("backstep", dict(three, backstep=True, _impl_only=True, w_restart=5, w_sweep=4, w_reconnect=8), N(80, 600)),
                ("restart", dict(three, w_restart=5, w_sweep=5, w_reconnect=8), N(160, 1500)),
                ("small-world", dict(base, n_ops=60, apps=["a"], sides=["s1", "s2"], names=["1"], client_mailboxes=["m1"],
                                     w_open=14, w_close=12, w_add=8, w_reconnect=12, w_drop=6, w_claim=3, w_allocate=0,
                                     w_release=2, w_sweep=7, w_bigjump=5, w_restart=4), N(160, 1500))],
        "C12": [("rescued-idle", dict(_special="rescued-idle"), N(30, 200)),
                ("bulk-apps", dict(_special="bulk-apps"), N(1, 3)),
                ("claim-sweep-boundary", dict(_special="claim-sweep-boundary"), N(40, 300)),
                ("lookalike", dict(look, w_sweep=6, w_bigjump=4, w_add=10, w_open=10), N(60, 400)),
                ("bulk-subscribed", dict(_special="bulk", mode="subscribed"), N(1, 4)),
                ("timer", dict(three, _mode={"timer": True}, timer=True, w_sweep=6, w_crash=0, w_reconnect=6, w_bigjump=2), N(160, 1500)),
                ("direct", dict(three, w_sweep=8, w_bigjump=3), N(100, 800)),
                # usage blurring configured, the history crosses a multiple of the blur interval: recorded times are
                # coarse, expiry decisions must not be
                ("timer-blur-boundary", dict(three, _mode={"timer": True}, timer=True, start="boundary", usage=True, w_sweep=8, w_drop=6,
                                             w_reconnect=8, w_crash=0, w_restart=1), N(80, 600))],
        "C13": [("lookalike", dict(look, w_sweep=4, quiesce=True), N(60, 400)),
                ("bulk-expired", dict(_special="bulk", mode="expired"), N(1, 4)),
                ("timer-quiesce", dict(three, _mode={"timer": True}, timer=True, w_sweep=5, quiesce=True, p_fault=0.25), N(160, 1500)),
                ("crash-quiesce", dict(base, w_crash=4, w_sweep=4, quiesce=True, w_fault=2, usage=True), N(100, 800)),
                ("odd-apps-shared-ids", dict(base, apps=["a", "", "ü"], sides=["s1", "s2"], names=["1", ""], shared_mailbox_ids=True,
                                             client_mailboxes=["m1"], w_open=12, w_add=12, w_sweep=4, quiesce=True), N(100, 800))],
        "C14": [("lookalike", dict(look, n_ops=30, w_claim=12, w_release=12, w_open=12, w_close=12, w_reconnect=8), N(60, 400)),
                ("dup", dict(three, w_reconnect=6, w_sweep=2), N(120, 1000)),
                # one nameplate, one mailbox, three sides: the situations in which a duplicate matters (a second
                # side present, a crowded third, a nameplate still pointing at the mailbox, a mailbox already gone)
                ("small-world", dict(base, n_ops=30, apps=["a"], sides=["s1", "s2", "s3"], names=["1"], client_mailboxes=["m1"],
                                     w_claim=14, w_release=14, w_open=10, w_close=10, w_add=3, w_reconnect=10, w_connect=6,
                                     w_allocate=0, w_list=2, w_sweep=1, w_restart=1, w_malformed=0), N(100, 800))],
        "C15": [("reclose-moods", dict(base, n_ops=30, usage=True, apps=["a"], sides=["s1", "s2"], names=["1"], client_mailboxes=["m1"], w_open=14, w_close=18, w_reconnect=10, w_connect=8, w_claim=3, w_release=2, w_allocate=0, w_add=3, w_sweep=1, w_malformed=0), N(120, 1000)),
                ("usage", dict(three, usage=True, w_close=12, w_release=10, w_sweep=5, w_bigjump=3), N(200, 2000)),
                ("crowded-expiry", dict(base, usage=True, apps=["a"], sides=["s1", "s2", "s3", "s4"], names=["1"], client_mailboxes=["m1"],
                                        w_open=14, w_claim=12, w_close=8, w_add=4, w_release=4, quiesce=True), N(80, 600))],
        "C16": [("backstep", dict(three, backstep=True, _impl_only=True, usage=True, blur="rand", w_close=12, w_release=10, w_sweep=4, w_bigjump=2), N(80, 600)),
                ("blur", dict(three, usage=True, blur="rand", w_close=12, w_release=10, w_sweep=5, w_bigjump=3), N(200, 2000)),
                ("binds", dict(base, usage=True, blur="rand", w_connect=20, w_reconnect=10, p_badcv=0.3, w_restart=2, w_sweep=3,
                               w_bigjump=3), N(80, 600)),
                ("float-times", dict(_special="float-times"), N(60, 600)),
                ("crowded-expiry", dict(base, usage=True, blur="rand", apps=["a"], sides=["s1", "s2", "s3", "s4"], names=["1"],
                                        client_mailboxes=["m1"], w_open=14, w_claim=12, w_close=8, w_add=4, w_release=4, quiesce=True),
                 N(80, 600)),
                # a crash between the two commits of a first claim leaves a mailbox without side rows; its record
                # (written by the sweep that expires it) must be blurred like every other
                ("crash-blur", dict(base, usage=True, blur="rand", w_crash=9, w_claim=14, w_allocate=6, w_sweep=5, w_bigjump=4,
                                    quiesce=True), N(80, 600))],
        "C17": [("alloc-paired", dict(_special="alloc-paired"), N(40, 300)),
                ("bigints", dict(base, big_ints=True, int_ids=True, _impl_only=True, w_add=18, w_open=14, w_close=3), N(60, 400)),
                ("lookalike", dict(look, w_malformed=8, w_release=10, w_close=10, w_claim=10, w_open=10), N(80, 600)),
                ("malformed", dict(three, w_malformed=14), N(200, 2000)),
                ("odd-strings", dict(base, apps=["a", "", "ü"], sides=["s1", "", "s\u0000x"], names=["1", "", "ñ", "²", "①"], w_allocate=8,
                                     client_mailboxes=["m1", ""], w_malformed=8), N(80, 600)),
                ("general", dict(three, w_malformed=4, welcome=True, p_badcv=0.1), N(80, 600)),
                ("crowded-then", dict(base, apps=["a"], sides=["s1", "s2", "s3", "s4"], names=["1"], client_mailboxes=["m1"],
                                      w_claim=16, w_release=14, w_open=8, w_close=8, w_add=4, w_allocate=2, w_connect=10,
                                      w_malformed=3), N(100, 800))],
        "C18": [("configs", dict(three, w_list=8, w_allocate=8), N(100, 800))],
    }
    profs = P.get(pid, [])
    if profs:
        two_run = pid in ("C06", "C10", "C11", "C14", "C18")           # two-run oracles cost several runs per history
        L = 2 if q else (3 if two_run else 4)
        profs = profs + [("exhaustive-%d" % L, dict(_special="exhaustive", L=L, _exhaustive=True), len(EXH_SYMBOLS) ** L)]
    return profs


def special_history(pid, profile, seed):
    import gen
    kind = profile["_special"]
    r = random.Random(seed)
    if kind == "bulk":
        # more than a thousand mailboxes of one app in ONE sweep (batching limits such as SQLite's 999 bound variables):
        # "subscribed": every one has a connected subscriber and is idle past the expiration time - all must survive and
        #               stay deliverable; "expired": nobody is connected - all must go, and re-opening an id replays nothing
        mode = profile.get("mode") or r.choice(["subscribed", "expired"])
        n = profile.get("n", 1003)
        exp, per = info()["expirationTicks"], info()["periodTicks"]
        t = 8000
        usage = r.random() < 0.5
        h = [{"op": "cfg", "rebooted": t, "usage": usage, "allow_list": True, "blur": None}]
        for i in range(1, n + 1):
            h += [{"op": "connect", "c": i, "_nodump": True},
                  {"op": "recv", "c": i, "t": t, "msg": {"type": "bind", "appid": "a", "side": "s%d" % (i % 2)}, "_nodump": True},
                  {"op": "recv", "c": i, "t": t, "msg": {"type": "open", "mailbox": "bm%04d" % i}, "_nodump": True},
                  {"op": "recv", "c": i, "t": t, "msg": {"type": "add", "phase": "p", "body": "%04x" % i}, "_nodump": True}]
            if mode == "expired":
                h.append({"op": "drop", "c": i, "_nodump": True})
        c = n
        h[-1].pop("_nodump", None)          # the state before the sweep is observed
        t2 = t + exp + 8
        h.append({"op": "sweep", "now": t2, "fault": False})
        t3 = t2 + per
        h.append({"op": "sweep", "now": t3, "fault": False})
        if mode == "subscribed":
            # a second side joins every mailbox: it must get the stored message, and the first side the new one
            for i in list(range(1, n + 1, 97)) + [998, 999, 1000, n]:
                c += 1
                h += [{"op": "connect", "c": c, "_nodump": True},
                      {"op": "recv", "c": c, "t": t3 + 1, "msg": {"type": "bind", "appid": "a", "side": "s%d" % ((i + 1) % 2)}},
                      {"op": "recv", "c": c, "t": t3 + 1, "msg": {"type": "open", "mailbox": "bm%04d" % i}},
                      {"op": "recv", "c": c, "t": t3 + 1, "msg": {"type": "add", "phase": "q", "body": "ff"}}]
        else:
            for i in range(1, n + 1):
                c += 1
                h += [{"op": "connect", "c": c, "_nodump": True},
                      {"op": "recv", "c": c, "t": t3 + 1, "msg": {"type": "bind", "appid": "a", "side": "s%d" % (i % 2)}, "_nodump": True},
                      {"op": "recv", "c": c, "t": t3 + 1, "msg": {"type": "open", "mailbox": "bm%04d" % i}, "_nodump": True},
                      {"op": "drop", "c": c, "_nodump": True}]
            h[-1].pop("_nodump", None)
            t4 = t3 + 1 + exp + 8
            h.append({"op": "sweep", "now": t4, "fault": False})
            h.append({"op": "sweep", "now": t4 + per, "fault": False})
        return h, {}
    if kind == "claim-sweep-boundary":
        # the last use of a nameplate's mailbox falls INSIDE a second (times are in 1/8 s), and the sweep's cutoff lands in
        # the same second just before it (the channel is not old) or exactly on / just after it (it is old): only in the
        # latter case may a later claim be told a new mailbox id
        exp = info()["expirationTicks"]
        t = 8000 + r.randrange(0, 80)
        h = [{"op": "cfg", "rebooted": 8000, "usage": r.random() < 0.5, "allow_list": True, "blur": None}]
        app, name = r.choice(["a", "b"]), r.choice(["4", "x"])
        sides = ["s1", "s2"][:r.choice([1, 2])]
        c = 0
        last = t
        for sd in sides:
            c += 1
            last = last + r.randrange(1, 30)
            h += [{"op": "connect", "c": c},
                  {"op": "recv", "c": c, "t": last, "msg": {"type": "bind", "appid": app, "side": sd}},
                  {"op": "recv", "c": c, "t": last, "msg": {"type": "claim", "nameplate": name}, "fresh": "mbA"}]
            if r.random() < 0.5:
                last += r.randrange(0, 9)
                h.append({"op": "recv", "c": c, "t": last, "msg": {"type": "open", "mailbox": "mbA"}})
        if last % 8 == 0:
            last += r.randrange(1, 8)
            h.append({"op": "recv", "c": c, "t": last, "msg": {"type": "open", "mailbox": "mbA"}})
        for cc in range(1, c + 1):
            h.append({"op": "drop", "c": cc})
        old = last + r.choice([-(last % 8), -(last % 8) + 1 if last % 8 > 1 else -1, -1, -1, 0, 1])
        now = old + exp
        h.append({"op": "sweep", "now": now, "fault": False})
        if r.random() < 0.5:
            h.append({"op": "restart", "t": now + 1})
        for sd in sides + ["s1"]:
            c += 1
            h += [{"op": "connect", "c": c},
                  {"op": "recv", "c": c, "t": now + 2, "msg": {"type": "bind", "appid": app, "side": sd}},
                  {"op": "recv", "c": c, "t": now + 2, "msg": {"type": "claim", "nameplate": name}, "fresh": "mbB"}]
        return h, {}
    if kind == "rescued-idle":
        # a claimant stays connected, subscribed and silent across SEVERAL expiry periods: every sweep must keep its channel
        # (the first one rescues it through its listener, the later ones must still see that listener), and whoever claims
        # the nameplate or opens the mailbox afterwards meets it there
        exp, per = info()["expirationTicks"], info()["periodTicks"]
        t = 8000
        usage = r.random() < 0.5
        h = [{"op": "cfg", "rebooted": t, "usage": usage, "allow_list": True, "blur": None}]
        app, name = r.choice(["a", "b"]), r.choice(["4", "x"])
        h += [{"op": "connect", "c": 1},
              {"op": "recv", "c": 1, "t": t + 1, "msg": {"type": "bind", "appid": app, "side": "s1"}},
              {"op": "recv", "c": 1, "t": t + 2, "msg": {"type": "claim", "nameplate": name}, "fresh": "mbA"},
              {"op": "recv", "c": 1, "t": t + 3, "msg": {"type": "open", "mailbox": "mbA"}},
              {"op": "recv", "c": 1, "t": t + 4, "msg": {"type": "add", "phase": "pake", "body": "aa"}}]
        now = t + 4
        leaves = r.random() < 0.25            # control: the claimant leaves, then the channel may expire
        for k in range(r.choice([2, 3, 4])):
            now += exp + r.choice([1, 8, per, per + 3])
            if leaves and k == 1:
                h.append({"op": "drop", "c": 1})
            h.append({"op": "sweep", "now": now, "fault": False})
        if r.random() < 0.3:
            h.append({"op": "recv", "c": 1, "t": now + 1, "msg": {"type": "add", "phase": "late", "body": "bb"}})
        h += [{"op": "connect", "c": 2},
              {"op": "recv", "c": 2, "t": now + 2, "msg": {"type": "bind", "appid": app, "side": "s2"}},
              {"op": "recv", "c": 2, "t": now + 3, "msg": {"type": "claim", "nameplate": name}, "fresh": "mbB"},
              {"op": "recv", "c": 2, "t": now + 4, "msg": {"type": "open", "mailbox": r.choice(["mbA", "mbA", "mbB"])}},
              {"op": "recv", "c": 2, "t": now + 5, "msg": {"type": "add", "phase": "pake", "body": "cc"}}]
        return h, {}
    if kind == "bulk-apps":
        # more than a thousand OTHER apps come and go while app "b" has a silent subscriber: its namespace, its
        # subscription and its channel must be unaffected (registries bounded by a count, eviction, batching)
        n = profile.get("n", 1010)
        exp, per = info()["expirationTicks"], info()["periodTicks"]
        t = 8000
        h = [{"op": "cfg", "rebooted": t, "usage": r.random() < 0.5, "allow_list": True, "blur": None},
             {"op": "connect", "c": 1},
             {"op": "recv", "c": 1, "t": t, "msg": {"type": "bind", "appid": "b", "side": "s1"}},
             {"op": "recv", "c": 1, "t": t, "msg": {"type": "claim", "nameplate": "1"}, "fresh": "bmb"},
             {"op": "recv", "c": 1, "t": t, "msg": {"type": "open", "mailbox": "bmb"}},
             {"op": "recv", "c": 1, "t": t, "msg": {"type": "add", "phase": "p", "body": "00"}}]
        c = 1
        for i in range(n):
            c += 1
            h += [{"op": "connect", "c": c, "_nodump": True},
                  {"op": "recv", "c": c, "t": t + 1, "msg": {"type": "bind", "appid": "other%04d" % i, "side": "s1"}, "_nodump": True},
                  {"op": "recv", "c": c, "t": t + 1, "msg": {"type": "list"}, "_nodump": True},
                  {"op": "drop", "c": c, "_nodump": True}]
        h[-1].pop("_nodump", None)
        c += 1
        h += [{"op": "connect", "c": c},
              {"op": "recv", "c": c, "t": t + 2, "msg": {"type": "bind", "appid": "b", "side": "s2"}},
              {"op": "recv", "c": c, "t": t + 2, "msg": {"type": "open", "mailbox": "bmb"}},
              {"op": "recv", "c": c, "t": t + 2, "msg": {"type": "add", "phase": "q", "body": "01"}},
              {"op": "drop", "c": c},
              {"op": "sweep", "now": t + exp + 8, "fault": False},
              {"op": "sweep", "now": t + exp + 8 + per, "fault": False}]
        c += 1
        h += [{"op": "connect", "c": c},
              {"op": "recv", "c": c, "t": t + exp + 8 + per + 1, "msg": {"type": "bind", "appid": "b", "side": "s2"}},
              {"op": "recv", "c": c, "t": t + exp + 8 + per + 1, "msg": {"type": "open", "mailbox": "bmb"}},
              {"op": "recv", "c": c, "t": t + exp + 8 + per + 1, "msg": {"type": "add", "phase": "r", "body": "02"}}]
        return h, {}
    if kind == "fill":
        # fill 1..9 / 1..99 / 1..999 through the API, with holes, then allocate
        upto = r.choice([9, 9, 9, 9, 99, 99, 99, 999])
        holes = set(r.sample(range(1, upto + 1), r.choice([0, 1, 1, 2, 3])))
        t = 8000
        h = [{"op": "cfg", "rebooted": t, "usage": False, "allow_list": r.random() < 0.5, "blur": None}]
        c = 0
        for k in range(1, upto + 1):
            if k in holes:
                continue
            c += 1
            h.append({"op": "connect", "c": c})
            h.append({"op": "recv", "c": c, "t": t, "msg": {"type": "bind", "appid": "a", "side": "s%d" % (k % 3)}})
            h.append({"op": "recv", "c": c, "t": t, "msg": {"type": "claim", "nameplate": str(k)}, "fresh": "f%d" % k})
            h.append({"op": "drop", "c": c})
        junk = r.sample(["x", "0", "07", "٣", "00", "1x", "012", "abc", " 1", "²", "①"], r.choice([0, 1, 2, 3]))
        for hole in sorted(holes):
            # a non-canonical spelling of a free value must not make it look taken
            if r.random() < 0.6:
                junk.append(r.choice(["0%d", " %d", "+%d", "%d ", "00%d"]) % hole)
            if r.random() < 0.3:
                junk.append("".join(chr(0x0660 + int(ch)) for ch in str(hole)))     # Arabic-Indic digits
        for name in junk:
            c += 1
            h.append({"op": "connect", "c": c})
            h.append({"op": "recv", "c": c, "t": t, "msg": {"type": "bind", "appid": "a", "side": "j"}})
            h.append({"op": "recv", "c": c, "t": t, "msg": {"type": "claim", "nameplate": name}, "fresh": "j%d" % c})
            h.append({"op": "drop", "c": c})
        for o in h[1:]:
            o["_nodump"] = True
        if len(h) > 1:
            h[-1].pop("_nodump")
        for j in range(3):
            c += 1
            h.append({"op": "connect", "c": c})
            h.append({"op": "recv", "c": c, "t": t + j, "msg": {"type": "bind", "appid": "a", "side": "z"}})
            draws = [r.choice([5, 1000, 1001, 999999, 123456]) for _ in range(r.choice([0, 3]))]
            h.append({"op": "recv", "c": c, "t": t + j, "msg": {"type": "allocate"}, "fresh": "g%d" % j,
                      "pick": r.randrange(1000), "draws": draws})
        return h, {}
    if kind == "exhaustive":
        return exhaustive_history(profile["L"], profile["_index"]), {}
    if kind == "alloc-paired":
        # allocated nameplates that already have their second side must still count as taken
        t = 8000
        h = [{"op": "cfg", "rebooted": t, "usage": r.random() < 0.5, "allow_list": r.random() < 0.5, "blur": None}]
        n = r.randrange(2, 9)
        c = 0
        for k in range(1, n + 1):                     # pick 0 = the smallest free name: "1", "2", ...
            c += 1
            h += [{"op": "connect", "c": c},
                  {"op": "recv", "c": c, "t": t + k, "msg": {"type": "bind", "appid": "a", "side": "A%d" % k}},
                  {"op": "recv", "c": c, "t": t + k, "msg": {"type": "allocate"}, "fresh": "am%d" % k, "pick": 0, "draws": []}]
            if r.random() < 0.7:                       # the partner arrives
                c += 1
                h += [{"op": "connect", "c": c},
                      {"op": "recv", "c": c, "t": t + k, "msg": {"type": "bind", "appid": "a", "side": "B%d" % k}},
                      {"op": "recv", "c": c, "t": t + k, "msg": {"type": "claim", "nameplate": str(k)}, "fresh": "unused%d" % k}]
        for j in range(r.randrange(1, 4)):
            c += 1
            h += [{"op": "connect", "c": c},
                  {"op": "recv", "c": c, "t": t + 50 + j, "msg": {"type": "bind", "appid": "a", "side": r.choice(["Z%d" % j, "A1", "B1"])}},
                  {"op": "recv", "c": c, "t": t + 50 + j, "msg": {"type": "allocate"}, "fresh": "late%d" % j,
                   "pick": r.randrange(100), "draws": []}]
        return h, {}
    if kind == "float-times":
        # arrival times that are NOT multiples of 1/8 s (arbitrary doubles): implementation only, oracle only
        b = r.choice([1, 7, 20, 60, 100, 777, 3600, 86400, r.randrange(1, 5000)])
        t = 1.6e9 + r.random() * 1e6
        ft = lambda: t * proto.TICKS
        h = [{"op": "cfg", "rebooted": int(t) * proto.TICKS, "usage": True, "allow_list": True, "blur": b}]
        c = 0
        for k in range(r.randrange(2, 6)):
            t += r.random() * r.choice([0.001, 1.0, 30.0, 500.0])
            c += 1
            side = "s%d" % (k % 2)
            h += [{"op": "connect", "c": c},
                  {"op": "recv", "c": c, "t": ft(), "msg": {"type": "bind", "appid": "a", "side": side, "client_version": ["py", "1"]}}]
            t += r.random()
            name = str(r.randrange(1, 4))
            h.append({"op": "recv", "c": c, "t": ft(), "msg": {"type": "claim", "nameplate": name}, "fresh": "mb-%s" % name})
            t += r.random() * 3
            h.append({"op": "recv", "c": c, "t": ft(), "msg": {"type": "open", "mailbox": "mb-%s" % name}})
            t += r.random() * 3
            if r.random() < 0.7:
                h.append({"op": "recv", "c": c, "t": ft(), "msg": {"type": "release", "nameplate": name}})
            t += r.random() * 3
            if r.random() < 0.6:
                h.append({"op": "recv", "c": c, "t": ft(), "msg": {"type": "close", "mood": r.choice(["happy", "scary", None])}})
            if r.random() < 0.5:
                h.append({"op": "drop", "c": c})
        t += info()["expirationTicks"] / proto.TICKS + r.random() * 100
        h.append({"op": "sweep", "now": ft(), "fault": False})
        return h, {"impl_only": True, "float_times": True}
    if kind == "late-claim":
        # allocate, the nameplate is retired behind the allocator's back, somebody re-creates the
        # name, and only then the allocator claims it
        t = 8000
        usage = r.random() < 0.5
        h = [{"op": "cfg", "rebooted": t, "usage": usage, "allow_list": r.random() < 0.5, "blur": None}]
        app = r.choice(["a", "b"])
        pre = r.randrange(0, 3)           # names already taken, so the allocation is not always "1"
        c = 0
        for k in range(1, pre + 1):
            c += 1
            h += [{"op": "connect", "c": c},
                  {"op": "recv", "c": c, "t": t, "msg": {"type": "bind", "appid": app, "side": "p"}},
                  {"op": "recv", "c": c, "t": t, "msg": {"type": "claim", "nameplate": str(k)}, "fresh": "pre%d" % k}]
        name = str(pre + 1)
        c1 = c + 1
        h += [{"op": "connect", "c": c1},
              {"op": "recv", "c": c1, "t": t + 8, "msg": {"type": "bind", "appid": app, "side": "s1"}},
              {"op": "recv", "c": c1, "t": t + 8, "msg": {"type": "allocate"}, "fresh": "alloc-mb", "pick": 0, "draws": []}]
        how = r.choice(["sweep", "close", "release"])
        t2 = t + 16
        if how == "sweep":
            t2 = t + 8 + info()["expirationTicks"] + r.choice([0, 1, 50]) * proto.TICKS
            h.append({"op": "sweep", "now": t2, "fault": False})
        elif how == "close":
            h += [{"op": "connect", "c": c1 + 1},
                  {"op": "recv", "c": c1 + 1, "t": t2, "msg": {"type": "bind", "appid": app, "side": "s1"}},
                  {"op": "recv", "c": c1 + 1, "t": t2, "msg": {"type": "close", "mailbox": "alloc-mb", "mood": "lonely"}}]
        else:
            h += [{"op": "connect", "c": c1 + 1},
                  {"op": "recv", "c": c1 + 1, "t": t2, "msg": {"type": "bind", "appid": app, "side": "s1"}},
                  {"op": "recv", "c": c1 + 1, "t": t2, "msg": {"type": "release", "nameplate": name}}]
        if r.random() < 0.3:
            h.append({"op": "restart", "t": t2 + 8})     # the allocator must then reconnect
            h += [{"op": "connect", "c": c1 + 5},
                  {"op": "recv", "c": c1 + 5, "t": t2 + 8, "msg": {"type": "bind", "appid": app, "side": "s1"}}]
            late = c1 + 5
        else:
            late = c1
        h += [{"op": "connect", "c": c1 + 2},
              {"op": "recv", "c": c1 + 2, "t": t2 + 16, "msg": {"type": "bind", "appid": app, "side": "s2"}},
              {"op": "recv", "c": c1 + 2, "t": t2 + 16, "msg": {"type": "claim", "nameplate": name}, "fresh": "second-mb"},
              {"op": "recv", "c": late, "t": t2 + 24, "msg": {"type": "claim", "nameplate": name}, "fresh": "third-mb"},
              {"op": "recv", "c": late, "t": t2 + 32, "msg": {"type": "open", "mailbox": "second-mb"}},
              {"op": "recv", "c": c1 + 2, "t": t2 + 40, "msg": {"type": "list"}}]
        return h, {}
    raise ValueError(kind)


EXH_SYMBOLS = [(k, a) for k in (1, 2) for a in ("claim", "release", "open", "add", "close", "reconnect")] + \
              [(3, "claim"), (3, "open"), (0, "sweep-soon"), (0, "sweep-late"), (0, "restart")]


def exhaustive_history(L, index):
    """the index-th word of length L over EXH_SYMBOLS (three connections of sides s1 s2 s3 in one app, one
    nameplate, the mailbox it leads to, sweeps before/after expiry, restart), as a history"""
    word = []
    x = index
    for _ in range(L):
        word.append(EXH_SYMBOLS[x % len(EXH_SYMBOLS)])
        x //= len(EXH_SYMBOLS)
    E = info()["expirationTicks"]
    t = 8000
    h = [{"op": "cfg", "rebooted": t, "usage": True, "allow_list": True, "blur": None}]
    cid = {1: 1, 2: 2, 3: 3}
    gen = {1: 0, 2: 0, 3: 0}

    def join(k):
        h.append({"op": "connect", "c": cid[k]})
        h.append({"op": "recv", "c": cid[k], "t": t, "msg": {"type": "bind", "appid": "a", "side": "s%d" % k}})
    for k in (1, 2, 3):
        join(k)
    first_claim = None
    for pos, (k, a) in enumerate(word):
        t += 8
        target = first_claim or "m"
        if a == "claim":
            f = "f%d" % pos
            first_claim = first_claim or f
            h.append({"op": "recv", "c": cid[k], "t": t, "msg": {"type": "claim", "nameplate": "1"}, "fresh": f})
        elif a == "release":
            h.append({"op": "recv", "c": cid[k], "t": t, "msg": {"type": "release", "nameplate": "1"}})
        elif a == "open":
            h.append({"op": "recv", "c": cid[k], "t": t, "msg": {"type": "open", "mailbox": target}})
        elif a == "add":
            h.append({"op": "recv", "c": cid[k], "t": t, "msg": {"type": "add", "phase": "p%d" % pos, "body": "00"}})
        elif a == "close":
            h.append({"op": "recv", "c": cid[k], "t": t, "msg": {"type": "close", "mailbox": target, "mood": "happy"}})
        elif a == "reconnect":
            h.append({"op": "drop", "c": cid[k]})
            gen[k] += 1
            cid[k] = k + 10 * gen[k]
            join(k)
        elif a == "sweep-soon":
            t += 60 * proto.TICKS
            h.append({"op": "sweep", "now": t, "fault": False})
        elif a == "sweep-late":
            t += E + proto.TICKS
            h.append({"op": "sweep", "now": t, "fault": False})
        elif a == "restart":
            h.append({"op": "restart", "t": t})
            for kk in (1, 2, 3):
                gen[kk] += 1
                cid[kk] = kk + 10 * gen[kk]
                join(kk)
    return h


# ----------------------------------------------------------------------------------- oracles
def _translate_info():
    import translate
    _, info = translate.generate()
    return info


_INFO = None


def info():
    global _INFO
    if _INFO is None:
        _INFO = _translate_info()
    return _INFO


def run_oracles(pid, tr, meta):
    import oracles as O
    try:
        return _run_oracles(pid, tr, meta)
    except Exception as e:
        # the oracle met data it has no reading for (e.g. a NULL where the schema's own writers
        # always put a number): the implementation left the domain the property speaks about
        import traceback
        return [O.Finding(pid, "the implementation produced a state or answer outside the domain of the property's oracle", -1,
                          {"exception": "%s: %s" % (type(e).__name__, e), "where": traceback.format_exc()[-500:]})]


def _run_oracles(pid, tr, meta):
    import oracles as O
    import metamorphic as M
    f = []
    rng = random.Random(meta.get("seed", 0) ^ 0x5eed)
    thorough = meta.get("tier") == "thorough"
    H = meta["_history"]
    if pid == "C01":
        f += O.check_C01(tr)
    elif pid == "C02":
        f += O.check_C02(tr)
        # a subscriber that arrives late gets the message by replay: unmodified, like a live delivery
        for x in O.check_C01(tr):
            if x.clause == "replay = messages added since the mailbox's last deletion":
                x.prop = "C02"
                x.clause = "a message delivered by replay is unmodified (side, phase, body, id as added)"
                f.append(x)
    elif pid == "C03":
        f += O.check_C03(tr, info()["expirationTicks"])
    elif pid == "C04":
        f += O.check_C04(tr, info()["alloc"])
    elif pid == "C05":
        f += O.check_C05(tr)
    elif pid == "C06":
        f += M.check_C06(tr, H, meta, rng)
    elif pid == "C11":
        f += M.check_C11(tr, H, meta, rng)
    elif pid == "C14":
        f += M.check_C14(tr, H, meta, rng, thorough)
    elif pid == "C07":
        f += O.check_C07(tr)
    elif pid == "C08":
        f += O.check_C08(tr)
    elif pid == "C09":
        f += O.check_C09(tr)
    elif pid == "C10":
        f += O.check_C10(tr)
        if tr.quiesced:
            f += [x for x in O.check_C13(tr, info()["expirationTicks"]) if "empty" in x.clause]
            for x in f:
                x.prop = "C10"
        if not tr.has_crash or meta.get("resend"):
            f += M.check_C10_resend(tr, H, meta, rng, thorough)
    elif pid == "C12":
        f += O.check_C12(tr, info()["expirationTicks"])
    elif pid == "C13":
        f += O.check_C13(tr, info()["expirationTicks"])
    elif pid == "C15":
        f += O.check_C15(tr)
    elif pid == "C16":
        f += O.check_C16_float(tr) if meta.get("float_times") else O.check_C16(tr)
    elif pid == "C17":
        f += O.check_C17(tr, welcome=json.loads(proto.welcome_json(tr.cfg)))
    elif pid == "C18":
        f += O.check_C18_list(tr)
        f += M.check_C18(tr, H, meta, rng, thorough)
    return f


def engine_for(pid):
    if pid in ("C19", "C20"):
        def eng(pid, tier, seed):
            import dbfiles_engine
            return dbfiles_engine.run(pid, tier, seed)
        return eng
    return None


# ----------------------------------------------------------------------------------- manifest texts
NOT_APPLICABLE = {}

_T = ("Lean 4 proof over an executable model whose data layer (SQL statements), websocket layer (onMessage + handlers), Mailbox/AppNamespace/"
      "Server method bodies (open, close, add/get_messages, claim/release/allocate, open_mailbox, usage writers, prune_all_apps, dump_stats), "
      "usage summaries and sweep timer "
      "are proved equal to translations regenerated from the source on every run + differential correspondence model<->code + property "
      "oracle on implementation traces")
NOTES = {pid: {"technique": _T, "text": "", "note": ""} for pid in PROPS}


def _n(pid, text, note, technique=None):
    NOTES[pid]["text"] = text
    NOTES[pid]["note"] = note
    if technique:
        NOTES[pid]["technique"] = technique


_TIE = ("Trusted: Lean kernel (axioms of every listed theorem checked to be within propext/Classical.choice/Quot.sound; thorough tier re-checks "
        "the modules with leanchecker), the translators (translate.py: constants, allocation ranges, the statements of _find_available_nameplate_id (as the Lean definition genFindAvailable), schema scripts; translate_sql.py: the 49 "
        "SQL statements of server.py; translate_ws.py / translate_wsbody.py: onMessage and all handle_* of server_websocket.py; "
        "translate_summ.py: the two usage-summary functions; translate_tap.py: expire()/TimerService; translate_srv.py: the bodies of twenty "
        "methods of Mailbox/AppNamespace/Server - everything the websocket handlers and the sweep call except AppNamespace.prune; "
        "translate_wire.py: constructors and construction sites from makeService down, the option table) with the "
        "semantics Lean gives their output (Sql.lean, WsGuards.lean, PyWs.lean, PySum.lean, PyTap.lean, PySrv.lean, Wire.lean) - for those parts the model is PROVED equal to the translation of the current source on every run (Tie/*.lean, "
        "e.g. onMessage_eq_reach); the rest of the hand-written model (AppNamespace.prune, the registries of objects/listeners, onOpen/onClose, database.py) is tied "
        "to the code by differential execution on generated histories every run, not proved; impl.py runner; SQLite/CPython/Twisted/Autobahn "
        "modelled, not verified. Environment assumptions are exactly the fields of GSys.WFOp (fresh connection ids, monotone time, fresh "
        "generated mailbox ids).")
_PENDING = "differential correspondence with Lean model + history oracle on implementation traces (theorems in progress)"
_n("C01", "Theorems for every well-formed history incl. crashes: an accepted add appends exactly one row (side from the bind); every other step leaves a mailbox's messages unchanged or, when the mailbox row is gone, empty; an accepted open replays exactly the stored rows; hence (ghost log reset at deletion) C01_replay_exact'. K-id-coercion: exact for non-integer ids/phases, counterexample theorem for integers. Code side: correspondence + oracle recomputing every replay from the history alone.", _TIE)
_n("C02", "Theorems: an accepted add emits exactly one unmodified frame per listener, each once, nobody else (C02_fanout_exact, C02_exactly_once, C02_no_other); who enters/leaves the listener set in every kind of step, sweeps and binds never (C02_listeners_*), ghost subscriber characterisation over histories (C02_subscribers'). The registry of AppNamespace/Mailbox objects is modelled separately (Wormhole/Reg.lean) and PROVED to refine the object-free model for every well-formed history (Reg_refines_Sys; counterexample theorem for the pre-repair caching variant); both models are run against the code. Code side: correspondence + oracle recomputing the subscriber set of every add from the history.", _TIE)
_n("C03", "Theorems: a nameplate row's mailbox never changes while the row (id) exists, ids are never reused, all claimed answers within one incarnation agree (C03_same_mailbox'), rows with different ids have different mailboxes at all times of a history under fresh generated ids (C03_distinct', C03_distinct_answers'); repeated claim answered claimed with the same id _partial (K-crowded-rejoin; counterexample theorem). Code side: correspondence + oracle over all claimed answers.", _TIE)
_n("C04", 'Theorems: the selection function for every set of names, every random choice and draw sequence (free, canonical decimal, shortest available, exhaustion iff) against translator-regenerated constants; C04_allocate_spec_reach: from every reachable state a non-rejected allocate outputs ack, commits, allocated n with the claim of the allocating side already ON DISK, independent of the listing option; C04_not_reissued; ValueError only on exhaustion (K-alloc-exhaust). Code side: oracle on implementation dumps incl. filled 1-9/1-99/1-999 states with non-canonical spellings of the free values.', _TIE)
_n("C05", "Theorems: a side outside the first two (or any side once there are more than two rows) gets exactly ack+crowded from open/close/claim, no message, no handle, identically on every retry; side rows only grow and are deleted only with the mailbox; first2 is frozen; every subscriber and every message recipient of an incarnation is a first-two side over whole histories (C05_ever_subscribed_reach, C05_message_to_first2); at most two sides are answered claimed per nameplate row (C05_nameplate_two_reach); a refused attempt changes nothing of the others (C05_keep_partial); K-crowded-rejoin counterexample theorem. Code side: correspondence + oracle with ghost first-two sides.", _TIE)
_n("C06", "Theorems: a command of another app leaves every row, usage row and connection of app b unchanged and sends b nothing (C06_frame_recv, no extra hypothesis); a sweep's effect on b is determined by b's rows alone (C06_frame_sweep); full noninterference for every crash-free well-formed history: the run with the other apps' commands removed sends b the same frames step by step and ends with the same view of b (C06_noninterference_partial), under the semantic guard that b never names a mailbox id existing only under another app (K-global-mailbox-id; counterexample theorem). Code side: two-run oracle history vs history-minus-other-apps, incl. empty-string ids.", _TIE, 'Lean 4 simulation proof + two-run (metamorphic) oracle on the implementation')
_n("C07", "Theorems for every step from any invariant state, crashes included: a claim is added only by its side's claim/allocate, removed (nameplate surviving) only by its side's release, a nameplate is deleted only by a last release / a close deleting its mailbox / a sweep (C07_claims_change_only_by_owner and corollaries), listed iff held, release total and idempotent, reclaimed changes nothing, reusable afterwards. Code side: correspondence + oracle on the claims relation around every step.", _TIE)
_n("C08", "Theorems: exact output and post-state of every non-rejected close (C08_close_spec_reach): closed answered; another side open -> only the closer's row changes; else exactly the mailbox, its messages, sides, nameplates and their sides are gone and every other row of every table is unchanged (C08_close_frame), remaining listeners dropped; a mailbox with an OPENED side row survives every non-sweep op except that side's own last close, crashes included (C08_alive_while_open); re-close of a gone mailbox leaves the channel db equal and writes one phantom usage row (C08_reclose_gone_usage, K-reclose-usage-row); re-close of a surviving one _partial (K-close-touch, K-crowded-rejoin); a side that closed and re-opened stays `opened = false` (C08_reopen_keeps_closed; K-reopen-after-close with counterexample and the exact guard C08_alive_while_subscribed_partial). Code side: correspondence + oracle on implementation dumps and on the history-only ghost of who is subscribed.", _TIE)
_n("C09", "Theorems: C09_frames_synced_all (every frame of every well-formed history, crashes included, every configuration, leaves with both databases committed) and C09_ack_durable (for every frame: the files a crash right after it restores hold exactly the state the server was acting on when it sent it). Code side: an independent second reader of the database FILES is compared with the server's own view at every sendMessage.", _TIE + " Durability of a SQLite commit itself (fsync/journal) is trusted.")
_n("C10", "Theorems: the global invariant (every key unique, every foreign key resolved, >= 1 side per nameplate, connection records consistent, nothing uncommitted) in every state of every well-formed history with crashes at any commit boundary of any command or sweep; every snapshot a kill can leave satisfies it (C10_crash_state_wf); sweeps after crashes never fail, the store empties (C13_quiesce_reach); C10_resend_converges_partial': after a crash at any commit of claim/release/open/close, restart, reconnect and re-send give the same answer and the same five tables (close: modulo K-close-touch / K-crowded-rejoin, with counterexample theorems). Code side: every commit boundary of crash-profile histories crashed and restarted through the real start-up path, re-send two-run oracle, simulated crashes validated against real os._exit kills.", _TIE + " SQLite's atomic commit is trusted.", 'Lean 4 proof (global invariant at every commit point, re-send convergence) + fault enumeration over commit boundaries with correspondence')
_n("C11", "Theorem C11_restart_invisible: for all crash-free H1, H2: frames and all channel + usage record tables of H1++dropAll++[restart]++H2 equal those without the restart (only the status row's reboot time differs). The registry of AppNamespace/Mailbox objects is modelled separately (Wormhole/Reg.lean) and PROVED to refine the object-free model for every well-formed history (Reg_refines_Sys; counterexample theorem for the pre-repair caching variant); both models are run against the code. Code side: two-run oracle comparing a rebuilt server with a kept one on the same history.", _TIE, 'Lean 4 simulation proofs (restart invisibility; registry refinement) + two-run (kept vs rebuilt server) oracle on the implementation')
_n("C12", "Theorems: a sweep keeps every mailbox that is subscribed or whose updated is within the expiration time, with all its rows; deletes only old unsubscribed ones and nothing of another mailbox/app; activity stamps updated; connected forever; grace arithmetic with the regenerated constants; the registry's touch loop touches exactly the listened mailboxes (Reg_sweep_touches_reach). The registry of AppNamespace/Mailbox objects is modelled separately (Wormhole/Reg.lean) and PROVED to refine the object-free model for every well-formed history (Reg_refines_Sys; counterexample theorem for the pre-repair caching variant); both models are run against the code. Code side: real TimerService on a virtual clock, oracle with ghost activity/subscribers.", _TIE)
_n("C13", 'Theorems: sweep completeness in every app; C13_empty_on_schedule / C13_empty_by_T_E_P: from any reachable state (crashes included) with nobody connected and all activity <= T, under firings every period (any fault pattern) the first non-faulted firing at or after T + expiration - which exists before T + expiration + period - leaves the five tables empty; a faulted firing changes nothing. The period enters as the schedule `firingAt f0 i`; the real TimerService is exercised on a virtual clock, not modelled. Code side: timer-driven histories with faults, emptiness oracle measured from the last moment somebody was connected.', _TIE)
_n("C14", "Theorems: idempotence of claim/release/open/close at function level; C14_duplicate_harmless_partial (H1 may contain crashes, tail crash-free): same answer, all later frames and final channel state equal, for claim/release/open and close of a mailbox that is deleted; C14_close_survives_run: the ordinary surviving close under any tail whose sweeps do not separate the two stamps (SweepsOK; tight by counterexample): everything equal modulo that row's `updated` (K-close-touch); K-crowded-rejoin guard with counterexamples. Code side: two-run oracle duplicating every successful claim/release/open/close, also after a server restart.", _TIE, 'Lean 4 simulation proofs + two-run (metamorphic) oracle on the implementation')
_n("C15", 'Theorems: classification and time fields of both summary functions for every list of side rows and both values of pruned; C15_one_record_each: in every non-crash step from an invariant state the usage nameplate/mailbox records appended are, up to order, exactly the summaries of the rows the step retired (incl. the mailbox a close creates and deletes within one step), client rows exactly one per accepted bind, nothing ever removed; records = retirements over histories; status row = number of listening connections. Code side: retirement oracle on dumps with an independent classifier.', _TIE)
_n("C16", 'Theorems: floor/multiple/less-than-one-interval for every interval, tick rate and time; C16_all_rows_blurred: in every reachable state (crashes included) every started/connect time in the usage database is a multiple of the interval; C16_records_close_to_truth: each new record lies less than one interval before the true time. Code side: rows vs true virtual times for random intervals, unindexable client_version shapes, and arbitrary double-precision times (implementation only).', _TIE)
_n("C17", "Theorems for every state: welcome, ack first, ping/pong, the complete enumeration of rejected situations with exact output and whole-state unchanged (C17_validation_error, C17_validation_complete); from reachable states an internal failure has one of three named causes only (C17_internal_only_known; counterexample theorems for K-global-mailbox-id and K-alloc-exhaust). Code side: oracle with ghost protocol flags, malformed stream from every connection state, odd strings.", _TIE)
_n("C18", "Theorems: C18_list_answer (sorted distinct names of the caller's app, or [] when disallowed) and C18_config_independent (erased traces and channel db equal for any two configurations, every crash-free history). Code side: the same history run under other configurations and compared.", _TIE)
_n("C19", "Theorems over a step model of database.py (every crash prefix, every pre-existing content class): create atomic, keep, reject unchanged, create-only, open-only; the schema statement lists are the translator's. Code side: real subprocesses killed with os._exit at every file-system call and SQL statement, directory compared with the property's demands and with the model's prediction.",
   _TIE + " Atomic rename, SQLite transaction atomicity and executescript semantics are assumptions of the step semantics.",
   "Lean 4 proof over a step model of database.py + real-kill fault enumeration with model diff")
_n("C20", "Theorems: upgrade script applied to v1 objects = v2 objects (decide over the regenerated SQL), rows kept, backup, retry after any crash prefix. Code side: real kills inside the upgrade on random v1 databases; sqlite_master, row multisets and backup bytes compared.",
   _TIE + " Same assumptions as C19.", "Lean 4 proof over a step model of database.py + real-kill fault enumeration with model diff")
