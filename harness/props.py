"""Per-property configuration: theorems, observables compared between model and code,
generator profiles, oracles (including the two-run / metamorphic ones)."""
import os, json, copy, random
import proto

ALLOWED_AXIOMS = {"propext", "Classical.choice", "Quot.sound"}
FORBIDDEN = [r"\bsorry\b", r"\badmit\b", r"^\s*axiom\s", r"\bnative_decide\b", r"\bbv_decide\b", r"\bimplemented_by\b",
             r"\bunsafe\s", r"maxHeartbeats\s+0\b", r"\bopaque\s"]

CHAN = ["nameplates", "nameplate_sides", "mailboxes", "mailbox_sides", "messages", "nextnp"]

TRUSTED = [
    "Lean 4.33.0 kernel; axioms of every listed theorem are checked to be a subset of {propext, Classical.choice, Quot.sound}",
    "harness/translate.py (constants and SQL scripts -> Generated.lean, regenerated on every run)",
    "the hand-written model lean/Wormhole/{Store,Sys,Core,Ws}.lean, tied to the code by differential execution on generated histories (this run's counts are in coverage)",
    "the implementation runner harness/impl.py (fake transport, virtual clock, recording sqlite proxies, crash = reopen at last commit)",
    "SQLite (atomic durable commit, immediate FK/PK enforcement, type affinity), CPython, Twisted TimerService/LoopingCall, Autobahn framing: modelled, not verified",
]

G = {}   # general generator defaults per tier are applied in profiles_for


def _nt(key):
    return lambda stats: stats["triggers"].get(key, 0) > 0 or stats["ops"].get(key, 0) > 0


PROPS = {
    "C01": dict(level="exploration", obs_frames={"message", "error", "ack"}, obs_tables={"messages", "mailboxes"},
                nontrivial=_nt("message-delivered"), theorems=[], modules=[]),
    "C02": dict(level="exploration", obs_frames={"message", "error"}, obs_tables=set(), nontrivial=_nt("message-delivered"),
                theorems=[], modules=[]),
    "C03": dict(level="exploration", obs_frames={"claimed", "error"}, obs_tables={"nameplates", "nextnp"},
                nontrivial=_nt("recv:claim"), theorems=[], modules=[]),
    "C04": dict(level="exploration", obs_frames={"allocated", "error"}, obs_tables={"nameplates", "nameplate_sides"},
                nontrivial=_nt("recv:allocate"), theorems=[], modules=[]),
    "C05": dict(level="exploration", obs_frames={"claimed", "error", "message", "closed"}, obs_tables={"mailbox_sides", "nameplate_sides"},
                nontrivial=lambda s: s["errors"].get("crowded", 0) > 0, theorems=[], modules=[]),
    "C06": dict(level="exploration", obs_frames=None, obs_tables=set(CHAN), nontrivial=lambda s: s["apps"] >= 2, theorems=[], modules=[]),
    "C07": dict(level="exploration", obs_frames={"nameplates", "claimed", "released", "error", "allocated"},
                obs_tables={"nameplates", "nameplate_sides"}, nontrivial=_nt("nameplate-deleted"), theorems=[], modules=[]),
    "C08": dict(level="exploration", obs_frames={"closed", "error"}, obs_tables=set(CHAN), nontrivial=_nt("mailbox-deleted"),
                theorems=[], modules=[]),
    "C09": dict(level="exploration", obs_frames=None, obs_tables=set(CHAN), obs_commits=True, obs_synced=True, obs_usage=True,
                nontrivial=lambda s: s["n_ops"] > 5, theorems=[], modules=[]),
    "C10": dict(level="fault_enumeration", obs_frames=None, obs_tables=set(CHAN), obs_commits=True,
                nontrivial=lambda s: s["ops"].get("restart", 0) > 0, theorems=[], modules=[]),
    "C11": dict(level="exploration", obs_frames=None, obs_tables=set(CHAN), nontrivial=lambda s: s["ops"].get("restart", 0) > 0,
                theorems=[], modules=[]),
    "C12": dict(level="exploration", obs_frames={"message", "error"}, obs_tables=set(CHAN), nontrivial=_nt("sweep"), theorems=[], modules=[]),
    "C13": dict(level="exploration", obs_frames={"error"}, obs_tables=set(CHAN), nontrivial=_nt("sweep"), theorems=[], modules=[]),
    "C14": dict(level="exploration", obs_frames=None, obs_tables=set(CHAN), nontrivial=lambda s: s["n_ops"] > 5, theorems=[], modules=[]),
    "C15": dict(level="exploration", obs_frames=set(), obs_tables=set(), obs_usage=True, obs_misc="",
                nontrivial=lambda s: s["triggers"].get("mailbox-deleted", 0) + s["triggers"].get("nameplate-deleted", 0) > 0,
                theorems=[], modules=[]),
    "C16": dict(level="exploration", obs_frames=set(), obs_tables=set(), obs_usage=True, obs_misc="",
                nontrivial=lambda s: s["triggers"].get("mailbox-deleted", 0) + s["triggers"].get("nameplate-deleted", 0) > 0,
                theorems=[], modules=[]),
    "C17": dict(level="exploration", obs_frames=None, obs_tables=set(CHAN), obs_usage=True,
                nontrivial=lambda s: sum(v for k, v in s["errors"].items() if not k.startswith("internal")) > 0, theorems=[], modules=[]),
    "C18": dict(level="exploration", obs_frames=None, obs_tables=set(CHAN), nontrivial=_nt("recv:list"), theorems=[], modules=[]),
    "C19": dict(level="fault_enumeration", theorems=[], modules=[]),
    "C20": dict(level="fault_enumeration", theorems=[], modules=[]),
}
for _p in PROPS.values():
    _p.setdefault("trusted_base", TRUSTED)
    _p.setdefault("assumptions", [
        "histories are well-formed: connection ids fresh, receive times non-decreasing, generated mailbox ids never seen before, identifier fields are strings",
        "times are multiples of 1/8 s so that Python float arithmetic is exact"])

_overrides_path = os.path.join(os.path.dirname(os.path.abspath(__file__)), "..", "lean", "theorems.json")
if os.path.exists(_overrides_path):
    for _k, _v in json.load(open(_overrides_path)).items():
        if _k in PROPS:
            PROPS[_k].update(_v)


def profiles_for(pid, tier):
    """-> list of (name, profile dict, number of histories)"""
    q = tier == "quick"
    N = (lambda a, b: a if q else b)
    base = dict(n_ops=45 if q else 70)
    three = dict(base, apps=["a", "b", "a2"], sides=["s1", "s2", "s3", "s4"])
    P = {
        "C01": [("general", dict(three, w_add=16, w_open=12, w_sweep=3, w_restart=2), N(160, 1500)),
                ("reuse", dict(base, apps=["a", "b"], client_mailboxes=["m1"], names=["1"], w_add=14, w_open=12, w_close=12,
                               w_claim=3, w_allocate=0, w_sweep=4, w_restart=2), N(120, 1200)),
                ("ints", dict(base, int_ids=True, w_add=16, w_open=12), N(40, 300)),
                ("shared-ids", dict(base, apps=["a", "b"], shared_mailbox_ids=True, client_mailboxes=["m1", "m2"], w_add=16,
                                    w_open=14, w_claim=2, w_allocate=0), N(80, 600))],
        "C02": [("general", dict(three, w_add=18, w_open=12, w_reconnect=8, w_sweep=4, w_restart=2), N(160, 1500)),
                ("restart-sweep", dict(base, apps=["a"], sides=["s1", "s2"], client_mailboxes=["m1"], names=["1"], w_claim=2,
                                       w_allocate=0, w_add=16, w_open=14, w_close=3, w_sweep=8, w_restart=5, w_connect=10,
                                       w_bigjump=0), N(160, 1500)),
                ("shared-ids", dict(base, apps=["a", "b"], shared_mailbox_ids=True, client_mailboxes=["m1", "m2"], w_add=16,
                                    w_open=14, w_claim=2, w_allocate=0), N(80, 600))],
        "C03": [("general", dict(three, w_claim=16, w_release=8, w_close=8, w_restart=2, w_sweep=3, names=["1", "2", "7"]), N(200, 2000))],
        "C04": [("general", dict(three, w_allocate=14, w_claim=8, w_release=8, names=["1", "2", "3", "03", "٣", "12", "x"],
                                 w_sweep=2), N(160, 1500)),
                ("fill", dict(_special="fill"), N(24, 120))],
        "C05": [("third", dict(base, apps=["a"], sides=["s1", "s2", "s3", "s4"], names=["1", "2"], client_mailboxes=["m1"],
                               w_claim=12, w_open=12, w_close=8, w_release=6, w_add=10, w_reconnect=10, w_restart=1), N(220, 2000))],
        "C06": [("two-apps", dict(base, apps=["a", "b"], sides=["s1", "s2"], names=["1", "2"], client_mailboxes=["m1"], w_sweep=3,
                                  w_restart=1), N(120, 1000)),
                ("odd-strings", dict(base, apps=["a", "b", ""], sides=["s1", "", "s1 "], names=["1", ""], client_mailboxes=["m1", ""],
                                     w_malformed=8, w_add=12, w_open=10), N(80, 600))],
        "C07": [("general", dict(three, w_claim=14, w_release=12, w_close=8, w_list=8, names=["1", "2", "7"], w_reconnect=8), N(200, 2000))],
        "C08": [("general", dict(three, w_close=14, w_open=12, w_claim=10, w_release=6, w_reconnect=8, names=["1", "2"],
                                 sides=["s1", "s2"]), N(200, 2000)),
                ("third", dict(base, apps=["a"], sides=["s1", "s2", "s3"], names=["1"], client_mailboxes=["m1"], w_close=14,
                               w_open=12, w_claim=10), N(60, 500))],
        "C09": [("reader", dict(three, _mode={"reader": True}, w_sweep=4, w_restart=1, usage=True), N(80, 600)),
                ("reader-nousage", dict(three, _mode={"reader": True}, w_sweep=4, usage=False), N(60, 400))],
        "C10": [("crash", dict(three, w_crash=6, w_sweep=3, quiesce=True), N(160, 1500)),
                ("crash-usage", dict(base, w_crash=8, w_sweep=4, quiesce=True, usage=True), N(100, 1000)),
                ("resend", dict(three, n_ops=30, w_sweep=1, w_restart=1), N(60, 500))],
        "C11": [("restart", dict(three, w_restart=5, w_sweep=5, w_reconnect=8), N(160, 1500))],
        "C12": [("timer", dict(three, _mode={"timer": True}, timer=True, w_sweep=6, w_crash=0, w_reconnect=6, w_bigjump=2), N(160, 1500)),
                ("direct", dict(three, w_sweep=8, w_bigjump=3), N(100, 800))],
        "C13": [("timer-quiesce", dict(three, _mode={"timer": True}, timer=True, w_sweep=5, quiesce=True, p_fault=0.25), N(160, 1500)),
                ("crash-quiesce", dict(base, w_crash=4, w_sweep=4, quiesce=True, w_fault=2, usage=True), N(100, 800))],
        "C14": [("dup", dict(three, w_reconnect=6, w_sweep=2), N(120, 1000))],
        "C15": [("usage", dict(three, usage=True, w_close=12, w_release=10, w_sweep=5, w_bigjump=3), N(200, 2000))],
        "C16": [("blur", dict(three, usage=True, blur="rand", w_close=12, w_release=10, w_sweep=5, w_bigjump=3), N(200, 2000))],
        "C17": [("malformed", dict(three, w_malformed=14), N(200, 2000)),
                ("odd-strings", dict(base, apps=["a", "", "ü"], sides=["s1", "", "s\u0000x"], names=["1", "", "ñ"],
                                     client_mailboxes=["m1", ""], w_malformed=8), N(80, 600)),
                ("general", dict(three, w_malformed=4, welcome=True), N(80, 600))],
        "C18": [("configs", dict(three, w_list=8, w_allocate=8), N(100, 800))],
    }
    return P.get(pid, [])


def special_history(pid, profile, seed):
    import gen
    kind = profile["_special"]
    r = random.Random(seed)
    if kind == "fill":
        # fill 1..9 / 1..99 / 1..999 through the API, with holes, then allocate
        upto = r.choice([9, 9, 9, 9, 99, 99, 99, 999])
        holes = set(r.sample(range(1, upto + 1), r.choice([0, 1, 1, 2, 3])))
        t = 8000
        h = [{"op": "cfg", "rebooted": t, "usage": False, "allow_list": r.random() < 0.5, "blur": None}]
        c = 0
        for k in range(1, upto + 1):
            if k in holes:
                continue
            c += 1
            h.append({"op": "connect", "c": c})
            h.append({"op": "recv", "c": c, "t": t, "msg": {"type": "bind", "appid": "a", "side": "s%d" % (k % 3)}})
            h.append({"op": "recv", "c": c, "t": t, "msg": {"type": "claim", "nameplate": str(k)}, "fresh": "f%d" % k})
            h.append({"op": "drop", "c": c})
        junk = r.sample(["x", "0", "07", "٣", "00", "1x", "012", "abc", " 1"], r.choice([0, 1, 2, 3]))
        for name in junk:
            c += 1
            h.append({"op": "connect", "c": c})
            h.append({"op": "recv", "c": c, "t": t, "msg": {"type": "bind", "appid": "a", "side": "j"}})
            h.append({"op": "recv", "c": c, "t": t, "msg": {"type": "claim", "nameplate": name}, "fresh": "j%d" % c})
            h.append({"op": "drop", "c": c})
        for o in h[1:]:
            o["_nodump"] = True
        if len(h) > 1:
            h[-1].pop("_nodump")
        for j in range(3):
            c += 1
            h.append({"op": "connect", "c": c})
            h.append({"op": "recv", "c": c, "t": t + j, "msg": {"type": "bind", "appid": "a", "side": "z"}})
            draws = [r.choice([5, 1000, 1001, 999999, 123456]) for _ in range(r.choice([0, 3]))]
            h.append({"op": "recv", "c": c, "t": t + j, "msg": {"type": "allocate"}, "fresh": "g%d" % j,
                      "pick": r.randrange(1000), "draws": draws})
        return h, {}
    raise ValueError(kind)


# ----------------------------------------------------------------------------------- oracles
def _translate_info():
    import translate
    _, info = translate.generate()
    return info


_INFO = None


def info():
    global _INFO
    if _INFO is None:
        _INFO = _translate_info()
    return _INFO


def run_oracles(pid, tr, meta):
    import oracles as O
    import metamorphic as M
    f = []
    rng = random.Random(meta.get("seed", 0) ^ 0x5eed)
    thorough = meta.get("tier") == "thorough"
    H = meta["_history"]
    if pid == "C01":
        f += O.check_C01(tr)
    elif pid == "C02":
        f += O.check_C02(tr)
    elif pid == "C03":
        f += O.check_C03(tr)
    elif pid == "C04":
        f += O.check_C04(tr, info()["alloc"])
    elif pid == "C05":
        f += O.check_C05(tr)
    elif pid == "C06":
        f += M.check_C06(tr, H, meta, rng)
    elif pid == "C11":
        f += M.check_C11(tr, H, meta, rng)
    elif pid == "C14":
        f += M.check_C14(tr, H, meta, rng, thorough)
    elif pid == "C07":
        f += O.check_C07(tr)
    elif pid == "C08":
        f += O.check_C08(tr)
    elif pid == "C09":
        f += O.check_C09(tr)
    elif pid == "C10":
        f += O.check_C10(tr)
        if tr.quiesced:
            f += [x for x in O.check_C13(tr, info()["expirationTicks"]) if "empty" in x.clause]
            for x in f:
                x.prop = "C10"
        if not tr.has_crash or meta.get("resend"):
            f += M.check_C10_resend(tr, H, meta, rng, thorough)
    elif pid == "C12":
        f += O.check_C12(tr, info()["expirationTicks"])
    elif pid == "C13":
        f += O.check_C13(tr, info()["expirationTicks"])
    elif pid == "C15":
        f += O.check_C15(tr)
    elif pid == "C16":
        f += O.check_C16(tr)
    elif pid == "C17":
        f += O.check_C17(tr, welcome=json.loads(proto.welcome_json(tr.cfg)))
    elif pid == "C18":
        f += O.check_C18_list(tr)
        f += M.check_C18(tr, H, meta, rng, thorough)
    return f


def engine_for(pid):
    if pid in ("C19", "C20"):
        def eng(pid, tier, seed):
            import dbfiles_engine
            return dbfiles_engine.run(pid, tier, seed)
        return eng
    return None


# ----------------------------------------------------------------------------------- manifest texts
NOT_APPLICABLE = {}

_T = "Lean 4 proof over a hand-written executable model + differential correspondence model<->code + property oracle on implementation traces"
NOTES = {pid: {"technique": _T, "text": "", "note": ""} for pid in PROPS}


def _n(pid, text, note, technique=None):
    NOTES[pid]["text"] = text
    NOTES[pid]["note"] = note
    if technique:
        NOTES[pid]["technique"] = technique


_TIE = ("Trusted: Lean kernel (axioms checked ⊆ propext/Classical.choice/Quot.sound), translate.py, the hand-written model "
        "(tied to the code by differential execution on generated histories every run, not proved), impl.py runner; SQLite/CPython/Twisted modelled not verified.")
_n("C01", "Correspondence of model and code on message storage/replay plus an oracle that recomputes, from the history alone, which messages every open must replay (and that no message row outlives its mailbox), on hundreds (quick) to thousands (thorough) of generated multi-app histories with sweeps, restarts and id reuse. History-level theorem not yet proved: claimed as exploration.", _TIE,
   "differential correspondence with Lean model + history oracle (theorem pending)")
_n("C02", "Correspondence + oracle recomputing the ghost subscriber set of every add from the history (exactly-once fan-out with the binder's side), incl. bind/sweep/restart orders that split namespaces before the repair.", _TIE,
   "differential correspondence with Lean model + history oracle (theorem pending)")
_n("C03", "Correspondence + oracle comparing all `claimed` answers grouped by ghost nameplate incarnation (same id within, distinct across), repeated claims by holders.", _TIE,
   "differential correspondence with Lean model + history oracle (theorem pending)")
_n("C04", "Theorems about the model of _find_available_nameplate_id for every set of names in use, every random choice and every draw sequence (free, canonical decimal, shortest available length, exhaustion iff), proved against the translator-regenerated constants; correspondence + oracle on implementation pre/post dumps for the history part (claim held and committed when `allocated` is sent).",
   _TIE + " The theorems cover the pure selection function; 'holds the claim when answered' is checked by oracle, not yet a theorem.")
_n("C05", "Correspondence + oracle with ghost first-two sides per mailbox incarnation: later sides get exactly ack+crowded, never a message or subscription; known finding K-crowded-rejoin is recognised by signature.", _TIE,
   "differential correspondence with Lean model + history oracle (theorem pending)")
_n("C06", "Correspondence on multi-app histories with identical names/sides (model and code agree step by step on all tables and frames).", _TIE,
   "differential correspondence with Lean model (theorem and two-run oracle pending)")
_n("C07", "Correspondence + oracle on the claims relation recomputed from dumps around every step: claims change only by the owner's claim/allocate/release or by deletion of the nameplate in its last release / mailbox deletion / expiry; list iff held; release total; reclaimed changes nothing.", _TIE,
   "differential correspondence with Lean model + history oracle (theorem pending)")
_n("C08", "Correspondence + oracle evaluating close's post-condition on implementation dumps (closed answered, survivors untouched, everything of a deleted mailbox gone, every other row unchanged).", _TIE,
   "differential correspondence with Lean model + history oracle (theorem pending)")
_n("C09", "Theorem: in the model every frame of every crash-free history is emitted with both databases committed (C09_frames_synced_init, for every configuration), and with crashes under the crash-state invariant hypothesis; on the code side an independent second reader of the database FILES is compared with the server's own view at every sendMessage.",
   _TIE + " Durability of a SQLite commit itself (fsync/journal) is trusted.")
_n("C10", "Every commit boundary reached by crash-profile histories is crashed (recording proxy, reopen at last commit through the real start-up path); oracle: no duplicate/dangling rows in the state left, restart succeeds, sweeps complete, store empties after quiescence; model and code agree on every crash state.", _TIE + " SQLite's atomic commit is trusted.",
   "fault enumeration over commit boundaries + correspondence with Lean model (crash-state invariant theorem pending)")
_n("C11", "Correspondence on histories with restarts at random positions followed by sweeps/binds in both orders (the model has no object registry, so agreement of the code with it is the restart-invisibility statement).", _TIE,
   "differential correspondence with Lean model (two-run oracle pending)")
_n("C12", "Timer-driven histories through the real TimerService on a virtual clock with activity placed around the cutoff; oracle with ghost last-activity and subscriber sets on implementation dumps; cutoffs checked against translator-regenerated constants.", _TIE,
   "differential correspondence with Lean model + history oracle (theorem pending)")
_n("C13", "Oracle: completeness of every sweep, empty store after quiescence, faulted firings caught and next firing on schedule (real TimerService); correspondence.", _TIE,
   "differential correspondence with Lean model + history oracle (theorem pending)")
_n("C14", "Correspondence on histories with same-side reconnects repeating commands.", _TIE,
   "differential correspondence with Lean model (two-run oracle pending)")
_n("C15", "Theorems: the classification and time fields of both summary functions for every list of side rows and both values of pruned, and that each store call appends exactly the specified row; oracle: usage rows appended per step are in bijection with retirements seen in the implementation's dumps, classified by an independent implementation of the documented precedence.",
   _TIE + " The one-record-per-retirement part is checked by oracle on crash-free histories, not yet a theorem.")
_n("C16", "Theorems: floor/multiple/less-than-one-interval for every interval, tick rate and time, and for each of the three writing paths of the model; oracle on implementation rows against the true virtual times for random intervals.",
   _TIE + " 'every row ever written' as an invariant over histories is checked by oracle, the per-path statements are theorems.")
_n("C17", "Oracle for every clause (welcome, ack first with id, ping/pong, exactly one error with the prescribed text and the original message, nothing stored, connection state unchanged via later behaviour, no internal failure) with ghost protocol flags recomputed from the history; malformed-stream generator from every connection state.", _TIE,
   "differential correspondence with Lean model + history oracle (theorems pending)")
_n("C18", "Oracle for the list answer against the implementation's own dump; correspondence under random configurations.", _TIE,
   "differential correspondence with Lean model + history oracle (theorems pending)")
