"""Property oracles: the full-strength statement of each property, evaluated on a trace
of the IMPLEMENTATION (events per step + table dumps before/after every step).  They use
only the history, the frames and the dumps -- never the model.  A finding carries the
property clause that failed and the step index; findings whose signature matches a
documented known finding are tagged with its id (see known_findings.json).
"""
import json
from proto import TICKS, parse_event, parse_dump, unhx


def dec(tok):
    if tok == "~" or tok == "-":
        return None
    if tok.startswith("h"):
        return unhx(tok)
    if tok.startswith("i"):
        return int(tok[1:])
    if tok.startswith("j"):
        return json.loads(tok[1:])
    if tok.startswith("f"):
        return float(tok[1:]) * TICKS       # a time that is not a whole number of ticks, in (fractional) ticks
    try:
        return int(tok)
    except ValueError:
        return tok


class Tables(object):
    """decoded dump"""
    def __init__(self, lines):
        d = parse_dump(lines or [])
        g = lambda k: [tuple(dec(t) for t in row) for row in d.get(k, [])]
        self.nameplates = g("nameplates")            # id, app, name, mailbox
        self.np_sides = g("nameplate_sides")         # npid, claimed, side, added
        self.mailboxes = g("mailboxes")              # app, id, updated, for_np
        self.mb_sides = g("mailbox_sides")           # mailbox, opened, side, added, mood
        self.messages = g("messages")                # app, mailbox, side, phase, body, rx, msgid
        self.u_nameplates = g("u_nameplates")        # app, started, waiting, total, result
        self.u_mailboxes = g("u_mailboxes")          # app, for_np, started, total, waiting, result
        self.u_current = g("u_current")
        self.u_clients = g("u_client_versions")      # app, side, time, impl, version
        self.raw = d

    def np_by_key(self):
        return {(r[1], r[2]): r for r in self.nameplates}

    def mailbox_ids(self):
        return {(r[0], r[1]) for r in self.mailboxes}

    def claims(self):
        """(app, name, side) with claimed = 1"""
        byid = {r[0]: r for r in self.nameplates}
        return {(byid[s[0]][1], byid[s[0]][2], s[2]) for s in self.np_sides if s[1] and s[0] in byid}

    def chan_rows(self):
        return {k: self.raw.get(k, []) for k in ("nameplates", "nameplate_sides", "mailboxes", "mailbox_sides", "messages")}


class Step(object):
    def __init__(self, i, op, events, pre, post):
        self.i, self.op = i, op
        self.events = [parse_event(e) for e in (events or [])]
        self.raw_events = events or []
        self.pre, self.post = pre, post

    def frames(self, c=None, typ=None):
        return [e for e in self.events if e["k"] == "F" and (c is None or e["c"] == c) and (typ is None or e["type"] == typ)]

    def internal(self):
        return [e for e in self.events if e["k"] == "X"]

    def bangs(self):
        return [r for r in self.raw_events if r.startswith("!")]

    def err(self, c):
        f = self.frames(c, "error")
        return dec(f[0]["args"][0]) if f else None


class Trace(object):
    """steps of an implementation run with ghost state recomputed from history + answers"""
    def __init__(self, obs, cfg=None):
        self.steps = []
        pre = None
        self.cfg = None
        for i, (op, ev, d) in enumerate(obs["steps"]):
            if op["op"] == "cfg":
                self.cfg = op
            if op["op"] in ("crash", "dump"):
                continue
            post = Tables(d) if d is not None else None
            self.steps.append(Step(i, op, ev, pre, post))
            pre = post
        self.final = Tables(obs["final"]) if obs.get("final") is not None else pre
        self._ghost()

    def _ghost(self):
        bind = {}      # c -> (app, side)
        sub = {}       # c -> (app, mailbox) while subscribed
        held = {}      # c -> mailbox id of the last successful open not yet closed
        crash_next = False
        for st in self.steps:
            op = st.op
            st.bind_pre = dict(bind)
            st.sub_pre = dict(sub)
            st.held_pre = dict(held)
            k = op["op"]
            if k == "connect":
                pass
            elif k == "drop":
                bind.pop(op["c"], None); sub.pop(op["c"], None); held.pop(op["c"], None)
            elif k in ("restart", "cfg"):
                bind.clear(); sub.clear(); held.clear()
            elif k == "recv":
                c, m = op["c"], op["msg"]
                t = m.get("type")
                ok = not st.frames(c, "error") and not st.internal() and st.frames(c, "ack")
                if t == "bind" and c not in bind and "appid" in m and "side" in m and st.frames(c, "ack") \
                        and not st.frames(c, "error"):
                    # (an unindexable client_version raises after the connection was bound)
                    bind[c] = (m["appid"], m["side"])
                if t == "open" and ok and c in bind:
                    sub[c] = (bind[c][0], m["mailbox"])
                    held[c] = m["mailbox"]
                if t == "close" and st.frames(c, "closed"):
                    sub.pop(c, None); held.pop(c, None)
            # a crash in this step kills every connection
            if st.crashed():
                bind.clear(); sub.clear(); held.clear()
            # deletion of a mailbox ends its subscriptions
            if st.post is not None:
                alive = st.post.mailbox_ids()
                for c in [c for c, am in sub.items() if am not in alive]:
                    sub.pop(c); held.pop(c, None)
            st.bind_post = dict(bind)
            st.sub_post = dict(sub)


def _crashed(self):
    return bool(self.op.get("_crash") is not None)


Step.crashed = _crashed


class Finding(object):
    def __init__(self, prop, clause, step, detail, known=None):
        self.prop, self.clause, self.step, self.detail, self.known = prop, clause, step, detail, known

    def as_dict(self):
        return {"property": self.prop, "clause": self.clause, "step": self.step, "detail": self.detail,
                "known": self.known}


def _msg_key(side, phase, body, rx, mid):
    return (side, phase, body, rx, mid)


def _frame_msg(e):
    a = e["args"]
    return _msg_key(dec(a[0]), dec(a[1]), dec(a[2]), dec(a[3]), dec(a[4]))


# ------------------------------------------------------------------------------------- C01
def check_C01(tr):
    out = []
    live = {}      # (app, mb) -> list of message keys accepted since the last deletion
    for st in tr.steps:
        op = st.op
        if op["op"] == "recv":
            c, m = op["c"], op["msg"]
            t = m.get("type")
            b = st.bind_pre.get(c)
            if t == "add" and b and not st.frames(c, "error") and not st.internal() and c in st.held_pre:
                key = (b[0], st.held_pre[c])
                live.setdefault(key, []).append(_msg_key(b[1], m.get("phase"), m.get("body"), op["t"], m.get("id")))
            if t == "open" and b and not st.frames(c, "error") and not st.internal() and st.frames(c, "ack"):
                key = (b[0], m["mailbox"])
                want = sorted(live.get(key, []), key=repr)
                got = sorted([_frame_msg(e) for e in st.frames(c, "message")], key=repr)
                if want != got:
                    tx = lambda v: str(v) if (isinstance(v, int) and not isinstance(v, bool)) else v
                    coerced = sorted([(s, tx(p), tx(bd), rx, tx(i)) for (s, p, bd, rx, i) in want], key=repr)
                    known = "K-id-coercion" if coerced == got else None
                    out.append(Finding("C01", "replay = messages added since the mailbox's last deletion", st.i,
                                       {"expected": want, "got": got}, known))
        if st.post is not None:
            alive = st.post.mailbox_ids()
            for key in [k for k in live if k not in alive]:
                del live[key]
            orphans = [r for r in st.post.messages if (r[0], r[1]) not in alive]
            if orphans:
                out.append(Finding("C01", "a stored message outlives its mailbox", st.i, {"rows": orphans[:3]}))
    return out


# ------------------------------------------------------------------------------------- C02
def check_C02(tr):
    out = []
    for st in tr.steps:
        op = st.op
        if op["op"] != "recv" or op["msg"].get("type") != "add":
            if op["op"] not in ("recv",) or op["msg"].get("type") != "open":
                # message frames are only ever caused by add (broadcast) and open (replay)
                if st.frames(typ="message"):
                    out.append(Finding("C02", "message frame outside add/open", st.i, {"frames": st.raw_events}))
            else:
                others = [e for e in st.frames(typ="message") if e["c"] != op["c"]]
                if others:
                    out.append(Finding("C02", "an open replays to the opener only", st.i,
                                       {"recipients": sorted({e["c"] for e in others})}))
            continue
        c, m = op["c"], op["msg"]
        b = st.bind_pre.get(c)
        accepted = b and not st.frames(c, "error") and not st.internal() and c in st.held_pre
        got = sorted([(e["c"],) + _frame_msg(e) for e in st.frames(typ="message")], key=repr)
        if not accepted:
            if got:
                out.append(Finding("C02", "refused add delivered something", st.i, {"got": got}))
            continue
        key = (b[0], st.held_pre[c])
        subs = sorted(cc for cc, am in st.sub_pre.items() if am == key)
        want = sorted([(cc, b[1], m.get("phase"), m.get("body"), op["t"], m.get("id")) for cc in subs], key=repr)
        if want != got:
            out.append(Finding("C02", "an add reaches every subscribed connection exactly once and nobody else", st.i,
                               {"subscribers": subs, "expected": want, "got": got}))
    return out


# ------------------------------------------------------------------------------------- C03
def proto_line(op):
    import proto
    try:
        return proto.op_line(op)
    except Exception:
        return str(op)


def check_C03(tr, expiration=None):
    out = []
    # a sweep retires a nameplate legitimately only when its mailbox is neither subscribed nor recently
    # active (the history-only ghost of check_C12); any other deletion by a sweep does not end the incarnation
    early = set()
    if expiration is not None:
        for f in check_C12(tr, expiration):
            if f.clause == "a sweep keeps a mailbox that is subscribed or recently active":
                early.add((f.step, tuple(f.detail["mailbox"])))
            elif f.clause == "sweeping one mailbox removes nothing of another" and "nameplate" in f.detail:
                r = f.detail["nameplate"]
                early.add((f.step, (r[1], r[3])))
    inc = {}        # (app, name) -> incarnation counter
    told = {}       # (app, name, inc) -> mailbox id
    owner = {}      # mailbox id -> (app, name, inc)
    # by the HISTORY alone: the sides that may hold a claim on (app, name) - every side that sent a claim for it or was
    # allocated it (answered or not: a crashed claim may have been committed), minus the sides answered `released`.
    # When a `released` answer empties this set the nameplate is retired whatever the tables say, so a later
    # `claimed` answer carrying the old mailbox id is a violation (e.g. a release whose effect was never committed
    # and was lost at a restart).
    holders = {}
    blind = set()   # apps in which an allocate died before its answer: the held name is unknown, no ghost retirement
    for st in tr.steps:
        op = st.op
        ghost_gone = set()
        if op["op"] == "recv" and st.bind_pre.get(op["c"]):
            b_ = st.bind_pre[op["c"]]
            ty_ = op["msg"].get("type")
            if ty_ == "claim" and isinstance(op["msg"].get("nameplate"), str) and st.frames(op["c"], "ack") \
                    and st.err(op["c"]) not in VALIDATION:
                holders.setdefault((b_[0], op["msg"]["nameplate"]), set()).add(b_[1])
            elif ty_ == "claim" and st.crashed():
                holders.setdefault((b_[0], op["msg"].get("nameplate")), set()).add(b_[1])
            elif ty_ == "allocate":
                fr_ = st.frames(op["c"], "allocated")
                if fr_:
                    holders.setdefault((b_[0], dec(fr_[0]["args"][0])), set()).add(b_[1])
                elif st.crashed() or st.internal():
                    blind.add(b_[0])
            elif ty_ == "release" and st.frames(op["c"], "released"):
                nm_ = op["msg"].get("nameplate")
                if nm_ is None:
                    nm_ = getattr(st, "flags_pre", {}).get(op["c"], {}).get("np")
                k_ = (b_[0], nm_)
                if b_[1] in holders.get(k_, set()):
                    holders[k_].discard(b_[1])
                    if not holders[k_] and b_[0] not in blind:
                        ghost_gone.add(k_)
        if op["op"] == "recv" and op["msg"].get("type") == "claim" and st.frames(op["c"], "claimed"):
            c = op["c"]
            b = st.bind_pre.get(c)
            name = op["msg"].get("nameplate")
            mb = dec(st.frames(c, "claimed")[0]["args"][0])
            key = (b[0], name, inc.get((b[0], name), 0))
            if key in told and told[key] != mb:
                out.append(Finding("C03", "claimants of one live nameplate are told the same mailbox", st.i,
                                   {"nameplate": key, "before": told[key], "now": mb}))
            told.setdefault(key, mb)
            if mb in owner and owner[mb] != key:
                out.append(Finding("C03", "mailbox ids of different nameplates/apps/incarnations differ", st.i,
                                   {"mailbox": mb, "first": owner[mb], "second": key}))
            owner.setdefault(mb, key)
        if op["op"] == "recv" and op["msg"].get("type") == "claim" and st.pre is not None:
            # a side that holds a claim repeats it: same id again
            c = op["c"]
            b = st.bind_pre.get(c)
            name = op["msg"].get("nameplate")
            if b and name is not None and (b[0], name, b[1]) in st.pre.claims() and st.frames(c, "ack") \
                    and not (st.frames(c, "error") and st.err(c) == "only one claim per connection"):
                row = st.pre.np_by_key()[(b[0], name)]
                fr = st.frames(c, "claimed")
                if not fr or dec(fr[0]["args"][0]) != row[3]:
                    rows_ = [s for s in st.pre_mb_sides_in_order(row[3])]
                    first2 = [s[2] for s in rows_[:2]]
                    if b[1] not in first2 and len(rows_) >= 2 and st.err(c) == "crowded":
                        continue        # a third side repeating its refused claim is refused again: correct
                    known = "K-crowded-rejoin" if (st.err(c) == "crowded" and len(rows_) >= 3 and b[1] in first2) else None
                    out.append(Finding("C03", "a repeated claim by a holder is answered with the same mailbox", st.i,
                                       {"nameplate": (b[0], name), "side": b[1], "events": st.raw_events}, known))
        if st.pre is not None and st.post is not None:
            gone = set(st.pre.np_by_key()) - set(st.post.np_by_key())
            kept = set()
            for k in gone:
                # a live nameplate may only go away by a release/close of its own app or by a sweep
                actor = st.bind_pre.get(op.get("c")) if op["op"] == "recv" else None
                t = op["msg"].get("type") if op["op"] == "recv" else op["op"]
                legit = (t in ("release", "close") and actor is not None and actor[0] == k[0]) or t == "sweep" or st.crashed() \
                    or op["op"] == "restart"
                if t == "sweep" and (st.i, (k[0], st.pre.np_by_key()[k][3])) in early:
                    legit = False
                    kept.add(k)
                if not legit:
                    out.append(Finding("C03", "a nameplate stays bound to its mailbox for as long as it lives", st.i,
                                       {"nameplate": k, "deleted_by": proto_line(op)}))
            # also a delete-and-recreate inside one step
            for k in st.pre.np_by_key():
                if k in st.post.np_by_key() and st.pre.np_by_key()[k][0] != st.post.np_by_key()[k][0]:
                    gone.add(k)
            for k in gone - kept:
                inc[k] = inc.get(k, 0) + 1
                holders.pop(k, None)
            ghost_gone -= gone
        for k in ghost_gone:
            inc[k] = inc.get(k, 0) + 1
    return out


# ------------------------------------------------------------------------------------- C04
def _is_canonical_decimal(s):
    return isinstance(s, str) and s.isascii() and s.isdigit() and (s == "0" or not s.startswith("0")) and int(s) >= 1


def check_C04(tr, alloc=None):
    alloc = alloc or {"sizeLo": 1, "sizeHi": 4, "lo": 1000, "hi": 1000000}
    out = []
    for st in tr.steps:
        op = st.op
        if op["op"] != "recv" or op["msg"].get("type") != "allocate":
            continue
        c = op["c"]
        fr = st.frames(c, "allocated")
        b = st.bind_pre.get(c)
        if not fr and st.pre is not None and b and st.internal() and not st.crashed():
            # an in-order allocate must be answered; the only recorded exception is exhaustion of all names
            taken = {r[2] for r in st.pre.nameplates if r[1] == b[0]}
            exhausted = all(str(k) in taken for k in range(1, 1000))
            out.append(Finding("C04", "allocate is answered with a nameplate", st.i, {"events": st.raw_events},
                               "K-alloc-exhaust" if exhausted else None))
            continue
        if not fr or st.pre is None:
            continue
        n = dec(fr[0]["args"][0])
        names = {r[2] for r in st.pre.nameplates if r[1] == b[0]}
        if not _is_canonical_decimal(n):
            out.append(Finding("C04", "allocated nameplate is a positive decimal without leading zeros", st.i, {"n": n}))
            continue
        if n in names:
            out.append(Finding("C04", "allocated nameplate was free", st.i, {"n": n, "in_use": sorted(names)[:20]}))
        want_len = None
        for size in range(1, 4):
            if any(str(k) not in names for k in range(10 ** (size - 1), 10 ** size)):
                want_len = size
                break
        if want_len is not None and len(n) != want_len:
            out.append(Finding("C04", "allocated nameplate has the shortest available length", st.i,
                               {"n": n, "shortest_free_length": want_len}))
        if want_len is None and not (4 <= len(n) <= 6):
            out.append(Finding("C04", "4-6 digits when all short ones are taken", st.i, {"n": n}))
        if (b[0], n, b[1]) not in st.post.claims():
            out.append(Finding("C04", "the allocating side holds a claim when the answer is sent", st.i, {"n": n}))
        if not fr[0]["synced"]:
            out.append(Finding("C04", "the claim is committed when the answer is sent", st.i, {"n": n}))
    return out


# ------------------------------------------------------------------------------------- C05
def check_C05(tr):
    out = []
    attempts = {}   # (app, mb) -> ordered distinct sides that touched the current incarnation
    told = {}       # (app, name) -> set of sides told the mailbox (current incarnation)
    for st in tr.steps:
        op = st.op
        if op["op"] == "recv" and st.pre is not None:
            c, m = op["c"], op["msg"]
            t = m.get("type")
            b = st.bind_pre.get(c)
            e = st.err(c)
            validation = e is not None and e not in ("crowded", "reclaimed")
            target = None
            if b and not validation and st.frames(c, "ack") and not (e == "reclaimed"):
                if t == "open" and "mailbox" in m:
                    target = m["mailbox"]
                elif t == "close":
                    target = close_target(st)
                elif t == "claim" and "nameplate" in m:
                    row = st.pre.np_by_key().get((b[0], m["nameplate"]))
                    target = row[3] if row else op.get("fresh")
                    if row is None:
                        told[(b[0], m["nameplate"])] = set()
                elif t == "allocate" and st.frames(c, "allocated"):
                    target = op.get("fresh")
            if target is not None:
                key = (b[0], target)
                if key not in st.pre.mailbox_ids():
                    attempts[key] = []
                lst = attempts.setdefault(key, [])
                if b[1] not in lst:
                    lst.append(b[1])
                first2 = lst[:2]
                if b[1] not in first2:
                    ok = [x["type"] for x in st.frames(c)] == ["ack", "error"] and e == "crowded"
                    if not ok:
                        out.append(Finding("C05", "a third side is answered crowded and learns nothing", st.i,
                                           {"mailbox": key, "sides": lst, "events": st.raw_events}))
                elif e == "crowded":
                    out.append(Finding("C05", "the first two sides keep their access", st.i,
                                       {"mailbox": key, "sides": lst, "side": b[1]},
                                       "K-crowded-rejoin" if len(lst) >= 3 else None))
            if t == "claim" and st.frames(c, "claimed") and b:
                s = told.setdefault((b[0], m["nameplate"]), set())
                s.add(b[1])
                if len(s) > 2:
                    out.append(Finding("C05", "at most two sides are told a nameplate's mailbox", st.i,
                                       {"nameplate": (b[0], m["nameplate"]), "sides": sorted(s)}))
        # who is subscribed / receives messages
        for c2, am in getattr(st, "sub_post", {}).items():
            side = st.bind_post.get(c2, st.bind_pre.get(c2, (None, None)))[1]
            lst = attempts.get(am, [])
            if side not in lst[:2] and len(lst) >= 2:
                out.append(Finding("C05", "only the first two sides are ever subscribed", st.i,
                                   {"mailbox": am, "sides": lst, "side": side}))
        for e2 in st.frames(typ="message"):
            am = st.sub_pre.get(e2["c"]) or st.sub_post.get(e2["c"])
            side = (st.bind_pre.get(e2["c"]) or st.bind_post.get(e2["c"]) or (None, None))[1]
            if am is not None:
                lst = attempts.get(am, [])
                if len(lst) >= 2 and side not in lst[:2]:
                    out.append(Finding("C05", "messages go to the first two sides only", st.i,
                                       {"mailbox": am, "sides": lst, "side": side}))
        if st.pre is not None and st.post is not None:
            for k in set(st.pre.np_by_key()) - set(st.post.np_by_key()):
                told.pop(k, None)
            for k in st.pre.mailbox_ids() - st.post.mailbox_ids():
                attempts.pop(k, None)
    return out


# ------------------------------------------------------------------------------------- C07
def check_C07(tr):
    out = []
    # ghost, from the history alone: the sides that released a nameplate which stayed live (same row) ever since
    released_live = {}
    for st in tr.steps:
        if st.pre is None or st.post is None:
            continue
        op = st.op
        before, after = st.pre.claims(), st.post.claims()
        for k in list(released_live):
            r0, r1 = st.pre.np_by_key().get(k), st.post.np_by_key().get(k)
            if r1 is None or (r0 is not None and r0[0] != r1[0]):
                del released_live[k]           # the nameplate is gone (or is a new incarnation)
        added, removed = after - before, before - after
        actor = None
        if op["op"] == "recv":
            actor = st.bind_pre.get(op["c"])
            t = op["msg"].get("type")
        else:
            t = op["op"]
        npk_after = set(st.post.np_by_key())
        for (a, n, s) in added:
            ok = actor == (a, s) and ((t == "claim" and op["msg"].get("nameplate") == n) or
                                      (t == "allocate" and st.frames(op["c"], "allocated") and
                                       dec(st.frames(op["c"], "allocated")[0]["args"][0]) == n))
            if not ok:
                out.append(Finding("C07", "a claim appears only by its side's own claim/allocate", st.i, {"claim": (a, n, s)}))
        for (a, n, s) in removed:
            if (a, n) in npk_after and st.pre.np_by_key()[(a, n)][0] == st.post.np_by_key()[(a, n)][0]:
                # nameplate survives: only the side's own release of n
                named = op["msg"].get("nameplate") if op["op"] == "recv" else None
                ok = t == "release" and actor == (a, s) and (named == n or (named is None))
                if not ok:
                    out.append(Finding("C07", "a claim is ended only by its side's own release", st.i, {"claim": (a, n, s)}))
            else:
                # nameplate deleted: last release, close deleting its mailbox, or sweep
                mb = st.pre.np_by_key()[(a, n)][3]
                mb_gone = (a, mb) not in st.post.mailbox_ids()
                named = op["msg"].get("nameplate") if op["op"] == "recv" else None
                if op["op"] == "recv" and named is None:
                    named = getattr(st, "flags_pre", {}).get(op["c"], {}).get("np")
                holders = {s2 for (a2, n2, s2) in before if (a2, n2) == (a, n)}
                # a release retires the nameplate only if it names it and nobody else still holds it
                last_release = t == "release" and actor and actor[0] == a and named == n and holders <= {actor[1]}
                ok = last_release or (t == "close" and mb_gone and actor and actor[0] == a) or (t == "sweep" and mb_gone)
                if not ok:
                    out.append(Finding("C07", "a nameplate disappears only by last release, deletion of its mailbox, or expiry",
                                       st.i, {"claim": (a, n, s), "op": t}))
        # listed iff held (crash-free states)
        if op["op"] == "recv" and op["msg"].get("type") == "list" and st.frames(op["c"], "nameplates") and actor:
            ids = [dec(x) for x in st.frames(op["c"], "nameplates")[0]["args"][0].split(",")] \
                if st.frames(op["c"], "nameplates")[0]["args"][0] != "-" else []
            if tr.cfg.get("allow_list", True):
                held = sorted({n for (a, n, s) in before if a == actor[0]})
                if sorted(ids) != held and not tr.has_crash:
                    out.append(Finding("C07", "listed iff some side holds it", st.i, {"listed": ids, "held": held}))
        if op["op"] == "recv" and op["msg"].get("type") == "release" and actor:
            c = op["c"]
            e = st.err(c)
            if e is None and not st.internal():
                if [x["type"] for x in st.frames(c)] != ["ack", "released"]:
                    out.append(Finding("C07", "release is always answered released", st.i, {"events": st.raw_events}))
                n = op["msg"].get("nameplate")
                if n is not None and (actor[0], n, actor[1]) not in before and st.pre.chan_rows() != st.post.chan_rows():
                    out.append(Finding("C07", "a release by a side that holds no claim changes nothing", st.i, {"nameplate": n}))
            elif st.internal():
                out.append(Finding("C07", "release is always answered released", st.i, {"events": st.raw_events}))
            elif e in VALIDATION and expected_rejection(st, op) is None:
                # by the history this release is in order (it follows this connection's claim, or names a
                # nameplate), yet it was refused
                out.append(Finding("C07", "release is always answered released", st.i, {"error": e, "events": st.raw_events}))
        if op["op"] == "recv" and op["msg"].get("type") == "release" and actor and not st.crashed() \
                and [x["type"] for x in st.frames(op["c"])] == ["ack", "released"]:
            n = op["msg"].get("nameplate")
            if n is None:
                n = getattr(st, "flags_pre", {}).get(op["c"], {}).get("np")
            if n is not None and (actor[0], n, actor[1]) in before and (actor[0], n) in st.post.np_by_key():
                released_live.setdefault((actor[0], n), set()).add(actor[1])
        if op["op"] == "recv" and op["msg"].get("type") == "claim" and actor and "nameplate" in op["msg"] \
                and expected_rejection(st, op) is None and not st.crashed() \
                and actor[1] in released_live.get((actor[0], op["msg"]["nameplate"]), ()) \
                and (actor[0], op["msg"]["nameplate"]) in st.pre.np_by_key():
            # by the history this side released the nameplate and the nameplate has been live ever since
            if [x["type"] for x in st.frames(op["c"])] != ["ack", "error"] or st.err(op["c"]) != "reclaimed":
                out.append(Finding("C07", "a side that released a live nameplate cannot claim it again", st.i,
                                   {"nameplate": (actor[0], op["msg"]["nameplate"]), "side": actor[1], "events": st.raw_events,
                                    "by": "history"}))
        if op["op"] == "recv" and op["msg"].get("type") == "claim" and actor and st.err(op["c"]) == "reclaimed":
            if st.pre.chan_rows() != st.post.chan_rows():
                out.append(Finding("C07", "reclaimed changes nothing", st.i, {}))
        if op["op"] == "recv" and op["msg"].get("type") == "claim" and actor and "nameplate" in op["msg"] \
                and expected_rejection(st, op) is None:
            # a side that released a nameplate that is still live cannot claim it again
            row = st.pre.np_by_key().get((actor[0], op["msg"]["nameplate"]))
            if row is not None and any(s2[0] == row[0] and s2[2] == actor[1] and not s2[1] for s2 in st.pre.np_sides):
                if [x["type"] for x in st.frames(op["c"])] != ["ack", "error"] or st.err(op["c"]) != "reclaimed":
                    out.append(Finding("C07", "a side that released a live nameplate cannot claim it again", st.i,
                                       {"nameplate": (actor[0], op["msg"]["nameplate"]), "side": actor[1], "events": st.raw_events}))
    return out


# ------------------------------------------------------------------------------------- C08
def check_C08(tr):
    out = []
    for st in tr.steps:
        op = st.op
        if st.pre is None or st.post is None:
            continue
        pre_ids, post_ids = st.pre.mailbox_ids(), st.post.mailbox_ids()
        if op["op"] != "sweep" and not st.crashed() and op["op"] != "restart":
            for (a, mb) in pre_ids - post_ids:
                # connections that, by the history alone, opened this mailbox and have neither closed nor dropped
                closer = op.get("c") if op["op"] == "recv" else None
                live = [cc for cc, am in st.sub_pre.items() if am == (a, mb) and cc != closer]
                for cc in live:
                    side = st.bind_pre.get(cc, (None, None))[1]
                    row = [s for s in st.pre.mb_sides if s[0] == mb and s[2] == side]
                    actor_side = st.bind_pre.get(closer, (None, None))[1] if closer is not None else None
                    if side == actor_side:
                        continue      # the same side closed on another connection: that side has closed
                    # K-reopen-after-close: the subscriber's side had closed earlier and opened again; Mailbox.open
                    # does not set `opened` back, so the side is subscribed but does not count as open
                    known = "K-reopen-after-close" if (row and not row[0][1]) else None
                    out.append(Finding("C08", "a mailbox stays while a side that opened it has not closed it", st.i,
                                       {"mailbox": (a, mb), "subscribed_connection": cc, "side": side,
                                        "its_side_row": row[:1]}, known))
            for (a, mb) in pre_ids - post_ids:
                # a mailbox with an open side disappears only by a close of its last open side
                was_open = [s for s in st.pre.mb_sides if s[0] == mb and s[1]]
                actor = st.bind_pre.get(op.get("c")) if op["op"] == "recv" else None
                is_close = op["op"] == "recv" and op["msg"].get("type") == "close"
                if not is_close or (actor and [s for s in was_open if s[2] != actor[1]]):
                    out.append(Finding("C08", "a mailbox with an open side is removed only by its last close", st.i,
                                       {"mailbox": (a, mb), "open_sides": was_open, "op": op["op"]}))
        if op["op"] == "recv" and op["msg"].get("type") == "add" and op["c"] in st.held_pre and \
                st.err(op["c"]) == "must open mailbox before adding":
            # by the history this connection opened the mailbox, never closed it, and the mailbox
            # still exists: somebody else's close took its access away
            out.append(Finding("C08", "one side's close never removes the other side's access", st.i,
                               {"connection": op["c"], "mailbox": st.held_pre[op["c"]]}))
        if op["op"] != "recv" or op["msg"].get("type") != "close":
            continue
        c, m = op["c"], op["msg"]
        b = st.bind_pre.get(c)
        e = st.err(c)
        if b and e in VALIDATION and expected_rejection(st, op) is None:
            # by the history this close is in order (first close of the connection, naming or remembering a
            # mailbox), yet it was refused
            out.append(Finding("C08", "close always completes and is answered closed", st.i, {"error": e, "events": st.raw_events}))
            continue
        if not b or (e is not None and e != "crowded"):
            continue
        mb = close_target(st)
        if mb is None:
            continue
        if e == "crowded":
            rows_ = st.pre_mb_sides_in_order(mb)
            first2 = [s[2] for s in rows_[:2]]
            if b[1] in first2:
                # one of the first two sides is refused its close
                out.append(Finding("C08", "close is answered closed", st.i, {"mailbox": mb, "side": b[1]},
                                   "K-crowded-rejoin" if len(rows_) >= 3 else None))
            continue
        if [x["type"] for x in st.frames(c)] != ["ack", "closed"] or st.internal():
            known = None
            if [x["cls"] for x in st.internal()] == ["IntegrityError"] and any(r[1] == mb and r[0] != b[0] for r in st.pre.mailboxes):
                known = "K-global-mailbox-id"      # the id exists under another app
            out.append(Finding("C08", "close completes and is answered closed", st.i, {"events": st.raw_events}, known))
            continue
        others_open = [s for s in st.post.mb_sides if s[0] == mb and s[1]]
        if (b[0], mb) in post_ids:
            if not others_open:
                out.append(Finding("C08", "a mailbox whose last open side closed is deleted", st.i, {"mailbox": mb}))
            mine_open = [s for s in others_open if s[2] == b[1]]
            if mine_open:
                # answered `closed`, yet the caller's own side is still recorded as open: the close was
                # acknowledged but not performed (the mailbox can then never be deleted by a last close)
                out.append(Finding("C08", "a close answered closed has closed the caller's side", st.i,
                                   {"mailbox": mb, "side": b[1], "its_side_row": mine_open[:1]}))
            # other sides' rows, messages, subscriptions untouched
            pre_msgs = [r for r in st.pre.messages if r[1] == mb]
            post_msgs = [r for r in st.post.messages if r[1] == mb]
            if pre_msgs != post_msgs:
                out.append(Finding("C08", "one side's close keeps the messages", st.i, {"mailbox": mb}))
            pre_o = [s for s in st.pre.mb_sides if s[0] == mb and s[2] != b[1]]
            post_o = [s for s in st.post.mb_sides if s[0] == mb and s[2] != b[1]]
            if pre_o != post_o:
                out.append(Finding("C08", "one side's close keeps the other side's record", st.i, {"mailbox": mb}))
            lost = [cc for cc, am in st.sub_pre.items() if am == (b[0], mb) and cc != c and cc not in st.sub_post]
            if lost:
                out.append(Finding("C08", "one side's close keeps other subscriptions", st.i, {"connections": lost}))
        else:
            # deleted: everything of it gone, everything else untouched
            left = [r for r in st.post.messages if r[1] == mb and r[0] == b[0]] + \
                   [r for r in st.post.nameplates if r[3] == mb and r[1] == b[0]]
            if left:
                out.append(Finding("C08", "deletion removes messages and nameplates of the mailbox", st.i, {"left": left[:3]}))
        # frame: rows not belonging to this mailbox are untouched (modulo the mailbox row's own updated time)
        gone_np = {r[0] for r in st.pre.nameplates if r[3] == mb and r[1] == b[0]}
        keep = lambda T: ([r for r in T.nameplates if not (r[3] == mb and r[1] == b[0])],
                          [r for r in T.np_sides if r[0] not in gone_np],
                          [r for r in T.mailboxes if r[1] != mb], [r for r in T.mb_sides if r[0] != mb],
                          [r for r in T.messages if r[1] != mb])
        if keep(st.pre) != keep(st.post):
            out.append(Finding("C08", "close leaves every other nameplate and mailbox untouched", st.i,
                               {"mailbox": mb, "pre": [x[:3] for x in keep(st.pre)], "post": [x[:3] for x in keep(st.post)]}))
    return out


# ------------------------------------------------------------------------------------- C09
def check_C09(tr):
    out = []
    for st in tr.steps:
        bad = [e for e in st.frames() if not e["synced"]]
        if bad:
            out.append(Finding("C09", "a frame is emitted only when nothing is uncommitted", st.i,
                               {"frames": [(e["c"], e["type"]) for e in bad], "events": st.raw_events}))
        for bng in st.bangs():
            if bng.startswith("!reader"):
                out.append(Finding("C09", "an independent reader sees the state the server acts on", st.i, {"event": bng}))
    return out


# ------------------------------------------------------------------------------------- C10
def wf_problems(T):
    """the structural conditions a crash state must satisfy"""
    p = []
    def dups(keys, what):
        s = set()
        for k in keys:
            if k in s:
                p.append("duplicate %s %r" % (what, k))
            s.add(k)
    dups([(r[1], r[2]) for r in T.nameplates], "nameplate")
    dups([r[0] for r in T.nameplates], "nameplate id")
    dups([r[1] for r in T.mailboxes], "mailbox id")
    dups([(r[0], r[2]) for r in T.np_sides], "nameplate side")
    dups([(r[0], r[2]) for r in T.mb_sides], "mailbox side")
    npids = {r[0] for r in T.nameplates}
    mbids = {r[1] for r in T.mailboxes}
    for r in T.np_sides:
        if r[0] not in npids:
            p.append("nameplate side without nameplate %r" % (r,))
    for r in T.nameplates:
        if r[3] not in mbids:
            p.append("nameplate without mailbox %r" % (r,))
    for r in T.mb_sides:
        if r[0] not in mbids:
            p.append("mailbox side without mailbox %r" % (r,))
    return p


def check_C10(tr):
    out = []
    for st in tr.steps:
        if st.post is not None and (st.crashed() or st.op["op"] == "restart"):
            pr = wf_problems(st.post)
            if pr:
                out.append(Finding("C10", "the state left by a crash has no duplicates and no dangling rows", st.i, {"problems": pr[:5]}))
        for bng in st.bangs():
            if bng.startswith("!startup"):      # impl.py: the real start-up path raised on the files a crash left
                out.append(Finding("C10", "the server restarts on the files a crash left", st.i, {"event": bng}))
        if tr.has_crash and st.op["op"] == "sweep" and not st.op.get("fault") and st.internal():
            out.append(Finding("C10", "sweeps complete without internal errors after a crash", st.i, {"events": st.raw_events}))
        if tr.has_crash and st.op["op"] == "recv" and st.internal() and not st.crashed():
            known = None
            out.append(Finding("C10", "a restarted server serves clients without internal errors", st.i,
                               {"events": st.raw_events}, known))
    return out


# ------------------------------------------------------------------------------------- C12 / C13
def check_C12(tr, expiration):
    out = []
    last = {}     # (app, mb) -> time of last claim/allocate/open/add (ghost)
    for st in tr.steps:
        op = st.op
        if op["op"] == "recv" and st.post is not None and st.pre is not None:
            c, m = op["c"], op["msg"]
            b = st.bind_pre.get(c)
            t = m.get("type")
            e = st.err(c)
            validation = e is not None and e not in ("crowded", "reclaimed")
            if b and not validation and st.frames(c, "ack") and not st.internal():
                tgt = None
                if t == "open" and "mailbox" in m:
                    tgt = m["mailbox"]
                elif t == "add" and c in st.held_pre:
                    tgt = st.held_pre[c]
                elif t == "claim" and "nameplate" in m and e != "reclaimed":
                    row = st.post.np_by_key().get((b[0], m["nameplate"]))
                    tgt = row[3] if row else None
                elif t == "allocate" and st.frames(c, "allocated"):
                    row = st.post.np_by_key().get((b[0], dec(st.frames(c, "allocated")[0]["args"][0])))
                    tgt = row[3] if row else None
                elif t == "close" and c not in st.held_pre and e in (None, "crowded"):
                    tgt = close_target(st)      # close opens first (K-close-touch): counts as activity in the code
                if tgt is not None and (b[0], tgt) in st.post.mailbox_ids():
                    last[(b[0], tgt)] = op["t"]
        if op["op"] == "sweep" and st.pre is not None and st.post is not None and not st.op.get("fault") \
                and not st.crashed():
            now = op["now"]
            subs = set(st.sub_pre.values())
            post_ids = st.post.mailbox_ids()
            for (a, mb) in st.pre.mailbox_ids():
                recent = (a, mb) in last and now - last[(a, mb)] < expiration
                if ((a, mb) in subs or recent):
                    rows = lambda T: ([r for r in T.messages if r[1] == mb], [r for r in T.mb_sides if r[0] == mb],
                                      [r for r in T.nameplates if r[3] == mb],
                                      [s for s in T.np_sides if s[0] in {r[0] for r in T.nameplates if r[3] == mb}])
                    if (a, mb) not in post_ids or rows(st.pre) != rows(st.post):
                        out.append(Finding("C12", "a sweep keeps a mailbox that is subscribed or recently active", st.i,
                                           {"mailbox": (a, mb), "subscribed": (a, mb) in subs,
                                            "last_activity": last.get((a, mb)), "now": now}))
            # being subscribed when a sweep runs counts as activity at that instant: a client that leaves afterwards may stay
            # away for the expiration time minus (at most) one sweep period - the sweeps are the periodic timer's
            for k in subs:
                if k in post_ids:
                    last[k] = now
            # sweeping never removes rows of a mailbox that stays
            for r in st.pre.nameplates:
                if (r[1], r[3]) in post_ids and (r[1], r[2]) not in st.post.np_by_key():
                    out.append(Finding("C12", "sweeping one mailbox removes nothing of another", st.i, {"nameplate": r}))
            for r in st.pre.messages:
                if (r[0], r[1]) in post_ids and r not in st.post.messages:
                    out.append(Finding("C12", "sweeping one mailbox removes nothing of another", st.i, {"message": r}))
        if st.post is not None:
            for k in [k for k in last if k not in st.post.mailbox_ids()]:
                del last[k]
        for ev in st.events:
            if ev["k"] == "T" and ev["now"] - ev["old"] != expiration:
                out.append(Finding("C12", "the sweep uses the configured expiration time", st.i, {"event": ev}))
        for bng in st.bangs():
            if bng.startswith("!timer") or bng.startswith("!unexpected-firing"):
                out.append(Finding("C12", "the service timer fires at start-up and every period", st.i, {"event": bng}))
    return out


def check_C13(tr, expiration):
    out = []
    for st in tr.steps:
        op = st.op
        if op["op"] == "sweep" and st.post is not None and not op.get("fault") and not st.crashed():
            subs = set(st.sub_pre.values())
            old = op["now"] - expiration
            for r in st.post.mailboxes:
                if r[2] < old and (r[0], r[1]) not in subs and st.pre is not None and \
                        any(x[1] == r[1] and x[2] == r[2] for x in st.pre.mailboxes):
                    out.append(Finding("C13", "a sweep deletes every idle unsubscribed mailbox", st.i, {"mailbox": r}))
            if not st.internal():
                ids = st.post.mailbox_ids()
                for n in st.post.nameplates:
                    if (n[1], n[3]) not in ids:
                        out.append(Finding("C13", "a swept mailbox takes its nameplate with it", st.i, {"nameplate": n}))
                for m in st.post.messages:
                    if (m[0], m[1]) not in ids:
                        out.append(Finding("C13", "a swept mailbox takes its messages with it", st.i, {"message": m}))
            if st.internal():
                out.append(Finding("C13", "a sweep completes without internal error", st.i, {"events": st.raw_events}))
        if op["op"] == "sweep" and op.get("fault") and not st.crashed():
            if not any(e["k"] == "X" and e["cls"] == "OperationalError" for e in st.events):
                out.append(Finding("C13", "a failing sweep is caught and logged", st.i, {"events": st.raw_events}))
            if st.pre is not None and st.post is not None and st.pre.chan_rows() != st.post.chan_rows():
                out.append(Finding("C13", "a failed sweep changes nothing", st.i, {}))
        for bng in st.bangs():
            if bng.startswith("!timer") or bng.startswith("!unexpected-firing"):
                out.append(Finding("C13", "sweeps keep running at the configured period", st.i, {"event": bng}))
    # quiescence: the last step is a non-faulted sweep, nobody is connected, and every
    # activity lies at least the expiration time before it -> the store is empty
    if tr.steps and tr.final is not None:
        # the last sweep; after it at most restarts (a restart shows what that sweep COMMITTED)
        j = len(tr.steps) - 1
        while j > 0 and tr.steps[j].op["op"] == "restart" and not tr.steps[j].crashed():
            j -= 1
        alive, last_t = set(), None
        for st in tr.steps[:j]:
            k = st.op["op"]
            # a sweep or command that finds somebody connected may stamp a mailbox with its own time
            tt = st.op.get("t", st.op.get("now"))
            if tt is not None and (alive or k == "recv"):
                last_t = tt if last_t is None else max(last_t, tt)
            if k == "connect":
                alive.add(st.op["c"])
            elif k == "drop":
                alive.discard(st.op["c"])
            elif k in ("restart", "cfg") or st.crashed():
                alive.clear()
        fin = tr.steps[j]
        if fin.op["op"] == "sweep" and not fin.op.get("fault") and not fin.crashed() and not alive and \
                (last_t is None or fin.op["now"] >= last_t + expiration):
            for what, state in (("the store is empty once everybody has gone and the expiration time has passed", fin.post),
                                ("... and is still empty after a restart (the sweep committed its deletions)",
                                 tr.final if j < len(tr.steps) - 1 else None)):
                if state is None:
                    continue
                n = sum(len(v) for k, v in state.chan_rows().items())
                if n:
                    out.append(Finding("C13", what, fin.i, {"rows_left": {k: v[:3] for k, v in state.chan_rows().items() if v}}))
                    break
    return out


# ------------------------------------------------------------------------------------- C15 / C16
def classify_mailbox(sides, pruned):
    moods = [s[4] for s in sides]
    n = len(sides)
    if n > 2:
        return "crowded"
    if pruned:
        return "pruney"
    for m in ("scary", "errory", "lonely"):
        if m in moods:
            return m
    return {0: "quiet", 1: "lonely"}.get(n, "happy")


def classify_nameplate(sides, pruned):
    n = len(sides)
    if n > 2:
        return "crowded"
    if pruned:
        return "pruney"
    return "happy" if n == 2 else "lonely"


def blur(t, b):
    if not b:
        return t
    B = b * TICKS
    return B * (t // B)


def _times(sides, when, b, idx):
    ts = sorted(s[idx] for s in sides)
    first = ts[0] if ts else when
    return blur(first, b), (ts[1] - ts[0] if len(ts) > 1 else None), when - first


def check_C15(tr):
    out = []
    if not tr.cfg.get("usage"):
        return out
    b = tr.cfg.get("blur")
    took_part = {}     # (app, mailbox) -> sides that touched the current incarnation (ghost, from the history)
    last_mood = {}     # (app, mailbox, side) -> the mood of that side's LAST close answered `closed` (ghost, from the history)
    arrived = {}       # (app, mailbox, side) -> when that side first took part in the current incarnation (ghost)
    for st in tr.steps:
        if st.pre is None or st.post is None or tr.has_crash:
            continue
        op = st.op
        # ghost: which sides took part in each mailbox (open / close / claim / allocate that reached the store)
        if op["op"] == "recv":
            c0, m0 = op["c"], op["msg"]
            b0 = st.bind_pre.get(c0)
            e0 = st.err(c0)
            t0 = m0.get("type")
            if b0 and st.frames(c0, "ack") and not st.internal() and (e0 is None or e0 == "crowded"):
                tgt = None
                if t0 == "open" and "mailbox" in m0:
                    tgt = m0["mailbox"]
                elif t0 == "close":
                    tgt = close_target(st)
                elif t0 == "claim" and "nameplate" in m0:
                    row = st.pre.np_by_key().get((b0[0], m0["nameplate"]))
                    tgt = row[3] if row else op.get("fresh")
                elif t0 == "allocate" and st.frames(c0, "allocated"):
                    tgt = op.get("fresh")
                if tgt is not None:
                    if (b0[0], tgt) not in st.pre.mailbox_ids():
                        took_part[(b0[0], tgt)] = set()
                        for k in [k for k in last_mood if k[:2] == (b0[0], tgt)]:
                            del last_mood[k]
                        for k in [k for k in arrived if k[:2] == (b0[0], tgt)]:
                            del arrived[k]
                    took_part.setdefault((b0[0], tgt), set()).add(b0[1])
                    arrived.setdefault((b0[0], tgt, b0[1]), op["t"])
                    if t0 == "close" and e0 is None and st.frames(c0, "closed") and \
                            (m0.get("mood") is None or isinstance(m0.get("mood"), str)):
                        last_mood[(b0[0], tgt, b0[1])] = m0.get("mood")
        for r in list(st.pre.mailboxes) + _ephemeral_mailbox(st):
            if (r[0], r[1]) not in st.post.mailbox_ids():
                sides_db = {s[2] for s in st.post_sides_at_delete(r[1])}
                ghost = took_part.pop((r[0], r[1]), None)
                if ghost is not None and ghost != sides_db:
                    out.append(Finding("C15", "the record of a retired mailbox is derived from every side that took part", st.i,
                                       {"mailbox": (r[0], r[1]), "sides_by_history": sorted(ghost), "side_records": sorted(sides_db)}))
        when = op.get("t", op.get("now"))
        pruned = op["op"] == "sweep"
        def new_rows(a, bb):
            rest = list(a)
            res = []
            for r in bb:
                if r in rest:
                    rest.remove(r)
                else:
                    res.append(r)
            return res, rest
        add_np, lost_np = new_rows(st.pre.u_nameplates, st.post.u_nameplates)
        add_mb, lost_mb = new_rows(st.pre.u_mailboxes, st.post.u_mailboxes)
        if lost_np or lost_mb:
            out.append(Finding("C15", "usage records are never removed", st.i, {}))
        want_np = []
        pre_np = {r[0]: r for r in st.pre.nameplates}
        for npid in set(pre_np) - {r[0] for r in st.post.nameplates}:
            sides = [s for s in st.pre.np_sides if s[0] == npid]
            # the releasing side's row was cleared in this very step; classification counts sides only
            started, waiting, total = _times(sides, when, b, 3)
            want_np.append((pre_np[npid][1], started, waiting, total, classify_nameplate(sides, pruned)))
        want_mb = []
        for r in list(st.pre.mailboxes) + _ephemeral_mailbox(st):
            if (r[0], r[1]) not in st.post.mailbox_ids():
                sides = [s for s in st.post_sides_at_delete(r[1])]
                # the mood of a side is what its LAST answered close said (the table may have lost a repeated close's mood)
                # ... and its arrival is when it FIRST took part in this incarnation (a row replaced later must not move it)
                sides = [tuple(list(s[:3]) + [arrived.get((r[0], r[1], s[2]), s[3]), last_mood.get((r[0], r[1], s[2]), s[4])])
                         for s in sides]
                started, waiting, total = _times(sides, when, b, 3)
                want_mb.append((r[0], r[3], started, total, waiting, classify_mailbox(sides, pruned)))
        if sorted(want_np, key=repr) != sorted(add_np, key=repr):
            out.append(Finding("C15", "exactly one correctly classified record per retired nameplate", st.i,
                               {"expected": want_np, "written": add_np}))
        for k in [k for k in last_mood if (k[0], k[1]) not in st.post.mailbox_ids()]:
            del last_mood[k]
        for k in [k for k in arrived if (k[0], k[1]) not in st.post.mailbox_ids()]:
            del arrived[k]
        if sorted(want_mb, key=repr) != sorted(add_mb, key=repr):
            out.append(Finding("C15", "exactly one correctly classified record per retired mailbox", st.i,
                               {"expected": want_mb, "written": add_mb}))
        if op["op"] == "sweep":
            cur = st.post.u_current
            nsub = len(st.sub_pre)
            if len(cur) != 1 or cur[0][3] != nsub or cur[0][1] != op["now"]:
                out.append(Finding("C15", "the status row reports the number of subscribed connections", st.i,
                                   {"row": cur, "subscribed": nsub}))
    return out


def close_target(st):
    """the mailbox a close command refers to: the held one, the named one, or the one the
    connection remembers from its open"""
    op = st.op
    c = op["c"]
    for v in (st.held_pre.get(c), op["msg"].get("mailbox"), getattr(st, "flags_pre", {}).get(c, {}).get("mbid")):
        if v is not None:       # (the empty string is a mailbox id like any other)
            return v
    return None


def _ephemeral_mailbox(st):
    """a close of a mailbox that does not exist creates it and deletes it in one step"""
    op = st.op
    crashed = st.crashed()      # killed inside the step: no answer, and the created row may have been committed
    if op["op"] == "recv" and op["msg"].get("type") == "close" and (st.frames(op["c"], "closed") or crashed):
        b = st.bind_pre.get(op["c"])
        mb = close_target(st)
        if b and mb is not None and (b[0], mb) not in st.pre.mailbox_ids() \
                and (crashed or (b[0], mb) not in st.post.mailbox_ids()) \
                and not any(r[1] == mb for r in st.pre.mailboxes):
            return [(b[0], mb, op["t"], 0)]
    return []


def _post_sides_at_delete(self, mb):
    """side rows of a mailbox deleted in this step, as they were at deletion: the pre rows,
    with the closing side's own row closed with the mood it sent (close updates before deleting)"""
    rows = [list(s) for s in self.pre.mb_sides if s[0] == mb]
    op = self.op
    if op["op"] == "recv" and op["msg"].get("type") == "close":
        b = self.bind_pre.get(op["c"])
        side = b[1] if b else None
        found = False
        for r in rows:
            if r[2] == side:
                r[1] = 0
                r[4] = op["msg"].get("mood")
                found = True
        if not found and side is not None:
            rows.append([mb, 0, side, op["t"], op["msg"].get("mood")])
    return [tuple(r) for r in rows]


Step.post_sides_at_delete = _post_sides_at_delete


def _pre_mb_sides_in_order(self, mb):
    """side rows of a mailbox before the step, oldest first (by `added`, the dump itself is sorted textually)"""
    return sorted([s for s in self.pre.mb_sides if s[0] == mb], key=lambda s: (s[3], s[2]))


Step.pre_mb_sides_in_order = _pre_mb_sides_in_order


def check_C16(tr):
    out = []
    b = tr.cfg.get("blur")
    if not tr.cfg.get("usage") or not b:
        return out
    B = b * TICKS
    for st in tr.steps:
        if st.pre is None or st.post is None:
            continue
        op = st.op
        for tbl, idx in (("u_nameplates", 1), ("u_mailboxes", 2), ("u_clients", 2)):
            pre = list(getattr(st.pre, tbl))
            for r in getattr(st.post, tbl):
                if r in pre:
                    pre.remove(r)
                    continue
                v = r[idx]
                if not isinstance(v, int) or v % B != 0:
                    out.append(Finding("C16", "a recorded time is a multiple of the blur interval", st.i, {"table": tbl, "row": r}))
                    continue
                # the true time: bind time / smallest `added` of the object's side rows
                if tbl == "u_clients":
                    true = [op.get("t")]
                elif tbl == "u_nameplates":
                    true = sorted({min(s[3] for s in st.pre.np_sides if s[0] == n[0]) for n in st.pre.nameplates
                                   if n[1] == r[0] and [s for s in st.pre.np_sides if s[0] == n[0]]})
                else:
                    true = sorted({min([s[3] for s in st.post_sides_at_delete(m[1])] or [op.get("t", op.get("now"))])
                                   for m in list(st.pre.mailboxes) + _ephemeral_mailbox(st) if m[0] == r[0]})
                if not any(t is not None and v <= t < v + B for t in true):
                    out.append(Finding("C16", "a recorded time lies less than one interval before the true time", st.i,
                                       {"table": tbl, "row": r, "true_candidates": true[:5]}))
    return out


def check_C16_float(tr):
    """the same two clauses for arbitrary double-precision times (seconds), in Python's own float arithmetic"""
    out = []
    b = tr.cfg.get("blur")
    if not tr.cfg.get("usage") or not b:
        return out
    sec = lambda v: None if v is None else (v / float(TICKS))
    for st in tr.steps:
        if st.pre is None or st.post is None:
            continue
        op = st.op
        when = op.get("t", op.get("now"))
        for tbl, idx in (("u_nameplates", 1), ("u_mailboxes", 2), ("u_clients", 2)):
            pre = list(getattr(st.pre, tbl))
            for r in getattr(st.post, tbl):
                if r in pre:
                    pre.remove(r)
                    continue
                v = sec(r[idx])
                if v is None or v % b != 0:
                    out.append(Finding("C16", "a recorded time is a multiple of the blur interval", st.i, {"table": tbl, "row": r, "blur": b}))
                    continue
                if tbl == "u_clients":
                    true = [sec(when)]
                elif tbl == "u_nameplates":
                    true = [sec(min(s[3] for s in st.pre.np_sides if s[0] == n[0])) for n in st.pre.nameplates
                            if n[1] == r[0] and [s for s in st.pre.np_sides if s[0] == n[0]]]
                else:
                    true = [sec(min([s[3] for s in st.post_sides_at_delete(m[1])] or [when]))
                            for m in list(st.pre.mailboxes) + _ephemeral_mailbox(st) if m[0] == r[0]]
                if not any(t is not None and 0 <= t - v < b for t in true):
                    out.append(Finding("C16", "a recorded time lies less than one interval before the true time", st.i,
                                       {"table": tbl, "row": r, "recorded_s": v, "true_candidates_s": true[:5], "blur": b}))
    return out


# ------------------------------------------------------------------------------------- C17
VALIDATION = {"missing 'type'", "unknown type", "ping requires 'ping'", "already bound", "bind requires 'appid'",
              "bind requires 'side'", "must bind first", "you already allocated one, don't be greedy",
              "claim requires 'nameplate'", "only one claim per connection", "only one release per connection",
              "release and claim must use same nameplate", "release without nameplate must follow claim",
              "only one open per connection", "open requires 'mailbox'", "must open mailbox before adding",
              "missing 'phase'", "missing 'body'", "only one close per connection",
              "open and close must use same mailbox", "close without mailbox must follow open"}


def check_C17(tr, welcome=None):
    out = []
    for st in tr.steps:
        op = st.op
        for bng in st.bangs():
            if bng.startswith("!frame") or bng.startswith("!error-orig"):
                out.append(Finding("C17", "every frame carries type and server_tx; errors carry the original message", st.i, {"event": bng}))
        if op["op"] == "connect":
            fr = st.frames()
            if [x["type"] for x in fr] != ["welcome"] or fr[0]["c"] != op["c"] or \
                    (welcome is not None and json.loads(dec(fr[0]["args"][0])) != welcome):
                out.append(Finding("C17", "a connection is first sent the configured welcome", st.i, {"events": st.raw_events}))
        if op["op"] != "recv":
            continue
        c, m = op["c"], op["msg"]
        fr = st.frames(c)
        if "type" in m:
            if not fr or fr[0]["type"] != "ack" or dec(fr[0]["args"][0]) != m.get("id"):
                out.append(Finding("C17", "a command with a type is first answered with an ack echoing its id", st.i, {"events": st.raw_events}))
        else:
            if [x["type"] for x in fr] != ["error"] or st.err(c) != "missing 'type'":
                out.append(Finding("C17", "a command without type gets exactly one error", st.i, {"events": st.raw_events}))
        if m.get("type") == "ping" and "ping" in m:
            if [x["type"] for x in fr] != ["ack", "pong"] or dec(fr[1]["args"][0]) != m["ping"]:
                out.append(Finding("C17", "ping is answered by pong with the same value", st.i, {"events": st.raw_events}))
        expected = expected_rejection(st, op)
        e = st.err(c)
        if expected is not None:
            types = [x["type"] for x in fr]
            ok = types == (["ack", "error"] if "type" in m else ["error"]) and e == expected and \
                not [x for x in st.frames() if x["c"] != c] and not st.internal()
            if not ok:
                out.append(Finding("C17", "a malformed or out-of-order command gets exactly one error with the reason", st.i,
                                   {"expected": expected, "events": st.raw_events}))
            if st.pre is not None and st.post is not None and st.pre.raw != st.post.raw:
                out.append(Finding("C17", "a rejected command changes no stored state", st.i, {"expected": expected}))
        elif e in VALIDATION:
            out.append(Finding("C17", "a well-formed in-order command is not rejected", st.i, {"error": e, "op": op}))
        if st.internal() and not st.crashed():
            known = None
            clss = [x["cls"] for x in st.internal()]
            if m.get("type") == "bind" and "client_version" in m:
                import proto as _p
                if _p.bad_client_version(m["client_version"]):
                    continue      # outside the property's domain of well-formed commands (DESIGN 6, C17)
            if clss == ["IntegrityError"] and st.pre is not None and m.get("type") in ("open", "close"):
                mbid = m["mailbox"] if m.get("mailbox") is not None else (close_target(st) if m.get("type") == "close" else None)
                b = st.bind_pre.get(c)
                if b and any(r[1] == mbid and r[0] != b[0] for r in st.pre.mailboxes):
                    known = "K-global-mailbox-id"
            if clss == ["ValueError"] and m.get("type") == "allocate" and st.pre is not None:
                b = st.bind_pre.get(c)
                taken = {r[2] for r in st.pre.nameplates if b and r[1] == b[0]}
                if all(str(k) in taken for k in range(1, 1000)):
                    known = "K-alloc-exhaust"
            if clss == ["OverflowError"] and m.get("type") == "add" and any(
                    isinstance(m.get(k), int) and not isinstance(m.get(k), bool) and not (-2 ** 63 <= m.get(k) < 2 ** 63)
                    for k in ("phase", "body", "id")):
                known = "K-int64-overflow"
            out.append(Finding("C17", "no sequence of well-formed commands makes a handler fail internally", st.i,
                               {"events": st.raw_events}, known))
    return out


def expected_rejection(st, op):
    """the validation error the protocol prescribes for this command in this connection
    state (ghost flags recomputed from the history), or None if it must be processed"""
    c, m = op["c"], op["msg"]
    fl = st.flags_pre.get(c, {})
    if "type" not in m:
        return "missing 'type'"
    t = m["type"]
    if t == "ping":
        return None if "ping" in m else "ping requires 'ping'"
    if t == "bind":
        if fl.get("bound"):
            return "already bound"
        if "appid" not in m:
            return "bind requires 'appid'"
        if "side" not in m:
            return "bind requires 'side'"
        return None
    if not fl.get("bound"):
        return "must bind first"
    if t == "list":
        return None
    if t == "allocate":
        return "you already allocated one, don't be greedy" if fl.get("allocated") else None
    if t == "claim":
        if "nameplate" not in m:
            return "claim requires 'nameplate'"
        return "only one claim per connection" if fl.get("claimed") else None
    if t == "release":
        if fl.get("released"):
            return "only one release per connection"
        if "nameplate" in m:
            if fl.get("np") is not None and m["nameplate"] != fl["np"]:
                return "release and claim must use same nameplate"
            return None
        return None if fl.get("np") is not None else "release without nameplate must follow claim"
    if t == "open":
        if fl.get("holding"):
            return "only one open per connection"
        return None if "mailbox" in m else "open requires 'mailbox'"
    if t == "add":
        if not fl.get("holding"):
            return "must open mailbox before adding"
        if "phase" not in m:
            return "missing 'phase'"
        return None if "body" in m else "missing 'body'"
    if t == "close":
        if fl.get("closed"):
            return "only one close per connection"
        if "mailbox" in m:
            if fl.get("mbid") is not None and m["mailbox"] != fl["mbid"]:
                return "open and close must use same mailbox"
            return None
        return None if fl.get("mbid") is not None else "close without mailbox must follow open"
    return "unknown type"


def add_flags(tr):
    """ghost protocol flags per connection, from the history and the answers only"""
    flags = {}
    for st in tr.steps:
        st.flags_pre = {c: dict(f) for c, f in flags.items()}
        op = st.op
        k = op["op"]
        if k == "connect":
            flags[op["c"]] = {}
        elif k == "drop":
            flags.pop(op["c"], None)
        elif k in ("restart", "cfg"):
            flags.clear()
        elif k == "recv" and op["c"] in flags:
            c, m = op["c"], op["msg"]
            f = flags[c]
            exp = expected_rejection(st, op)
            if exp is None:
                t = m.get("type")
                if t == "bind":
                    f["bound"] = True
                elif t == "allocate":
                    if st.frames(c, "allocated"):
                        f["allocated"] = True
                elif t == "claim":
                    f["claimed"] = True
                    f["np"] = m["nameplate"]
                elif t == "release":
                    f["released"] = True
                elif t == "open":
                    f["mbid"] = m["mailbox"]
                    if st.err(c) is None and not st.internal():
                        f["holding"] = True
                elif t == "close":
                    if st.err(c) is None and not st.internal():
                        f["closed"] = True
                        f["holding"] = False
        if st.crashed():
            flags.clear()
        # a mailbox deleted under a subscribed connection ends its hold
        for c, f in flags.items():
            if f.get("holding") and c not in getattr(st, "sub_post", {}):
                f["holding"] = False


# ------------------------------------------------------------------------------------- C18 (list clause)
def check_C18_list(tr):
    out = []
    for st in tr.steps:
        op = st.op
        if op["op"] == "recv" and op["msg"].get("type") == "list" and st.pre is not None:
            c = op["c"]
            b = st.bind_pre.get(c)
            fr = st.frames(c, "nameplates")
            if not b or st.err(c):
                continue
            if len(fr) != 1:
                out.append(Finding("C18", "list is answered by exactly one nameplates frame", st.i, {"events": st.raw_events}))
                continue
            ids = [dec(x) for x in fr[0]["args"][0].split(",")] if fr[0]["args"][0] != "-" else []
            want = sorted({r[2] for r in st.pre.nameplates if r[1] == b[0]}) if tr.cfg.get("allow_list", True) else []
            if ids != want:
                out.append(Finding("C18", "list = the live nameplates of the caller's app, each once (or empty when disallowed)",
                                   st.i, {"got": ids, "expected": want}))
    return out


def make_trace(obs, history):
    tr = Trace.__new__(Trace)
    # mark steps that carry a crash prefix
    marked = []
    pending = None
    steps = []
    for (op, ev, d) in obs["steps"]:
        if op["op"] == "crash":
            pending = op["k"]
            steps.append((op, ev, d))
            continue
        if pending is not None and op["op"] != "dump":
            op = dict(op)
            op["_crash"] = pending
            pending = None
        steps.append((op, ev, d))
    obs2 = dict(obs)
    obs2["steps"] = steps
    tr.has_crash = any(op["op"] == "crash" for op in history)
    Trace.__init__(tr, obs2)
    tr.has_crash = any(op["op"] == "crash" for op in history)
    last = history[-1] if history else None
    tr.quiesced = bool(history and getattr(history, "quiesced", False))
    add_flags(tr)
    return tr
