"""Instrumented execution of the REAL database.py entry points, in a forked child process.

`run_entry(database, entry, dbpath, kill_at, logfd)` is called in a freshly forked child.  It
replaces the names `os`, `tempfile`, `shutil`, `sqlite3` *inside the database module* by thin
proxies that report a numbered event to `logfd` at every boundary:

    b:<op> / a:<op>      before / after  exists, getsize, mkstemp, osclose, connect, commit,
                         dbclose, rename, unlink, copy
    sql                  a statement is about to run (sqlite3 trace callback; text attached)
    a:execute, a:executescript   the Python call returned (the last statement is finished)
    copy:open, copy:half the backup file has been created empty / half written
                         (the wrapper performs these stages itself, then calls shutil.copy)

When event number `kill_at` is reached the process dies with os._exit(77): no Python
clean-up, no SQLite rollback, no atexit - what a kill -9 or a power cut leaves behind.
Nothing under /repo is modified; the package is only imported.
"""
import os as _os
import sys as _sys
import shutil as _shutil
import sqlite3 as _sqlite3
import tempfile as _tempfile

KILL_EXIT = 77


class _Recorder(object):
    def __init__(self, logfd, kill_at):
        self.fd = logfd
        self.kill_at = kill_at
        self.n = 0

    def event(self, kind, detail=""):
        line = "%d\t%s\t%s\n" % (self.n, kind, detail.encode("utf-8").hex())
        _os.write(self.fd, line.encode("ascii"))
        if self.n == self.kill_at:
            _os._exit(KILL_EXIT)
        self.n += 1


def _install(database, rec):
    real_os, real_tempfile, real_shutil, real_sqlite3 = _os, _tempfile, _shutil, _sqlite3

    class PathProxy(object):
        def __getattr__(self, name):
            return getattr(real_os.path, name)

        def exists(self, p):
            rec.event("b:exists", real_os.path.basename(p))
            r = real_os.path.exists(p)
            rec.event("a:exists", "1" if r else "0")
            return r

        def getsize(self, p):
            rec.event("b:getsize", real_os.path.basename(p))
            r = real_os.path.getsize(p)
            rec.event("a:getsize", str(r))
            return r

    class OsProxy(object):
        path = PathProxy()

        def __getattr__(self, name):
            return getattr(real_os, name)

        def close(self, fd):
            rec.event("b:osclose")
            r = real_os.close(fd)
            rec.event("a:osclose")
            return r

        def rename(self, a, b):
            rec.event("b:rename", real_os.path.basename(a) + ">" + real_os.path.basename(b))
            r = real_os.rename(a, b)
            rec.event("a:rename")
            return r

        replace = rename

        def unlink(self, p):
            rec.event("b:unlink", real_os.path.basename(p))
            r = real_os.unlink(p)
            rec.event("a:unlink")
            return r

        remove = unlink

    class TempfileProxy(object):
        def __getattr__(self, name):
            return getattr(real_tempfile, name)

        def mkstemp(self, *a, **kw):
            rec.event("b:mkstemp")
            fd, name = real_tempfile.mkstemp(*a, **kw)
            rec.event("a:mkstemp", real_os.path.basename(name))
            return fd, name

    class ShutilProxy(object):
        def __getattr__(self, name):
            return getattr(real_shutil, name)

        def _copy(self, which, src, dst):
            rec.event("b:copy", real_os.path.basename(src) + ">" + real_os.path.basename(dst))
            with open(src, "rb") as f:
                data = f.read()
            with open(dst, "wb"):
                pass
            rec.event("copy:open")
            with open(dst, "wb") as f:
                f.write(data[:max(1, len(data) // 2)])
            rec.event("copy:half")
            r = getattr(real_shutil, which)(src, dst)
            rec.event("a:copy")
            return r

        def copy(self, src, dst, **kw):
            return self._copy("copy", src, dst)

        def copy2(self, src, dst, **kw):
            return self._copy("copy2", src, dst)

        def copyfile(self, src, dst, **kw):
            return self._copy("copyfile", src, dst)

    class Conn(real_sqlite3.Connection):
        def execute(self, *a, **kw):
            r = real_sqlite3.Connection.execute(self, *a, **kw)
            rec.event("a:execute")
            return r

        def executescript(self, *a, **kw):
            r = real_sqlite3.Connection.executescript(self, *a, **kw)
            rec.event("a:executescript")
            return r

        def commit(self):
            rec.event("b:commit")
            r = real_sqlite3.Connection.commit(self)
            rec.event("a:commit")
            return r

        def close(self):
            rec.event("b:dbclose")
            r = real_sqlite3.Connection.close(self)
            rec.event("a:dbclose")
            return r

        def __exit__(self, *a):
            rec.event("b:ctxexit")
            r = real_sqlite3.Connection.__exit__(self, *a)
            rec.event("a:ctxexit")
            return r

    class Sqlite3Proxy(object):
        def __getattr__(self, name):
            return getattr(real_sqlite3, name)

        def connect(self, path, *a, **kw):
            rec.event("b:connect", real_os.path.basename(path))
            kw["factory"] = Conn
            c = real_sqlite3.connect(path, *a, **kw)
            c.set_trace_callback(lambda s: rec.event("sql", s))
            rec.event("a:connect")
            return c

    database.os = OsProxy()
    database.tempfile = TempfileProxy()
    database.shutil = ShutilProxy()
    database.sqlite3 = Sqlite3Proxy()


ENTRIES = {
    "cou_channel": lambda db, p: db.create_or_upgrade_channel_db(p),
    "cou_usage": lambda db, p: db.create_or_upgrade_usage_db(p),
    "create_channel": lambda db, p: db.create_channel_db(p),
    "create_usage": lambda db, p: db.create_usage_db(p),
    "open_existing": lambda db, p: db.open_existing_db(p),
}


def run_entry(database, entry, dbpath, kill_at, logfd):
    """Runs in the forked child; never returns."""
    rec = _Recorder(logfd, kill_at)
    try:
        _install(database, rec)
        try:
            conn = ENTRIES[entry](database, dbpath)
            outcome = "OK"
        except BaseException as e:  # noqa: the class name is the observation
            conn = None
            outcome = type(e).__name__
        _os.write(logfd, ("END\t%s\t\n" % outcome).encode("ascii"))
        # a normal process exit: the interpreter drops the connection (SQLite rolls an
        # open transaction back and removes its journal), nothing else is flushed
        if conn is not None:
            try:
                _sqlite3.Connection.close(conn)
            except Exception:
                pass
        conn = None
        import gc
        gc.collect()
    finally:
        _os._exit(0)
