#!/usr/bin/env python3
"""Translator, part 2: every SQL statement embedded in server.py -> lean/Wormhole/GeneratedSql.lean.

For every `<db>.execute(<sql>, <args>)` call of server.py (read with `ast`, nothing is imported or
executed) this emits a Lean value of type `Wormhole.Sql.Stmt`:

  * which database the statement runs on (channel / usage; `db` is resolved through the
    `db = self._db` / `db = self._usage_db` assignment of the enclosing function),
  * the parsed statement (SELECT / INSERT / UPDATE / DELETE over one table, `col = ?` conjuncts,
    one level of `col IN (SELECT col FROM t WHERE ...)`, ORDER BY, DISTINCT), with every `?` numbered
    in text order,
  * the Python argument expressions (`ast.unparse` of each element of the args tuple).

and the declared columns (name, type) of every table of channel-v1.sql and usage-v2.sql.

`Wormhole/Tie/*.lean` prove, for the statements named there, that the model's relational primitive
(Store.lean) IS the meaning of the generated statement under the SQL semantics of `Wormhole/Sql.lean`
and the argument binding written next to the theorem.  A change of a table, column, WHERE clause,
parameter order or constant argument in server.py therefore regenerates a different `Stmt` and the
theorem about it no longer checks, unless the new statement means the same.

Statement names: <Class>_<function>__<kind>_<table>_<k>, k = index among the statements of the same
kind and table in that function, in source order (so adding an unrelated statement renames nothing).
"""
import ast, os, re

from translate import TranslateError, SRC, HERE, lean_str, strip_sql_comments

OUT = os.path.join(os.path.dirname(HERE), "lean", "Wormhole", "GeneratedSql.lean")

TOK = re.compile(r"\s*(?:(`[^`]+`|[A-Za-z_][A-Za-z_0-9]*)|(\?)|([(),=*]))")


def tokens(sql):
    pos, out = 0, []
    sql = sql.strip()
    while pos < len(sql):
        m = TOK.match(sql, pos)
        if not m:
            raise TranslateError("cannot tokenise SQL at %r" % sql[pos:pos + 30])
        if m.group(1):
            w = m.group(1)
            out.append(("id", w[1:-1]) if w.startswith("`") else ("w", w))
        elif m.group(2):
            out.append(("?", "?"))
        else:
            out.append(("p", m.group(3)))
        pos = m.end()
    return out


class P:
    """recursive-descent parser for the statement shapes server.py uses"""

    def __init__(self, sql):
        self.t = tokens(sql)
        self.i = 0
        self.nparam = 0
        self.sql = sql

    def peek(self):
        return self.t[self.i] if self.i < len(self.t) else ("eof", "")

    def kw(self, *words):
        """consume the keyword sequence (case-insensitive) if present"""
        save = self.i
        for w in words:
            k, v = self.peek()
            if k == "w" and v.upper() == w:
                self.i += 1
            else:
                self.i = save
                return False
        return True

    def need_kw(self, *words):
        if not self.kw(*words):
            raise TranslateError("expected %s in %r" % (" ".join(words), self.sql))

    def punct(self, c):
        k, v = self.peek()
        if k == "p" and v == c:
            self.i += 1
            return True
        return False

    def need(self, c):
        if not self.punct(c):
            raise TranslateError("expected %r in %r" % (c, self.sql))

    def ident(self):
        k, v = self.peek()
        if k == "id" or (k == "w" and v.upper() not in ("WHERE", "FROM", "AND", "ORDER", "VALUES", "SET", "IN", "SELECT")):
            self.i += 1
            return v
        raise TranslateError("expected an identifier in %r" % self.sql)

    def param(self):
        k, _ = self.peek()
        if k != "?":
            raise TranslateError("only `?` placeholders are supported: %r" % self.sql)
        self.i += 1
        self.nparam += 1
        return self.nparam - 1

    def simple_where(self):
        conds = []
        if self.kw("WHERE"):
            while True:
                c = self.ident()
                self.need("=")
                conds.append((c, self.param()))
                if not self.kw("AND"):
                    break
        return conds

    def where(self):
        conds = []
        if self.kw("WHERE"):
            while True:
                c = self.ident()
                if self.punct("="):
                    conds.append(("eq", c, self.param()))
                elif self.kw("IN"):
                    self.need("(")
                    self.need_kw("SELECT")
                    sc = self.ident()
                    self.need_kw("FROM")
                    st = self.ident()
                    sw = self.simple_where()
                    self.need(")")
                    conds.append(("in", c, sc, st, sw))
                else:
                    raise TranslateError("unsupported condition in %r" % self.sql)
                if not self.kw("AND"):
                    break
        return conds

    def done(self):
        if self.peek()[0] != "eof":
            raise TranslateError("trailing text %r in %r" % (self.t[self.i:], self.sql))

    def parse(self):
        s = {"kind": None, "table": None, "distinct": False, "cols": [], "vals": [], "sets": [], "wh": [], "order": None}
        if self.kw("SELECT"):
            s["kind"] = "select"
            s["distinct"] = self.kw("DISTINCT")
            if self.punct("*"):
                s["cols"] = ["*"]
            else:
                s["cols"] = [self.ident()]
                while self.punct(","):
                    s["cols"].append(self.ident())
            self.need_kw("FROM")
            s["table"] = self.ident()
            s["wh"] = self.where()
            if self.kw("ORDER", "BY"):
                c = self.ident()
                asc = True
                if self.kw("DESC"):
                    asc = False
                else:
                    self.kw("ASC")
                s["order"] = (c, asc)
        elif self.kw("INSERT", "INTO"):
            s["kind"] = "insert"
            s["table"] = self.ident()
            self.need("(")
            s["cols"] = [self.ident()]
            while self.punct(","):
                s["cols"].append(self.ident())
            self.need(")")
            self.need_kw("VALUES")
            self.need("(")
            s["vals"] = [self.param()]
            while self.punct(","):
                s["vals"].append(self.param())
            self.need(")")
            if len(s["vals"]) != len(s["cols"]):
                raise TranslateError("INSERT with %d columns and %d values: %r" % (len(s["cols"]), len(s["vals"]), self.sql))
        elif self.kw("UPDATE"):
            s["kind"] = "update"
            s["table"] = self.ident()
            self.need_kw("SET")
            while True:
                c = self.ident()
                self.need("=")
                s["sets"].append((c, self.param()))
                if not self.punct(","):
                    break
            s["wh"] = self.where()
        elif self.kw("DELETE", "FROM"):
            s["kind"] = "delete"
            s["table"] = self.ident()
            s["wh"] = self.where()
        else:
            raise TranslateError("unsupported SQL statement %r" % self.sql)
        self.done()
        s["nparam"] = self.nparam
        return s


def _functions(tree):
    for node in tree.body:
        if isinstance(node, ast.FunctionDef):
            yield "", node
        elif isinstance(node, ast.ClassDef):
            for f in node.body:
                if isinstance(f, ast.FunctionDef):
                    yield node.name, f


def _db_of(func, recv):
    """which database `recv` (source text of the receiver of .execute) denotes in this function"""
    if recv in ("self._db",):
        return "chan"
    if recv in ("self._usage_db",):
        return "usage"
    if re.fullmatch(r"\w+", recv):
        found = set()
        for n in ast.walk(func):
            if isinstance(n, ast.Assign) and len(n.targets) == 1 and isinstance(n.targets[0], ast.Name) \
                    and n.targets[0].id == recv:
                src = ast.unparse(n.value)
                if src == "self._db":
                    found.add("chan")
                elif src == "self._usage_db":
                    found.add("usage")
                else:
                    found.add("?" + src)
        if len(found) == 1 and not next(iter(found)).startswith("?"):
            return next(iter(found))
    raise TranslateError("%s: cannot tell which database %r is" % (func.name, recv))


def _const_str(func, node):
    if isinstance(node, ast.Constant) and isinstance(node.value, str):
        return node.value
    if isinstance(node, ast.Name):
        vals = [n.value for n in ast.walk(func) if isinstance(n, ast.Assign) and len(n.targets) == 1
                and isinstance(n.targets[0], ast.Name) and n.targets[0].id == node.id]
        if len(vals) == 1 and isinstance(vals[0], ast.Constant) and isinstance(vals[0].value, str):
            return vals[0].value
    raise TranslateError("%s line %d: the SQL text is not a string constant" % (func.name, node.lineno))


def embedded_statements(path):
    """-> list of dicts (name, func, line, db, args, + parse()) in source order"""
    tree = ast.parse(open(path).read(), path)
    res = []
    for cls, f in _functions(tree):
        calls = [n for n in ast.walk(f) if isinstance(n, ast.Call) and isinstance(n.func, ast.Attribute)
                 and n.func.attr in ("execute", "executemany", "executescript")]
        calls.sort(key=lambda n: (n.lineno, n.col_offset))
        counts = {}
        for c in calls:
            fq = (cls + "." if cls else "") + f.name
            if c.func.attr != "execute":
                raise TranslateError("%s line %d: %s is not translated" % (fq, c.lineno, c.func.attr))
            if not c.args or len(c.args) > 2 or c.keywords:
                raise TranslateError("%s line %d: unexpected execute() call shape" % (fq, c.lineno))
            sql = _const_str(f, c.args[0])
            st = P(sql).parse()
            if len(c.args) == 2:
                if not isinstance(c.args[1], (ast.Tuple, ast.List)):
                    raise TranslateError("%s line %d: execute() arguments are not a literal tuple" % (fq, c.lineno))
                args = [ast.unparse(e) for e in c.args[1].elts]
            else:
                args = []
            if len(args) != st["nparam"]:
                raise TranslateError("%s line %d: %d placeholders but %d arguments" % (fq, c.lineno, st["nparam"], len(args)))
            st["db"] = _db_of(f, ast.unparse(c.func.value))
            st["args"] = args
            key = (st["kind"], st["table"])
            k = counts.get(key, 0)
            counts[key] = k + 1
            st["name"] = "%s__%s_%s_%d" % (re.sub(r"\W", "_", fq), st["kind"], st["table"], k)
            st["func"] = fq
            st["line"] = c.lineno
            st["pos"] = (c.lineno, c.col_offset)
            st["sql"] = re.sub(r"\s+", " ", sql).strip()
            res.append(st)
    return res


COLDEF = re.compile(r"^\s*`?(\w+)`?\s*(.*)$")


def table_columns(path):
    """CREATE TABLE statements of a schema script -> [(table, [(column, declared type, autoincrement?)])]"""
    text = strip_sql_comments(open(path).read())
    res = []
    for raw in text.split(";"):
        m = re.match(r"\s*create\s+table\s+`?(\w+)`?\s*\((.*)\)\s*$", raw, re.I | re.S)
        if not m:
            continue
        cols = []
        depth, cur, parts = 0, "", []
        for ch in m.group(2):
            if ch == "(":
                depth += 1
            if ch == ")":
                depth -= 1
            if ch == "," and depth == 0:
                parts.append(cur); cur = ""
            else:
                cur += ch
        parts.append(cur)
        for part in parts:
            part = " ".join(part.split())
            if not part:
                continue
            mm = COLDEF.match(part)
            name, rest = mm.group(1), mm.group(2)
            up = rest.upper()
            ty = up.split()[0] if up and up.split()[0] not in ("REFERENCES", "PRIMARY") else ""
            cols.append((name, ty, "AUTOINCREMENT" in up))
        res.append((m.group(1), cols))
    return res


def _lean_list(items):
    return "[" + ", ".join(items) + "]"


def lean_stmt(st):
    def cond(c):
        if c[0] == "eq":
            return ".eq %s %d" % (lean_str(c[1]), c[2])
        return ".inSel %s %s %s %s" % (lean_str(c[1]), lean_str(c[2]), lean_str(c[3]),
                                        _lean_list("(%s, %d)" % (lean_str(a), b) for a, b in c[4]))
    order = "none" if st["order"] is None else "some (%s, %s)" % (lean_str(st["order"][0]), "true" if st["order"][1] else "false")
    return ("{ kind := .%s, db := .%s, table := %s, distinct := %s,\n    cols := %s, vals := %s,\n    sets := %s,\n    wh := %s,\n"
            "    order := %s,\n    args := %s }") % (
        st["kind"], st["db"], lean_str(st["table"]), "true" if st["distinct"] else "false",
        _lean_list(lean_str(c) for c in st["cols"]), _lean_list(str(v) for v in st["vals"]),
        _lean_list("(%s, %d)" % (lean_str(a), b) for a, b in st["sets"]),
        _lean_list(cond(c) for c in st["wh"]), order, _lean_list(lean_str(a) for a in st["args"]))


def generate():
    stmts = embedded_statements(os.path.join(SRC, "server.py"))
    sch = os.path.join(SRC, "db-schemas")
    chan_cols = table_columns(os.path.join(sch, "channel-v1.sql"))
    usage_scripts = sorted(f for f in os.listdir(sch) if re.fullmatch(r"usage-v\d+\.sql", f))
    if not usage_scripts:
        raise TranslateError("no usage-v*.sql script")
    usage_cols = table_columns(os.path.join(sch, usage_scripts[-1]))
    L = ["/- GENERATED by harness/translate_sql.py from /repo/src/wormhole_mailbox_server/server.py and db-schemas/ -- do not edit.",
         "   Every SQL statement embedded in server.py, parsed, with its Python argument expressions. -/",
         "import Wormhole.Sql", "", "namespace Wormhole.GenSql", "open Wormhole.Sql", ""]
    for st in stmts:
        L.append("/-- %s, line %d: `%s` with `(%s)` -/" % (st["func"], st["line"], st["sql"].replace("`", "'"), ", ".join(st["args"])))
        L.append("def %s : Stmt :=\n  %s" % (st["name"], lean_stmt(st)))
        L.append("")
    L.append("/-- every embedded statement, by name, in source order -/")
    L.append("def all : List (String × Stmt) := [")
    L.append(",\n".join("  (%s, %s)" % (lean_str(st["name"]), st["name"]) for st in stmts))
    L.append("]")
    L.append("")

    def cols(name, tables, doc):
        L.append("/-- %s: declared columns (name, declared type, AUTOINCREMENT) per table -/" % doc)
        L.append("def %s : List (String × List (String × String × Bool)) := [" % name)
        L.append(",\n".join("  (%s, %s)" % (lean_str(t), _lean_list("(%s, %s, %s)" % (lean_str(c), lean_str(ty), "true" if au else "false")
                                                                   for c, ty, au in cs)) for t, cs in tables))
        L.append("]")
        L.append("")
    cols("chanColumns", chan_cols, "channel-v1.sql")
    cols("usageColumns", usage_cols, usage_scripts[-1])
    L.append("end Wormhole.GenSql")
    info = {"statements": len(stmts), "names": [s["name"] for s in stmts], "usage_schema": usage_scripts[-1]}
    return "\n".join(L) + "\n", info


def main():
    """-> info; info["error"] set (and the previous file kept) when server.py can no longer be read"""
    try:
        text, info = generate()
    except (TranslateError, OSError, SyntaxError) as e:
        return {"error": str(e)}
    old = open(OUT).read() if os.path.exists(OUT) else None
    if old != text:
        with open(OUT + ".tmp", "w") as f:
            f.write(text)
        os.replace(OUT + ".tmp", OUT)
    info["changed"] = old != text
    return info


if __name__ == "__main__":
    import json, sys
    json.dump(main(), sys.stdout, indent=1)
    print()
