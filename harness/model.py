"""Model side of the correspondence: pipe a history to the compiled Lean driver."""
import os, subprocess
from proto import op_line

HERE = os.path.dirname(os.path.abspath(__file__))
LEAN = os.path.join(os.path.dirname(HERE), "lean")
DRIVER = os.path.join(LEAN, ".lake", "build", "bin", "wormhole-driver")
REG_DRIVER = os.path.join(LEAN, ".lake", "build", "bin", "wormhole-reg-driver")


def run_model(history, dumps="end", driver=None):
    """-> (list of (op, events|None, dump|None), final_dump); same shape as impl.run_history"""
    lines = []
    expect = []   # per history op: what output block(s) follow
    for op in history:
        lines.append(op_line(op))
        if op["op"] == "crash":
            expect.append(("none",))
        elif op["op"] == "dump":
            expect.append(("dump",))
        else:
            if dumps == "all" and not op.get("_nodump"):
                lines.append("dump")
                expect.append(("ev", "dump"))
            else:
                expect.append(("ev",))
    lines.append("dump")
    p = subprocess.run([driver or DRIVER], input=("\n".join(lines) + "\n").encode(), stdout=subprocess.PIPE,
                       stderr=subprocess.PIPE, timeout=600)
    if p.returncode != 0:
        raise RuntimeError("model driver failed: %s" % p.stderr.decode()[:500])
    out = p.stdout.decode().split("\n")
    pos = 0

    def block(end):
        nonlocal pos
        b = []
        while pos < len(out) and out[pos] != end:
            b.append(out[pos]); pos += 1
        pos += 1
        return b
    res = []
    for op, ex in zip(history, expect):
        ev = d = None
        if ex[0] == "ev":
            ev = block("E")
            if len(ex) > 1:
                d = sorted(x for x in block("D end"))
        elif ex[0] == "dump":
            ev = sorted(block("D end"))
        res.append((op, ev, d))
    final = sorted(block("D end"))
    return res, final
