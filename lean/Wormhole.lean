import Wormhole.Basic
import Wormhole.Store
import Wormhole.Generated
import Wormhole.Sys
import Wormhole.Core
import Wormhole.Ws
import Wormhole.Inv.Defs
