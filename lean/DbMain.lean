/-
  Line-protocol driver for the database-file model (`Wormhole/DbFile.lean`, properties C19/C20).

  stdin: one scenario per line, TAB separated:   <entry> <schema> <files>
    entry   getdb | create | open          (create_or_upgrade_*_db | create_*_db | open_existing_db)
    schema  channel | usage | <name>@<target>   (configuration `cfgOf name target` over Generated.scripts)
    files   `-` or entries joined by \x1e, each  <path> \x1d <content>
    content J<hex bytes>            bytes that are not a database (J alone = zero-length file)
            T<db> | D<db>           truncated / intact database
    db      <objects> \x1c <version rows> \x1c <payload> \x1c <fk 0|1>
            objects   kind|name|text joined by \x1f
            versions  i<int> | n | t<hex> joined by ","
            payload   table=tok+tok… joined by ";"
  The database path is `db.sqlite`, mkstemp returns `db.sqlite.TMP` (restart: `db.sqlite.TMP2`).

  stdout per scenario:
    B
    S <k> <label|-> <status> <dir|=>     state after k steps (k = 0: initial); label of step k
                                         (`-`: a step no tracer of the real code can see);
                                         `=`: directory as in the previous S line
    R <k> <status> <dir|=>               outcome of a normal start (getdb, same schema) from the
                                         directory a crash after k steps leaves
    E
  Imports only the model (no Mathlib).
-/
import Wormhole.DbFile

open Wormhole.DbFile

def hexDigit (n : Nat) : Char := if n < 10 then Char.ofNat (48 + n) else Char.ofNat (87 + n)

def hexOfBytes (bs : List UInt8) : String :=
  bs.foldl (fun acc b => (acc.push (hexDigit (b.toNat / 16))).push (hexDigit (b.toNat % 16))) ""

def hexVal (c : Char) : Option Nat :=
  if '0' ≤ c ∧ c ≤ '9' then some (c.toNat - 48)
  else if 'a' ≤ c ∧ c ≤ 'f' then some (c.toNat - 87)
  else none

def bytesOfHex : List Char → Option (List UInt8)
  | [] => some []
  | a :: b :: rest => do
    let x ← hexVal a
    let y ← hexVal b
    let r ← bytesOfHex rest
    pure (UInt8.ofNat (x * 16 + y) :: r)
  | _ => none

def stringOfHex (h : String) : Option String := do
  let bs ← bytesOfHex h.toList
  String.fromUTF8? ⟨bs.toArray⟩

def sepObj : String := "\x1f"
def sepEntry : String := "\x1e"
def sepPath : String := "\x1d"
def sepField : String := "\x1c"

def showVer : VerVal → String
  | .int i => "i" ++ toString i
  | .null => "n"
  | .text s => "t" ++ hexOfBytes s.toUTF8.toList

def showDb (d : Db) : String :=
  sepObj.intercalate (d.objects.map showStmt) ++ sepField ++
  ",".intercalate (d.version.map showVer) ++ sepField ++
  ";".intercalate (d.payload.map fun e => e.1 ++ "=" ++ "+".intercalate e.2) ++ sepField ++
  (if d.fkBad then "1" else "0")

def showContent : Content → String
  | .junk b => "J" ++ hexOfBytes b
  | .trunc d => "T" ++ showDb d
  | .db d => "D" ++ showDb d

def showDir (d : Dir) : String :=
  if d.entries.isEmpty then "-"
  else
    let sorted := (d.entries.toArray.qsort (fun a b => a.1 < b.1)).toList
    sepEntry.intercalate (sorted.map fun e => e.1 ++ sepPath ++ showContent e.2)

def showStatus : Status → String
  | .running => "running"
  | .ok => "ok"
  | .failed e =>
    "failed:" ++ (match e with
      | .dbError => "DBError" | .operationalError => "OperationalError"
      | .databaseError => "DatabaseError" | .typeError => "TypeError"
      | .alreadyExists => "DBAlreadyExists" | .doesntExist => "DBDoesntExist"
      | .resourceMissing => "ResourceMissing" | .unsupportedSql => "UnsupportedSql"
      | .envViolation => "EnvViolation")

def parseStmt (s : String) : Option Stmt :=
  match s.splitOn "|" with
  | k :: o :: rest => some (k, o, "|".intercalate rest)
  | _ => none

def parseVer (s : String) : Option VerVal :=
  match s.toList with
  | 'i' :: r => (String.ofList r).toInt?.map .int
  | ['n'] => some .null
  | 't' :: r => (stringOfHex (String.ofList r)).map .text
  | _ => none

def parsePayloadEntry (s : String) : Option (String × List Row) :=
  match s.splitOn "=" with
  | [t, rows] => some (t, if rows = "" then [] else rows.splitOn "+")
  | _ => none

def parseDb (s : String) : Option Db :=
  match s.splitOn sepField with
  | [objs, vers, pay, fk] => do
    let objects ← if objs = "" then some [] else (objs.splitOn sepObj).mapM parseStmt
    let version ← if vers = "" then some [] else (vers.splitOn ",").mapM parseVer
    let payload ← if pay = "" then some [] else (pay.splitOn ";").mapM parsePayloadEntry
    let fkBad ← if fk = "1" then some true else if fk = "0" then some false else none
    pure { objects := objects, version := version, payload := payload, fkBad := fkBad }
  | _ => none

def parseContent (s : String) : Option Content :=
  match s.toList with
  | 'J' :: r => (bytesOfHex r).map .junk
  | 'T' :: r => (parseDb (String.ofList r)).map .trunc
  | 'D' :: r => (parseDb (String.ofList r)).map .db
  | _ => none

def parseDir (s : String) : Option Dir :=
  if s = "-" then some ⟨[]⟩
  else do
    let es ← (s.splitOn sepEntry).mapM fun e =>
      match e.splitOn sepPath with
      | [p, c] => (parseContent c).map fun c => (p, c)
      | _ => none
    pure ⟨es⟩

def parseEntry : String → Option Entry
  | "getdb" => some .getDb
  | "create" => some .createOnly
  | "open" => some .openOnly
  | _ => none

def parseCfg (s : String) : Option Cfg :=
  if s = "channel" then some channelCfg
  else if s = "usage" then some usageCfg
  else match s.splitOn "@" with
    | [n, t] => t.toNat?.map fun t => cfgOf n t
    | _ => none

def fuel : Nat := 100000

def scenario (e : Entry) (cfg : Cfg) (d : Dir) : List String := Id.run do
  let cx : Ctx := { cfg := cfg, dbfile := "db.sqlite", tmp := "db.sqlite.TMP" }
  let cx2 : Ctx := { cx with tmp := "db.sqlite.TMP2" }
  let m0 := start e d
  let states : List (Option String × M) := (none, m0) :: trace cx fuel m0
  let mut out : Array String := #["B"]
  let mut prev : Option String := none
  let mut k := 0
  for (lab, m) in states do
    let ds := showDir m.dir
    let shown := if prev = some ds then "=" else ds
    prev := some ds
    out := out.push s!"S\t{k}\t{lab.getD "-"}\t{showStatus m.status}\t{shown}"
    k := k + 1
  let mut prevR : Option String := none
  k := 0
  for (_, m) in states do
    let r := runFuel cx2 fuel (start .getDb m.dir)
    let ds := showDir r.dir
    let shown := if prevR = some ds then "=" else ds
    prevR := some ds
    out := out.push s!"R\t{k}\t{showStatus r.status}\t{shown}"
    k := k + 1
  out := out.push "E"
  return out.toList

def handle (line : String) : List String :=
  match line.splitOn "\t" with
  | [e, c, f] =>
    match parseEntry e, parseCfg c, parseDir f with
    | some e, some c, some d => scenario e c d
    | _, _, _ => ["B", "X parse error", "E"]
  | _ => ["B", "X parse error", "E"]

partial def loop (stdin : IO.FS.Stream) (stdout : IO.FS.Stream) : IO Unit := do
  let line ← stdin.getLine
  if line.isEmpty then return ()
  let line := String.ofList (line.toList.reverse.dropWhile (fun c => c = '\n' || c = '\r')).reverse
  if !line.isEmpty then
    for l in handle line do
      stdout.putStrLn l
    stdout.flush
  loop stdin stdout

def main : IO Unit := do
  let stdin ← IO.getStdin
  let stdout ← IO.getStdout
  loop stdin stdout
