/-
  Line-protocol driver for the REGISTRY model (`Wormhole/Reg.lean`): a copy of Main.lean's
  driver that runs `rstep` (the server with its AppNamespace/Mailbox objects) instead of
  `Sys.step`.  Same input format, same output format; `dump` prints the tables of the
  database part (`RSys.core`).  Imports only the model (no Mathlib).
  Like Main.lean it also accepts the `recvj` form (the JSON object itself, classified by
  `Wormhole.decodeCmd`) and the `cfgw` form (welcome text computed by `Wormhole.mkCfg`).
-/
import Wormhole.Reg
import Wormhole.Decode

open Wormhole

def hexDigit (n : Nat) : Char := if n < 10 then Char.ofNat (48 + n) else Char.ofNat (87 + n)

def hexOfString (s : String) : String :=
  s.toUTF8.foldl (fun acc b => (acc.push (hexDigit (b.toNat / 16))).push (hexDigit (b.toNat % 16))) ""

def hexVal (c : Char) : Option Nat :=
  if '0' ≤ c ∧ c ≤ '9' then some (c.toNat - 48)
  else if 'a' ≤ c ∧ c ≤ 'f' then some (c.toNat - 87)
  else none

def bytesOfHex : List Char → Option (List UInt8)
  | [] => some []
  | a :: b :: rest => do
    let x ← hexVal a
    let y ← hexVal b
    let r ← bytesOfHex rest
    pure (UInt8.ofNat (x * 16 + y) :: r)
  | _ => none

def stringOfHex (h : String) : Option String := do
  let bs ← bytesOfHex h.toList
  String.fromUTF8? ⟨bs.toArray⟩

/-- `-` absent, `~` null, `h<hex>` string, `i<int>` integer -/
inductive Tok where
  | absent | null | str (s : String) | int (i : Int)

def parseTok (t : String) : Option Tok :=
  if t = "-" then some .absent
  else if t = "~" then some .null
  else match t.toList with
  | 'h' :: rest => (stringOfHex (String.ofList rest)).map .str
  | 'i' :: rest => (String.ofList rest).toInt?.map .int
  | _ => none

def tokOptStr : Tok → Option (Option String)
  | .absent => some none
  | .null => some none
  | .str s => some (some s)
  | .int _ => none

def tokOptVal : Tok → Option Val
  | .absent => none
  | .null => some .null
  | .str s => some (.str s)
  | .int i => some (.int i)

def tokVal : Tok → Val
  | .absent => .null
  | .null => .null
  | .str s => .str s
  | .int i => .int i

def showVal : Val → String
  | .null => "~"
  | .str s => "h" ++ hexOfString s
  | .int i => "i" ++ toString i

def showOptStr : Option String → String
  | none => "~"
  | some s => "h" ++ hexOfString s

def showOptInt : Option Int → String
  | none => "~"
  | some s => toString s

def showBool (b : Bool) : String := if b then "1" else "0"

def showFrame : Frame → String
  | .welcome w => "welcome h" ++ hexOfString w
  | .ack id => "ack " ++ showVal id
  | .pong v => "pong " ++ showVal v
  | .error t => "error h" ++ hexOfString t
  | .nameplates ids => "nameplates " ++ (if ids.isEmpty then "-" else ",".intercalate (ids.map (fun s => "h" ++ hexOfString s)))
  | .allocated n => "allocated h" ++ hexOfString n
  | .claimed m => "claimed h" ++ hexOfString m
  | .released => "released"
  | .message sd ph bd rx id => s!"message h{hexOfString sd} {showVal ph} {showVal bd} {rx} {showVal id}"
  | .closed => "closed"

def showEvent : Event → String
  | .frame c f sy => s!"F {c} {showBool sy} {showFrame f}"
  | .commit .chan => "C chan"
  | .commit .usage => "C usage"
  | .internal none cls => s!"X - {cls}"
  | .internal (some c) cls => s!"X {c} {cls}"
  | .fired now old => s!"T {now} {old}"

def dumpLines (s : Sys) : List String :=
  let h := fun (x : String) => "h" ++ hexOfString x
  (s.db.nameplates.map fun r => s!"D nameplates {r.id} {h r.app} {h r.name} {h r.mailbox}") ++
  (s.db.npSides.map fun r => s!"D nameplate_sides {r.npid} {showBool r.claimed} {h r.side} {r.added}") ++
  (s.db.mailboxes.map fun r => s!"D mailboxes {h r.app} {h r.id} {r.updated} {showBool r.forNp}") ++
  (s.db.mbSides.map fun r => s!"D mailbox_sides {h r.mailbox} {showBool r.opened} {h r.side} {r.added} {showOptStr r.mood}") ++
  (s.db.messages.map fun r => s!"D messages {h r.app} {h r.mailbox} {h r.side} {showVal r.phase} {showVal r.body} {r.rx} {showVal r.msgId}") ++
  [s!"D nextnp {s.db.nextNp}"] ++
  (s.udb.nameplates.map fun r => s!"D u_nameplates {h r.app} {r.started} {showOptInt r.waiting} {r.total} {h r.result}") ++
  (s.udb.mailboxes.map fun r => s!"D u_mailboxes {h r.app} {showBool r.forNp} {r.started} {r.total} {showOptInt r.waiting} {h r.result}") ++
  (s.udb.current.map fun r => s!"D u_current {r.rebooted} {r.updated} {match r.blur with | none => "~" | some b => toString b} {r.conns}") ++
  (s.udb.clients.map fun r => s!"D u_client_versions {h r.app} {h r.side} {r.time} {showOptStr r.impl} {showOptStr r.version}") ++
  [s!"D synced {showBool s.synced}", "D end"]

def parseDraws (t : String) : Option (List Nat) :=
  if t = "-" then some [] else (t.splitOn ",").mapM (·.toNat?)

def parseCmd : List String → Option Cmd
  | ["notype"] => some .noType
  | ["unknown"] => some .unknown
  | ["ping", v] => do let t ← parseTok v; pure (.ping (tokOptVal t))
  | ["bind", a, sd, i, v] => do
    let a ← parseTok a >>= tokOptStr
    let sd ← parseTok sd >>= tokOptStr
    let i ← parseTok i >>= tokOptStr
    let v ← parseTok v >>= tokOptStr
    pure (.bind a sd i v)
  | ["list"] => some .list
  | ["allocate", p, d, f] => do
    let p ← p.toNat?
    let d ← parseDraws d
    let f ← parseTok f >>= tokOptStr
    pure (.allocate p d (f.getD ""))
  | ["claim", n, f] => do
    let n ← parseTok n >>= tokOptStr
    let f ← parseTok f >>= tokOptStr
    pure (.claim n (f.getD ""))
  | ["release", n] => do let n ← parseTok n >>= tokOptStr; pure (.release n)
  | ["open", m] => do let m ← parseTok m >>= tokOptStr; pure (.open_ m)
  | ["add", p, b] => do
    let p ← parseTok p
    let b ← parseTok b
    pure (.add (tokOptVal p) (tokOptVal b))
  | ["close", m, mood] => do
    let m ← parseTok m >>= tokOptStr
    let mood ← parseTok mood >>= tokOptStr
    pure (.close m mood)
  | _ => none

def parseOp : List String → Option Op
  | ["connect", c] => do pure (.connect (← c.toNat?))
  | "recv" :: c :: t :: id :: rest => do
    let c ← c.toNat?
    let t ← t.toInt?
    let id ← parseTok id
    let cmd ← parseCmd rest
    pure (.recv c t (tokVal id) cmd)
  | ["drop", c] => do pure (.drop (← c.toNat?))
  | ["sweep", now, f] => do pure (.sweep (← now.toInt?) (f = "1"))
  | ["restart", t] => do pure (.restart (← t.toInt?))
  | _ => none

structure DState where
  sys : RSys := {}
  crash : Option Nat := none

def parseCfg : List String → Option (Cfg × Int)
  | [al, us, bl, w, rb] => do
    let blur ← if bl = "-" then some none else bl.toNat?.map some
    let w ← parseTok w >>= tokOptStr
    let rb ← rb.toInt?
    pure ({ allowList := al = "1", usage := us = "1", blur := blur, welcome := w.getD "{}" }, rb)
  | _ => none

def parseCfgw : List String → Option (Cfg × Int)
  | [al, us, bl, motd, adv, err, rb] => do
    let blur ← if bl = "-" then some none else bl.toNat?.map some
    let motd ← parseTok motd >>= tokOptStr
    let adv ← parseTok adv >>= tokOptStr
    let err ← parseTok err >>= tokOptStr
    let rb ← rb.toInt?
    pure (mkCfg (al = "1") (us = "1") blur motd adv err, rb)
  | _ => none

/-- a JSON value token of the `recvj` form -/
def parseJTok (t : String) : Option JVal :=
  if t = "~" then some .null
  else if t = "t" then some (.bool true)
  else if t = "f" then some (.bool false)
  else if t = "o" then some .other
  else match t.toList with
  | 'h' :: rest => (stringOfHex (String.ofList rest)).map .str
  | 'i' :: rest => (String.ofList rest).toInt?.map .num
  | _ => none

/-- the pairs of a `recvj` line -> the object, and the exception class of an un-indexable
    `client_version` (which is then left out of the object) -/
def parsePairs : List String → Option (JObj × Option String)
  | [] => some ([], none)
  | p :: rest => do
    let (o, bad) ← parsePairs rest
    match p.splitOn "=" with
    | ["cv", v] =>
      if v.startsWith "!" then pure (o, some (v.drop 1).toString)
      else match v.splitOn "," with
        | [a, b] => do
          let a ← parseJTok a
          let b ← parseJTok b
          pure (("client_version", .pair a b) :: o, bad)
        | _ => none
    | [k, v] => do
      let k ← stringOfHex k
      let v ← parseJTok v
      pure ((k, v) :: o, bad)
    | _ => none

structure RecvJ where
  c : Nat
  t : Int
  obj : JObj
  badCv : Option String
  pick : Nat
  draws : List Nat
  fresh : String

def parseRecvJ : List String → Option RecvJ
  | c :: t :: pick :: draws :: fresh :: pairs => do
    let c ← c.toNat?
    let t ← t.toInt?
    let pick ← pick.toNat?
    let draws ← parseDraws draws
    let fresh ← parseTok fresh >>= tokOptStr
    let (o, bad) ← parsePairs pairs
    pure ⟨c, t, o, bad, pick, draws, fresh.getD ""⟩
  | _ => none

/-- one operation (under the pending `crash` prefix, if any) -/
def runOp (d : DState) (op : Op) : DState × List String :=
  let op := match d.crash with | some k => Op.crashIn k op | none => op
  let s1 := rstep d.sys op
  ({ sys := s1, crash := none }, s1.core.out.map showEvent ++ ["E"])

/-- a `bind` whose `client_version` Python cannot index (see Main.lean) -/
def runBadCv (d : DState) (op : Op) (cn : Nat) (cls : String) : DState × List String :=
  let s0 := d.sys
  let s1 := rstep (s0.onCore (fun s => { s with cfg := { s.cfg with usage := false } })) op
  let bound := s1.core.out.all (fun e => match e with | .frame _ (.error _) _ => false | _ => true)
  let s2 := s1.onCore (fun s => { s with cfg := s0.core.cfg })
  let extra := if bound then [s!"X {cn} {cls}"] else []
  ({ sys := s2, crash := none }, s1.core.out.map showEvent ++ extra ++ ["E"])

def processLine (d : DState) (line : String) : DState × List String :=
  let toks := (line.trimAscii.toString.splitOn " ").filter (· ≠ "")
  match toks with
  | [] => (d, [])
  | "cfg" :: rest =>
    match parseCfg rest with
    | some (cfg, rb) => ({ d with sys := d.sys.onCore (fun s => { s with cfg := cfg, rebooted := rb }) }, ["E"])
    | none => (d, ["bad-op", "E"])
  | "cfgw" :: rest =>
    match parseCfgw rest with
    | some (cfg, rb) => ({ d with sys := d.sys.onCore (fun s => { s with cfg := cfg, rebooted := rb }) }, ["E"])
    | none => (d, ["bad-op", "E"])
  | "recvj" :: rest =>
    match parseRecvJ rest with
    | none => (d, ["bad-op", "E"])
    | some r =>
      match decodeCmd r.obj r.pick r.draws r.fresh with
      | none => (d, ["out-of-domain", "E"])
      | some cmd =>
        let op := Op.recv r.c r.t (decodeId r.obj) cmd
        match r.badCv, cmd with
        | some cls, .bind _ _ _ _ => runBadCv d op r.c cls
        | _, _ => runOp d op
  | ["crash", k] =>
    match k.toNat? with
    | some k => ({ d with crash := some k }, [])
    | none => (d, ["bad-op", "E"])
  | ["dump"] => (d, dumpLines d.sys.core)
  | toks =>
    match parseOp toks with
    | none => (d, ["bad-op", "E"])
    | some op =>
      let op := match d.crash with | some k => Op.crashIn k op | none => op
      let s1 := rstep d.sys op
      ({ sys := s1, crash := none }, s1.core.out.map showEvent ++ ["E"])

partial def loop (h : IO.FS.Stream) (out : IO.FS.Stream) (d : DState) : IO Unit := do
  let line ← h.getLine
  if line.isEmpty then return ()
  let (d', outs) := processLine d line
  for o in outs do out.putStrLn o
  loop h out d'

def main : IO Unit := do
  let stdin ← IO.getStdin
  let stdout ← IO.getStdout
  loop stdin stdout {}
