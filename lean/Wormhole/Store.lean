/-
  Relational primitives on the channel database.  Each definition corresponds to one
  SQL statement of server.py (quoted in the doc comment), so that Core.lean can be read
  side by side with the Python text.
-/
import Wormhole.Basic

namespace Wormhole
namespace Chan

/-! ### SELECTs -/

/-- `SELECT * FROM nameplates WHERE app_id=? AND name=?` `.fetchone()` -/
def findNameplate (d : Chan) (app name : String) : Option Nameplate :=
  d.nameplates.find? (fun r => r.app = app ∧ r.name = name)

/-- `SELECT * FROM nameplates WHERE app_id=? AND mailbox_id=?` -/
def nameplatesOfMailbox (d : Chan) (app mb : String) : List Nameplate :=
  d.nameplates.filter (fun r => r.app = app ∧ r.mailbox = mb)

/-- `SELECT * FROM nameplates WHERE app_id=?` -/
def nameplatesOfApp (d : Chan) (app : String) : List Nameplate :=
  d.nameplates.filter (fun r => r.app = app)

/-- `SELECT * FROM nameplate_sides WHERE nameplates_id=? AND side=?` `.fetchone()` -/
def findNpSide (d : Chan) (npid : Nat) (side : String) : Option NpSide :=
  d.npSides.find? (fun r => r.npid = npid ∧ r.side = side)

/-- `SELECT * FROM nameplate_sides WHERE nameplates_id=?` -/
def npSidesOf (d : Chan) (npid : Nat) : List NpSide :=
  d.npSides.filter (fun r => r.npid = npid)

/-- `SELECT * FROM mailboxes WHERE app_id=? AND id=?` `.fetchone()` -/
def findMailbox (d : Chan) (app id : String) : Option MailboxRow :=
  d.mailboxes.find? (fun r => r.app = app ∧ r.id = id)

/-- `SELECT * FROM mailboxes WHERE id=?` `.fetchone()` -/
def findMailboxById (d : Chan) (id : String) : Option MailboxRow :=
  d.mailboxes.find? (fun r => r.id = id)

/-- `SELECT * FROM mailboxes WHERE app_id=?` -/
def mailboxesOfApp (d : Chan) (app : String) : List MailboxRow :=
  d.mailboxes.filter (fun r => r.app = app)

/-- `SELECT * FROM mailbox_sides WHERE mailbox_id=? AND side=?` `.fetchone()` -/
def findMbSide (d : Chan) (mb side : String) : Option MbSide :=
  d.mbSides.find? (fun r => r.mailbox = mb ∧ r.side = side)

/-- `SELECT * FROM mailbox_sides WHERE mailbox_id=?` -/
def mbSidesOf (d : Chan) (mb : String) : List MbSide :=
  d.mbSides.filter (fun r => r.mailbox = mb)

/-- `SELECT * FROM messages WHERE app_id=? AND mailbox_id=?` (ordering is applied by the
    caller) -/
def messagesOf (d : Chan) (app mb : String) : List Message :=
  d.messages.filter (fun r => r.app = app ∧ r.mailbox = mb)

/-- `SELECT DISTINCT name FROM nameplates WHERE app_id=?` as a list with duplicates
    removed (first occurrence kept). -/
def namesOfApp (d : Chan) (app : String) : List String :=
  ((d.nameplates.filter (fun r => r.app = app)).map (·.name)).eraseDups

/-! ### INSERTs -/

/-- `INSERT INTO mailboxes (app_id,id,for_nameplate,updated) VALUES (?,?,?,?)`.
    `mailboxes.id` is the PRIMARY KEY: the caller checks for a clash first. -/
def insMailbox (d : Chan) (r : MailboxRow) : Chan :=
  { d with mailboxes := d.mailboxes ++ [r] }

/-- `INSERT INTO nameplates (app_id,name,mailbox_id) VALUES (?,?,?)`; the new row gets
    `id = nextNp` (AUTOINCREMENT) -/
def insNameplate (d : Chan) (app name mb : String) : Chan :=
  { d with nameplates := d.nameplates ++ [⟨d.nextNp, app, name, mb⟩], nextNp := d.nextNp + 1 }

/-- `INSERT INTO nameplate_sides (nameplates_id,claimed,side,added) VALUES (?,?,?,?)` -/
def insNpSide (d : Chan) (r : NpSide) : Chan :=
  { d with npSides := d.npSides ++ [r] }

/-- `INSERT INTO mailbox_sides (mailbox_id,opened,side,added) VALUES (?,?,?,?)` -/
def insMbSide (d : Chan) (r : MbSide) : Chan :=
  { d with mbSides := d.mbSides ++ [r] }

/-- `INSERT INTO messages (...) VALUES (?,?,?,?,?,?,?)` -/
def insMessage (d : Chan) (r : Message) : Chan :=
  { d with messages := d.messages ++ [r] }

/-! ### UPDATEs -/

/-- `UPDATE mailboxes SET updated=? WHERE id=?` -/
def touch (d : Chan) (mb : String) (t : Time) : Chan :=
  { d with mailboxes := d.mailboxes.map (fun r => if r.id = mb then { r with updated := t } else r) }

/-- `UPDATE nameplate_sides SET claimed=? WHERE nameplates_id=? AND side=?` with `False` -/
def unclaim (d : Chan) (npid : Nat) (side : String) : Chan :=
  { d with npSides := d.npSides.map (fun r => if r.npid = npid ∧ r.side = side then { r with claimed := false } else r) }

/-- `UPDATE mailbox_sides SET opened=?, mood=? WHERE mailbox_id=? AND side=?` with `False` -/
def closeSide (d : Chan) (mb side : String) (mood : Option String) : Chan :=
  { d with mbSides := d.mbSides.map (fun r => if r.mailbox = mb ∧ r.side = side then { r with opened := false, mood := mood } else r) }

/-! ### DELETEs -/

/-- `DELETE FROM nameplate_sides WHERE nameplates_id=?` -/
def delNpSidesOf (d : Chan) (npid : Nat) : Chan :=
  { d with npSides := d.npSides.filter (fun r => ¬ r.npid = npid) }

/-- `DELETE FROM nameplates WHERE id=?` -/
def delNameplate (d : Chan) (npid : Nat) : Chan :=
  { d with nameplates := d.nameplates.filter (fun r => ¬ r.id = npid) }

/-- `DELETE FROM nameplate_sides WHERE nameplates_id IN
     (SELECT id FROM nameplates WHERE app_id=? AND mailbox_id=?)` -/
def delNpSidesOfMailbox (d : Chan) (app mb : String) : Chan :=
  { d with npSides := d.npSides.filter (fun r => ¬ r.npid ∈ (d.nameplatesOfMailbox app mb).map (·.id)) }

/-- `DELETE FROM nameplates WHERE app_id=? AND mailbox_id=?` -/
def delNameplatesOfMailbox (d : Chan) (app mb : String) : Chan :=
  { d with nameplates := d.nameplates.filter (fun r => ¬ (r.app = app ∧ r.mailbox = mb)) }

/-- `DELETE FROM messages WHERE mailbox_id=?` -/
def delMessagesOf (d : Chan) (mb : String) : Chan :=
  { d with messages := d.messages.filter (fun r => ¬ r.mailbox = mb) }

/-- `DELETE FROM mailbox_sides WHERE mailbox_id=?` -/
def delMbSidesOf (d : Chan) (mb : String) : Chan :=
  { d with mbSides := d.mbSides.filter (fun r => ¬ r.mailbox = mb) }

/-- `DELETE FROM mailboxes WHERE id=?` -/
def delMailbox (d : Chan) (mb : String) : Chan :=
  { d with mailboxes := d.mailboxes.filter (fun r => ¬ r.id = mb) }

end Chan
end Wormhole
