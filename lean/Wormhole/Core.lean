/-
  server.py, function by function, on `Sys`.  Statement order, commit points and the
  order usage-commit / channel-commit are those of the Python text (repaired tree).
-/
import Wormhole.Sys

namespace Wormhole
open Generated

/-! ### Usage summaries (`_summarize_nameplate_usage`, `_summarize_mailbox`) -/

def sortTimes (l : List Time) : List Time := l.mergeSort (fun a b => decide (a ≤ b))

structure Summary where
  started : Time
  waiting : Option Time
  total : Time
  result : String
  deriving DecidableEq, Repr

/-- `_summarize_nameplate_usage`; `none` = `IndexError` (no side rows). `blur` maps a time
    to its blurred value (identity when no blur is configured). -/
def summarizeNameplate (blur : Time → Time) (added : List Time) (deleteTime : Time) (pruned : Bool) :
    Option Summary :=
  match sortTimes added with
  | [] => none
  | t0 :: rest =>
    let waiting := match rest with | [] => none | t1 :: _ => some (t1 - t0)
    let n := (t0 :: rest).length
    let result := if n > 2 then "crowded" else if pruned then "pruney"
                  else if n = 2 then "happy" else "lonely"
    some ⟨blur t0, waiting, deleteTime - t0, result⟩

/-- `_summarize_mailbox` (total: an empty list gives "quiet") -/
def summarizeMailbox (blur : Time → Time) (sides : List MbSide) (deleteTime : Time) (pruned : Bool) :
    Summary :=
  let times := sortTimes (sides.map (·.added))
  let first := match times with | [] => deleteTime | t0 :: _ => t0
  let waiting := match times with | t0 :: t1 :: _ => some (t1 - t0) | _ => none
  let n := times.length
  let hasMood (m : String) : Bool := sides.any (fun r => r.mood = some m)
  let result :=
    if n > 2 then "crowded" else if pruned then "pruney"
    else if hasMood "scary" then "scary" else if hasMood "errory" then "errory"
    else if hasMood "lonely" then "lonely"
    else if n = 0 then "quiet" else if n = 1 then "lonely" else "happy"
  ⟨blur first, waiting, deleteTime - first, result⟩

namespace Sys

/-- `_summarize_nameplate_and_store` (when a usage DB exists); `false` = IndexError -/
def storeNameplateUsage (s : Sys) (app : String) (sides : List NpSide) (t : Time) (pruned : Bool) :
    Sys × Bool :=
  match summarizeNameplate s.blurTime (sides.map (·.added)) t pruned with
  | none => (s, false)
  | some u => (s.modUdb (fun d => { d with nameplates := d.nameplates ++
                  [⟨app, u.started, u.waiting, u.total, u.result⟩] }), true)

/-- `_summarize_mailbox_and_store` -/
def storeMailboxUsage (s : Sys) (app : String) (forNp : Bool) (sides : List MbSide) (t : Time)
    (pruned : Bool) : Sys :=
  let u := summarizeMailbox s.blurTime sides t pruned
  s.modUdb (fun d => { d with mailboxes := d.mailboxes ++
    [⟨app, forNp, u.started, u.total, u.waiting, u.result⟩] })

/-! ### Mailbox -/

/-- `Mailbox.open(side, when)` -/
def mailboxOpen (s : Sys) (mb side : String) (t : Time) : Sys :=
  let s1 := match s.db.findMbSide mb side with
    | none => s.modDb (·.insMbSide ⟨mb, true, side, t, none⟩)
    | some _ => s
  (s1.modDb (·.touch mb t)).commit

/-- `AppNamespace._add_mailbox`; `none` = IntegrityError (the id is the primary key and
    exists under another app: finding K-global-mailbox-id) -/
def addMailbox (s : Sys) (app mb : String) (forNp : Bool) (t : Time) : Option Sys :=
  match s.db.findMailbox app mb with
  | some _ => some s
  | none =>
    match s.db.findMailboxById mb with
    | some _ => none
    | none => some (s.modDb (·.insMailbox ⟨app, mb, t, forNp⟩))

inductive OpenRes where
  | ok | crowded | integrity
  deriving DecidableEq, Repr

/-- `AppNamespace.open_mailbox` (the returned object is `(app, mb)`) -/
def openMailbox (s : Sys) (app mb side : String) (t : Time) : Sys × OpenRes :=
  match s.addMailbox app mb false t with
  | none => (s, .integrity)
  | some s1 =>
    let s2 := (s1.mailboxOpen mb side t).commit
    if (s2.db.mbSidesOf mb).length > 2 then (s2, .crowded) else (s2, .ok)

/-- `Mailbox._add_message` -/
def addMessage (s : Sys) (app mb side : String) (phase body : Val) (t : Time) (id : Val) : Sys :=
  ((s.modDb (·.insMessage ⟨app, mb, side, phase.toText, body.toText, t, id.toText⟩)).modDb
    (·.touch mb t)).commit

/-- the usage records of the nameplates that die with their mailbox (repair F);
    `false` = IndexError -/
def storeNameplatesOfMailbox (s : Sys) (app : String) (t : Time) : List Nameplate → Sys × Bool
  | [] => (s, true)
  | np :: rest =>
    match s.storeNameplateUsage app (s.db.npSidesOf np.id) t false with
    | (s1, false) => (s1, false)
    | (s1, true) => storeNameplatesOfMailbox s1 app t rest

/-- the stop callbacks of `Mailbox.close` (repair B): every remaining listener drops its handle -/
def stopListeners (s : Sys) (app mb : String) : Sys :=
  { s with conns := s.conns.map (fun x =>
      if x.listening ∧ x.app = some app ∧ x.mailbox = some mb
      then { x with mailbox := none, listening := false } else x) }

/-- `Mailbox.close(side, mood, when)`; `false` = an exception escaped -/
def mailboxClose (s : Sys) (app mb side : String) (mood : Option String) (t : Time) : Sys × Bool :=
  match s.db.findMailbox app mb with
  | none => (s, true)
  | some row =>
    match s.db.findMbSide mb side with
    | none => (s, true)
    | some _ =>
      let s1 := (s.modDb (·.closeSide mb side mood)).commit
      let sideRows := s1.db.mbSidesOf mb
      if sideRows.any (·.opened) then (s1, true)
      else
        let (s2, ok) :=
          if s1.cfg.usage then s1.storeNameplatesOfMailbox app t (s1.db.nameplatesOfMailbox app mb)
          else (s1, true)
        if !ok then (s2, false)
        else
          let s3 := s2.modDb (fun d =>
            ((((d.delNpSidesOfMailbox app mb).delNameplatesOfMailbox app mb).delMessagesOf mb).delMbSidesOf
              mb).delMailbox mb)
          let s4 := if s3.cfg.usage then (s3.storeMailboxUsage app row.forNp sideRows t false).ucommit else s3
          ((s4.commit).stopListeners app mb, true)

/-! ### AppNamespace -/

/-- `log_client_version` -/
def logClientVersion (s : Sys) (app side : String) (t : Time) (impl version : Option String) : Sys :=
  if s.cfg.usage then
    (s.modUdb (fun d => { d with clients := d.clients ++ [⟨app, side, s.blurTime t, impl, version⟩] })).ucommit
  else s

/-- candidates of one length: `range(10**(size-1), 10**size)` not in `claimed` -/
def availableOfSize (claimed : List String) (size : Nat) : List Nat :=
  (List.range' (10 ^ (size - 1)) (10 ^ size - 10 ^ (size - 1))).filter
    (fun k => ¬ toString k ∈ claimed)

/-- the scan over sizes; `pick` resolves `random.choice` (index into the increasing list) -/
def findShort (claimed : List String) (pick : Nat) : List Nat → Option Nat
  | [] => none
  | size :: rest =>
    let av := availableOfSize claimed size
    match av[pick % av.length]? with
    | some k => some k
    | none => findShort claimed pick rest

/-- the i-th result of `random.randrange(allocLo, allocHi)` -/
def drawAt (draws : List Nat) (i : Nat) : Nat := draws.getD i (allocLo + i)

/-- `_find_available_nameplate_id`; `none` = ValueError (finding K-alloc-exhaust) -/
def findAvailable (claimed : List String) (pick : Nat) (draws : List Nat) : Option String :=
  match findShort claimed pick (List.range' allocSizeLo (allocSizeHi - allocSizeLo)) with
  | some k => some (toString k)
  | none =>
    match ((List.range allocTries).map (drawAt draws)).find? (fun k => ¬ toString k ∈ claimed) with
    | some k => some (toString k)
    | none => none

inductive ClaimRes where
  | ok (mailbox : String) | crowded | reclaimed | integrity
  deriving DecidableEq, Repr

/-- the part of `claim_nameplate` after the nameplate row is known -/
def claimTail (s : Sys) (app : String) (npid : Nat) (mb side : String) (t : Time) : Sys × ClaimRes :=
  let cont (s1 : Sys) : Sys × ClaimRes :=
    let s2 := s1.commit
    match s2.openMailbox app mb side t with
    | (s3, .integrity) => (s3, .integrity)
    | (s3, .crowded) => (s3, .crowded)
    | (s3, .ok) => if (s3.db.npSidesOf npid).length > 2 then (s3, .crowded) else (s3, .ok mb)
  match s.db.findNpSide npid side with
  | none => cont (s.modDb (·.insNpSide ⟨npid, true, side, t⟩))
  | some r => if r.claimed then cont s else (s, .reclaimed)

/-- `claim_nameplate(name, side, when)`; `fresh` is what `generate_mailbox_id()` returns -/
def claimNameplate (s : Sys) (app name side : String) (t : Time) (fresh : String) : Sys × ClaimRes :=
  match s.db.findNameplate app name with
  | none =>
    match s.addMailbox app fresh true t with
    | none => (s, .integrity)
    | some s1 =>
      let npid := s1.db.nextNp
      (s1.modDb (·.insNameplate app name fresh)).claimTail app npid fresh side t
  | some row => s.claimTail app row.id row.mailbox side t

/-- `release_nameplate`; `false` = an exception escaped -/
def releaseNameplate (s : Sys) (app name side : String) (t : Time) : Sys × Bool :=
  match s.db.findNameplate app name with
  | none => (s, true)
  | some np =>
    match s.db.findNpSide np.id side with
    | none => (s, true)
    | some _ =>
      let s1 := (s.modDb (·.unclaim np.id side)).commit
      let sideRows := s1.db.npSidesOf np.id
      if sideRows.any (·.claimed) then (s1, true)
      else
        let s2 := s1.modDb (fun d => (d.delNpSidesOf np.id).delNameplate np.id)
        if s2.cfg.usage then
          match s2.storeNameplateUsage app sideRows t false with
          | (s3, false) => (s3, false)
          | (s3, true) => ((s3.ucommit).commit, true)
        else (s2.commit, true)

/-! ### prune -/

/-- the touch loop of `prune`: every mailbox of the app with a listener gets `updated := now` -/
def touchListened (s : Sys) (app : String) (now : Time) : Sys :=
  s.modDb (fun d => { d with mailboxes := d.mailboxes.map (fun r =>
    if r.app = app ∧ (s.listeners app r.id) ≠ [] then { r with updated := now } else r) })

/-- the loop over `old_nameplates` -/
def pruneNameplates (s : Sys) (app : String) (now : Time) : List Nameplate → Sys × Bool
  | [] => (s, true)
  | np :: rest =>
    let sideRows := s.db.npSidesOf np.id
    let s1 := s.modDb (fun d => (d.delNpSidesOf np.id).delNameplate np.id)
    if s1.cfg.usage then
      match s1.storeNameplateUsage app sideRows now true with
      | (s2, false) => (s2, false)
      | (s2, true) => pruneNameplates s2 app now rest
    else pruneNameplates s1 app now rest

/-- the loop over `old_mailboxes` -/
def pruneMailboxes (s : Sys) (app : String) (now : Time) : List MailboxRow → Sys
  | [] => s
  | row :: rest =>
    let sideRows := s.db.mbSidesOf row.id
    let s1 := s.modDb (fun d => ((d.delMessagesOf row.id).delMbSidesOf row.id).delMailbox row.id)
    let s2 := if s1.cfg.usage then s1.storeMailboxUsage app row.forNp sideRows now true else s1
    pruneMailboxes s2 app now rest

/-- `AppNamespace.prune(now, old)`; `false` = an exception escaped -/
def prune (s : Sys) (app : String) (now old : Time) : Sys × Bool :=
  let s1 := (s.touchListened app now).commit
  let oldMb := (s1.db.mailboxesOfApp app).filter (fun r => ¬ r.updated > old)
  let oldNp := (s1.db.nameplatesOfApp app).filter (fun r => r.mailbox ∈ oldMb.map (·.id))
  match s1.pruneNameplates app now oldNp with
  | (s2, false) => (s2, false)
  | (s2, true) =>
    let s3 := s2.pruneMailboxes app now oldMb
    if oldNp ≠ [] ∨ oldMb ≠ [] then
      let s4 := s3.commit
      (if s4.cfg.usage then s4.ucommit else s4, true)
    else (s3, true)

/-- `Server.get_all_apps`, sorted -/
def allApps (s : Sys) : List String :=
  ((s.db.nameplates.map (·.app) ++ s.db.mailboxes.map (·.app) ++ s.db.messages.map (·.app)).eraseDups).mergeSort
    (fun a b => decide (a ≤ b))

/-- the loop of `prune_all_apps` -/
def pruneApps (s : Sys) (now old : Time) : List String → Sys × Bool
  | [] => (s, true)
  | app :: rest =>
    match s.prune app now old with
    | (s1, false) => (s1, false)
    | (s1, true) => pruneApps s1 now old rest

/-- `Server.dump_stats` -/
def dumpStats (s : Sys) (now : Time) : Sys :=
  if s.cfg.usage then
    (s.modUdb (fun d => { d with current :=
      [⟨s.rebooted, now, s.cfg.blur, (s.conns.filter (·.listening)).length⟩] })).ucommit
  else s

/-- one firing of `expire()` in server_tap.makeService; `fault` = the first database access
    of `prune_all_apps` raises (caught and logged there) -/
def expire (s : Sys) (now : Time) (fault : Bool) : Sys :=
  let old := now - expirationTicks
  let s0 := s.emit (.fired now old)
  let s1 :=
    if fault then s0.emit (.internal none "OperationalError")
    else match s0.pruneApps now old (s0.allApps) with
      | (s1, true) => s1
      | (s1, false) => s1.emit (.internal none "IndexError")
  s1.dumpStats now

end Sys
end Wormhole
