/-
  The decoder: how a received JSON object becomes the `Cmd` (and the `id`) that `onMessage` of the
  model works on, and how the welcome map is built from the server's options.

  Until this file existed the classification was done by the Python harness (`proto.op_line`) and was
  part of the trusted base.  Here it is a definition of the model, mirroring, look-up by look-up, what
  `server_websocket.py` does with the dict `msg = bytes_to_dict(payload)`:

      onMessage      "type" not in msg;  msg.get("id");  msg["type"] compared with ==
      handle_ping    "ping" in msg;  msg["ping"]
      handle_bind    "appid" in msg;  "side" in msg;  msg["appid"];  msg["side"];
                     msg.get("client_version", (None, None)) and then [0], [1] (log_client_version)
      handle_claim   "nameplate" in msg;  msg["nameplate"]
      handle_release "nameplate" in msg;  msg["nameplate"]
      handle_open    "mailbox" in msg;  msg["mailbox"]
      handle_add     "phase" in msg;  "body" in msg;  msg.get("id");  msg["phase"];  msg["body"]
      handle_close   "mailbox" in msg;  msg["mailbox"];  msg.get("mood")
      handle_list, handle_allocate: nothing

  and `make_server` of server.py for the welcome map.  Model file: no Mathlib, executable.

  DOMAIN.  `decodeCmd` returns `none` ("outside the model's domain") exactly on the objects described by
  `¬ InDomain o` (see `InDomain` below and `decodeCmd_isSome_iff` in Props/Decode.lean).  In words, for an
  object that HAS a "type" key:
    * "id" present and not null / string / integer (the model's `Val` has only these);
    * type "ping":  "ping" present and not null / string / integer;
    * type "bind":  "appid" or "side" present and not a string (the code asserts `isinstance(appid, str)`;
                    a non-string side is outside the model's `Conn.side : Option String`);
                    "client_version" present and not a value `v` whose `v[0]`, `v[1]` exist and are each
                    null or a string (un-indexable values are the driver's `!Cls` mechanism, see Main.lean);
    * type "claim" / "release": "nameplate" present and not a string (assert / `assert nameplate_id is not None`);
    * type "open" / "close":    "mailbox" present and not a string;
    * type "add":   "phase" or "body" present and not null / string / integer; or "phase", "body" or "id" an
                    integer outside the signed 64-bit range (sqlite3 cannot bind it: finding K-int64-overflow);
    * type "close": "mood" present and not null / string.
  An object WITHOUT a "type" key is always in the domain (`Cmd.noType`; nothing else is looked at).
  The restriction is on the SHAPE of the object only (it does not depend on the connection's state), so it
  is slightly larger than what the code needs (e.g. a second `bind` with a numeric appid is answered
  "already bound" by the code before the assert; the decoder refuses it all the same).
-/
import Wormhole.Ws

namespace Wormhole

/-- A JSON value as far as `onMessage` and the handlers can tell values apart.
    `pair a b`: a value `v` for which Python's `v[0]` and `v[1]` succeed and give `a` and `b` (an array of
    at least two items, or a string of at least two characters); only `client_version` is ever indexed, for
    every other look-up a `pair` behaves like `other`.
    `other`: array / object / float -- anything the handlers would choke on or pass through without looking inside. -/
inductive JVal where
  | null
  | bool (b : Bool)
  | num (i : Int)
  | str (s : String)
  | pair (a b : JVal)
  | other
  deriving DecidableEq, Repr, Inhabited

/-- A JSON object as the list of its `key: value` pairs in the order of the text. -/
abbrev JObj := List (String × JVal)

/-- `msg.get(k)` / `k in msg` on the dict `json.loads` builds: the LAST occurrence of a key wins
    (`json.loads('{"a":1,"a":2}') == {"a": 2}`). -/
def jget : JObj → String → Option JVal
  | [], _ => none
  | (k', v) :: rest, k =>
    match jget rest k with
    | some w => some w
    | none => if k' = k then some v else none

/-- `msg[k] = v` (as far as look-ups are concerned: a later pair shadows the earlier ones) -/
def JObj.set (o : JObj) (k : String) (v : JVal) : JObj := o ++ [(k, v)]

/-- the values the model's `Val` can represent -/
def JVal.toVal? : JVal → Option Val
  | .null => some .null
  | .str s => some (.str s)
  | .num i => some (.int i)
  | _ => none

/-- null or a string (`mood`, the two items of `client_version`): `none` = Python's `None` -/
def JVal.toOptStr? : JVal → Option (Option String)
  | .null => some none
  | .str s => some (some s)
  | _ => none

/-- a scalar field tested with `k in msg` and read with `msg[k]` (`ping`, `phase`, `body`).
    Outer `none` = outside the domain; inner `none` = key absent. -/
def fieldVal : Option JVal → Option (Option Val)
  | none => some none
  | some v => v.toVal?.map some

/-- an identifier field tested with `k in msg` and read with `msg[k]` (`appid`, `side`, `nameplate`,
    `mailbox`): must be a string when present. -/
def fieldStr : Option JVal → Option (Option String)
  | none => some none
  | some (.str s) => some (some s)
  | some _ => none

/-- `msg.get("mood")`: an absent key and `null` are both `None` -/
def fieldMood : Option JVal → Option (Option String)
  | none => some none
  | some v => v.toOptStr?

/-- `client_version = msg.get("client_version", (None, None))`; `client_version[0]`, `client_version[1]` -/
def fieldCv : Option JVal → Option (Option String × Option String)
  | none => some (none, none)
  | some (.pair a b) =>
    match a.toOptStr?, b.toOptStr? with
    | some i, some v => some (i, v)
    | _, _ => none
  | some _ => none

/-- `msg.get("id")` -/
def fieldId : Option JVal → Option Val
  | none => some .null
  | some v => v.toVal?

/-- the branch of `onMessage` taken for `mtype = msg["type"]` -/
inductive MType where
  | ping | bind | list | allocate | claim | release | open_ | add | close | unknown
  deriving DecidableEq, Repr, Inhabited

/-- `mtype == "ping"`, `mtype == "bind"`, …: a value that is not a string compares unequal to every
    string (`1 == "ping"`, `True == "ping"`, `[..] == "ping"` are all `False`), so it falls through to
    `raise Error("unknown type")` like an unknown string. -/
def mtypeOf : JVal → MType
  | .str s =>
    if s = "ping" then .ping else if s = "bind" then .bind else if s = "list" then .list
    else if s = "allocate" then .allocate else if s = "claim" then .claim
    else if s = "release" then .release else if s = "open" then .open_ else if s = "add" then .add
    else if s = "close" then .close else .unknown
  | _ => .unknown

/-- the key is absent or its value satisfies `p` -/
def absentOr (p : JVal → Bool) : Option JVal → Bool
  | none => true
  | some v => p v

/-- an integer that SQLite can bind (a signed 64-bit integer); every other value passes.  sqlite3 raises
    `OverflowError` for a Python int outside this range (finding K-int64-overflow), so an `add` carrying such
    a number in a stored field is outside the model's domain. -/
def JVal.fitsInt64 : JVal → Bool
  | .num i => decide (-9223372036854775808 ≤ i ∧ i ≤ 9223372036854775807)
  | _ => true

/-- the decoder as a function of the look-ups `get k` = `msg.get(k)` (with "absent" = `none`) -/
def decodeOf (get : String → Option JVal) (pick : Nat) (draws : List Nat) (fresh : String) : Option Cmd :=
  match get "type" with
  | none => some .noType
  | some ty =>
    match fieldId (get "id") with
    | none => none
    | some _ =>
      match mtypeOf ty with
      | .ping => (fieldVal (get "ping")).map .ping
      | .bind =>
        match fieldStr (get "appid"), fieldStr (get "side"), fieldCv (get "client_version") with
        | some a, some sd, some (i, v) => some (.bind a sd i v)
        | _, _, _ => none
      | .list => some .list
      | .allocate => some (.allocate pick draws fresh)
      | .claim => (fieldStr (get "nameplate")).map (fun n => .claim n fresh)
      | .release => (fieldStr (get "nameplate")).map .release
      | .open_ => (fieldStr (get "mailbox")).map .open_
      | .add =>
        -- the three scalars an `add` stores (`phase`, `body`, `msg_id`) must be bindable by SQLite
        if absentOr JVal.fitsInt64 (get "phase") && absentOr JVal.fitsInt64 (get "body") &&
            absentOr JVal.fitsInt64 (get "id") then
          match fieldVal (get "phase"), fieldVal (get "body") with
          | some ph, some bd => some (.add ph bd)
          | _, _ => none
        else none
      | .close =>
        match fieldStr (get "mailbox"), fieldMood (get "mood") with
        | some m, some mood => some (.close m mood)
        | _, _ => none
      | .unknown => some .unknown

/-- **the command a received JSON object is**; `pick`, `draws`, `fresh` are the random choices of this
    step (`random.choice`, `random.randrange`, `generate_mailbox_id()`), which are inputs of the history
    and not part of the message.  `none` = outside the model's domain (see the header). -/
def decodeCmd (o : JObj) (pick : Nat) (draws : List Nat) (fresh : String) : Option Cmd :=
  decodeOf (jget o) pick draws fresh

/-- **`msg.get("id")`** (a value the model cannot represent makes `decodeCmd` return `none` whenever the
    id is looked at, i.e. whenever there is a "type"; the `.null` given here for it is never used) -/
def decodeId (o : JObj) : Val := (fieldId (jget o "id")).getD .null

/-- the keys `onMessage` and the handler of this object's type look at -/
def keysOf (get : String → Option JVal) : List String :=
  match get "type" with
  | none => ["type"]
  | some ty =>
    "type" :: "id" ::
      match mtypeOf ty with
      | .ping => ["ping"]
      | .bind => ["appid", "side", "client_version"]
      | .claim => ["nameplate"]
      | .release => ["nameplate"]
      | .open_ => ["mailbox"]
      | .add => ["phase", "body"]
      | .close => ["mailbox", "mood"]
      | _ => []

def keysRead (o : JObj) : List String := keysOf (jget o)

/-! ### the domain, spelled out -/

def JVal.isScalar : JVal → Bool
  | .null | .str _ | .num _ => true
  | _ => false

def JVal.isStr : JVal → Bool
  | .str _ => true
  | _ => false

def JVal.isStrOrNull : JVal → Bool
  | .null | .str _ => true
  | _ => false

/-- indexable, and both items null or a string -/
def JVal.isCv : JVal → Bool
  | .pair a b => a.isStrOrNull && b.isStrOrNull
  | _ => false

/-- the objects `decodeCmd` accepts (`decodeCmd_isSome_iff`) -/
def InDomain (o : JObj) : Prop :=
  match jget o "type" with
  | none => True
  | some ty =>
    absentOr JVal.isScalar (jget o "id") = true ∧
      match mtypeOf ty with
      | .ping => absentOr JVal.isScalar (jget o "ping") = true
      | .bind => absentOr JVal.isStr (jget o "appid") = true ∧ absentOr JVal.isStr (jget o "side") = true ∧
          absentOr JVal.isCv (jget o "client_version") = true
      | .claim => absentOr JVal.isStr (jget o "nameplate") = true
      | .release => absentOr JVal.isStr (jget o "nameplate") = true
      | .open_ => absentOr JVal.isStr (jget o "mailbox") = true
      | .add => absentOr JVal.isScalar (jget o "phase") = true ∧ absentOr JVal.isScalar (jget o "body") = true ∧
          absentOr JVal.fitsInt64 (jget o "phase") = true ∧ absentOr JVal.fitsInt64 (jget o "body") = true ∧
          absentOr JVal.fitsInt64 (jget o "id") = true
      | .close => absentOr JVal.isStr (jget o "mailbox") = true ∧ absentOr JVal.isStrOrNull (jget o "mood") = true
      | _ => True

/-! ### the welcome map (`make_server` in server.py) -/

/-- `if x:` for an option holding a string: not `None` and not empty -/
def truthy : Option String → Option String
  | some s => if s = "" then none else some s
  | none => none

/-- the dict `welcome` built by `make_server(welcome_motd=motd, advertise_version=advertise,
    signal_error=error)`, as its items in insertion order:
      `if welcome_motd is not None: welcome["motd"] = str(welcome_motd)`
      `if advertise_version:        welcome["current_cli_version"] = advertise_version`
      `if signal_error:             welcome["error"] = signal_error`
    (the options are strings or `None`: server_tap.Options) -/
def mkWelcome (motd advertise error : Option String) : List (String × String) :=
  (match motd with | some m => [("motd", m)] | none => []) ++
  (match truthy advertise with | some v => [("current_cli_version", v)] | none => []) ++
  (match truthy error with | some e => [("error", e)] | none => [])

def hexDigitLower (n : Nat) : Char := if n < 10 then Char.ofNat (48 + n) else Char.ofNat (87 + n)

/-- `'\\u{0:04x}'.format(n)` for `n < 0x10000` -/
def uEscape (n : Nat) : List Char :=
  ['\\', 'u', hexDigitLower (n / 4096 % 16), hexDigitLower (n / 256 % 16), hexDigitLower (n / 16 % 16),
    hexDigitLower (n % 16)]

/-- one character under `json.dumps`' default `ensure_ascii=True` (`py_encode_basestring_ascii`):
    `"` and `\` escaped, the five short escapes, printable ASCII (0x20..0x7e) as is, every other
    character of the BMP as `\uXXXX` (lower-case hex; DEL = 0x7f included), a character above it as a
    UTF-16 surrogate pair -/
def jsonEscapeChar (c : Char) : List Char :=
  let n := c.toNat
  if c = '"' then ['\\', '"']
  else if c = '\\' then ['\\', '\\']
  else if c = '\n' then ['\\', 'n']
  else if c = '\r' then ['\\', 'r']
  else if c = '\t' then ['\\', 't']
  else if n = 8 then ['\\', 'b']
  else if n = 12 then ['\\', 'f']
  else if 32 ≤ n ∧ n ≤ 126 then [c]
  else if n < 65536 then uEscape n
  else uEscape (55296 + (n - 65536) / 1024 % 1024) ++ uEscape (56320 + (n - 65536) % 1024)

/-- `json.dumps(s)` for a string -/
def jsonString (s : String) : List Char :=
  '"' :: (s.toList.flatMap jsonEscapeChar ++ ['"'])

/-- `", ".join('"k": "v"' …)` -/
def jsonItems : List (String × String) → List Char
  | [] => []
  | [(k, v)] => jsonString k ++ [':', ' '] ++ jsonString v
  | (k, v) :: rest => jsonString k ++ [':', ' '] ++ jsonString v ++ [',', ' '] ++ jsonItems rest

/-- insertion into a list of items sorted by key (code-point order, as Python compares `str`) -/
def insertItem (x : String × String) : List (String × String) → List (String × String)
  | [] => [x]
  | y :: ys => if x.1 ≤ y.1 then x :: y :: ys else y :: insertItem x ys

/-- `sorted(d.items())` for distinct keys -/
def sortItems (d : List (String × String)) : List (String × String) := d.foldr insertItem []

/-- `json.dumps(d, sort_keys=True)` for a dict with string values given by its items (distinct keys):
    keys in increasing order of code points, separators `", "` and `": "`, ASCII only -/
def renderWelcomeChars (d : List (String × String)) : List Char :=
  '{' :: (jsonItems (sortItems d) ++ ['}'])

def renderWelcome (d : List (String × String)) : String := String.ofList (renderWelcomeChars d)

/-- the configuration of a server started with these options (`cfgw` line of the drivers) -/
def mkCfg (allowList usage : Bool) (blur : Option Nat) (motd advertise error : Option String) : Cfg :=
  { allowList := allowList, usage := usage, blur := blur, welcome := renderWelcome (mkWelcome motd advertise error) }

end Wormhole
