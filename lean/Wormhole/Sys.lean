/-
  System state: configuration, both databases as seen by the server's connection (`db`,
  `udb`) and as last committed (`disk`, `udisk`), the websocket connections with the
  flags of `WebSocketServer`, and the events emitted by the current step.

  There is no registry of `AppNamespace`/`Mailbox` objects here: on the repaired tree a
  connection looks its namespace up on every use and drops its handle when the mailbox
  is deleted, so the set of listeners of mailbox (app, m) is exactly the set of
  connections that are `listening` with handle `m` under app `app`.  That this object-free
  model behaves like the code (which does have the registry) is what the correspondence
  check establishes on every run; it is not proved here.
-/
import Wormhole.Store
import Wormhole.Generated

namespace Wormhole

structure Cfg where
  allowList : Bool := true
  usage : Bool := false
  /-- `--blur-usage`, in seconds; `some 0` behaves like `none` except in `current.blur_time` -/
  blur : Option Nat := none
  /-- canonical JSON text of the welcome map (opaque to the model) -/
  welcome : String := "{}"
  deriving DecidableEq, Repr, Inhabited

inductive Frame where
  | welcome (w : String)
  | ack (id : Val)
  | pong (v : Val)
  | error (text : String)
  | nameplates (ids : List String)
  | allocated (name : String)
  | claimed (mailbox : String)
  | released
  | message (side : String) (phase body : Val) (rx : Time) (id : Val)
  | closed
  deriving DecidableEq, Repr, Inhabited

inductive DbId where
  | chan | usage
  deriving DecidableEq, Repr, Inhabited

inductive Event where
  /-- a frame handed to the transport of connection `c`; `synced` = at that instant both
      databases had nothing uncommitted -/
  | frame (c : Nat) (f : Frame) (synced : Bool)
  /-- an effective commit (the committed state changed) -/
  | commit (which : DbId)
  /-- an exception other than a protocol `Error` escaped the handler / was caught by `expire` -/
  | internal (c : Option Nat) (cls : String)
  /-- one firing of `expire()` -/
  | fired (now old : Time)
  deriving DecidableEq, Repr, Inhabited

/-- The per-connection state of `WebSocketServer`. -/
structure Conn where
  id : Nat
  app : Option String := none          -- _app_id
  side : Option String := none         -- _side
  didAllocate : Bool := false
  listening : Bool := false
  didClaim : Bool := false
  nameplateId : Option String := none
  didRelease : Bool := false
  mailbox : Option String := none      -- _mailbox (the handle): mailbox id of the object
  mailboxId : Option String := none    -- _mailbox_id
  didClose : Bool := false
  deriving DecidableEq, Repr, Inhabited

structure Sys where
  cfg : Cfg := {}
  db : Chan := {}
  disk : Chan := {}
  udb : Usage := {}
  udisk : Usage := {}
  conns : List Conn := []
  rebooted : Time := 0
  /-- events of the current step, oldest first -/
  out : List Event := []
  /-- committed states reached inside the current step, oldest first (crash points) -/
  snaps : List (Chan × Usage) := []
  deriving Repr, Inhabited

namespace Sys

def synced (s : Sys) : Bool := decide (s.db = s.disk) && decide (s.udb = s.udisk)

def emit (s : Sys) (e : Event) : Sys := { s with out := s.out ++ [e] }

/-- `WebSocketServer.send` -/
def send (s : Sys) (c : Nat) (f : Frame) : Sys := s.emit (.frame c f s.synced)

def modDb (s : Sys) (f : Chan → Chan) : Sys := { s with db := f s.db }
def modUdb (s : Sys) (f : Usage → Usage) : Sys := { s with udb := f s.udb }

/-- `db.commit()` on the channel database -/
def commit (s : Sys) : Sys :=
  if s.db = s.disk then s
  else { s with disk := s.db, out := s.out ++ [.commit .chan], snaps := s.snaps ++ [(s.db, s.udisk)] }

/-- `usage_db.commit()` -/
def ucommit (s : Sys) : Sys :=
  if s.udb = s.udisk then s
  else { s with udisk := s.udb, out := s.out ++ [.commit .usage], snaps := s.snaps ++ [(s.disk, s.udb)] }

def findConn (s : Sys) (c : Nat) : Option Conn := s.conns.find? (fun x => x.id = c)

def updConn (s : Sys) (c : Nat) (f : Conn → Conn) : Sys :=
  { s with conns := s.conns.map (fun x => if x.id = c then f x else x) }

/-- the listeners of the `Mailbox` object of `(app, mb)`, as connection ids -/
def listeners (s : Sys) (app mb : String) : List Nat :=
  (s.conns.filter (fun x => x.listening ∧ x.app = some app ∧ x.mailbox = some mb)).map (·.id)

/-- blur interval in ticks, when blurring is in effect (`if self._blur_usage:`) -/
def blurTicks (s : Sys) : Option Int :=
  match s.cfg.blur with
  | some b => if b = 0 then none else some ((b : Int) * Generated.ticksPerSecond)
  | none => none

def blurTime (s : Sys) (t : Time) : Time :=
  match s.blurTicks with
  | some B => B * (t / B)
  | none => t

end Sys
end Wormhole
