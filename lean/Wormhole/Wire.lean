/-
  Constructors and construction sites of server.py / server_tap.py as data (GeneratedWire.lean, translate_wire.py), and
  how an attribute of an object is resolved to the expression at its construction site.  No Mathlib; executable.
-/
namespace Wormhole
namespace Wire

structure Ctor where
  cls : String
  /-- the parameters of `__init__` after `self` -/
  params : List String
  /-- `self.<attr> = <expression text>` -/
  assigns : List (String × String)
  deriving Repr, DecidableEq

structure Call where
  site : String
  callee : String
  pos : List String
  kw : List (String × String)
  deriving Repr, DecidableEq

/-- which argument expression each parameter receives (positional first, then keywords) -/
def bind (params : List String) (c : Call) : List (String × String) := params.zip c.pos ++ c.kw

/-- every positional argument has a parameter, every keyword names a parameter not already bound, each at most once -/
def wellFormed (params : List String) (c : Call) : Bool :=
  decide (c.pos.length ≤ params.length) &&
  c.kw.all (fun k => params.drop c.pos.length |>.contains k.1) &&
  decide ((c.kw.map (·.1)).eraseDups.length = c.kw.length)

/-- the expression, at the construction site, that ends up in `self.<attr>`: the argument bound to the parameter the
    attribute is assigned from, or the assigned expression itself when it is not a bare parameter -/
def attrSource (ct : Ctor) (c : Call) (attr : String) : Option String :=
  match ct.assigns.lookup attr with
  | none => none
  | some rhs => if ct.params.contains rhs then (bind ct.params c).lookup rhs else some rhs

end Wire
end Wormhole
