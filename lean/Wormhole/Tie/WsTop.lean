/-
  `onMessage` as a whole: running the generated statement list of `onMessage`'s try block (GeneratedWs.lean) with the
  generated handler bodies (GeneratedWsBody.lean) IS the model's `Sys.onMessage`, for every state with a unique
  record for the connection, every received object of the decoder's domain and every outcome of the random choices.
  With `Props/Decode.lean` (the decoder) this makes the model's whole handling of a received message the translation
  of the current server_websocket.py.
-/
import Wormhole.Tie.WsBody
import Wormhole.Inv.Main

namespace Wormhole.Tie
open Wormhole Wormhole.WsGuards Wormhole.PyWs

/-- the statements of `onMessage`'s try block, run on the model's state (`id` = `msg.get("id")`) -/
def runItems (table : List (String × Option (List PS))) (ctx : Ctx) (id : Val) : List Item → Sys → Sys
  | [], s => s
  | .guard g :: rest, s =>
    if g.fires ((s.findConn ctx.c).getD { id := ctx.c }) ctx.msg then s.sendError ctx.c g.text
    else runItems table ctx id rest s
  | .ack :: rest, s => runItems table ctx id rest (s.send ctx.c (.ack id))
  | .dispatch ty h :: rest, s =>
    if typeIs ctx.msg ty then
      match table.lookup h with
      | some (some body) => runHandler body ctx s
      | _ => s.internalErr ctx.c "NotTranslated"
    else runItems table ctx id rest s

/-- the facts every case needs about the state after the ack -/
theorem ack_state {s : Sys} {c : Nat} {x : Conn} (id : Val) (hx : s.findConn c = some x)
    (hu : ∀ y ∈ s.conns, y.id = c → y = x) :
    (s.send c (.ack id)).findConn c = some x ∧ (∀ y ∈ (s.send c (.ack id)).conns, y.id = c → y = x) :=
  ⟨by rw [findConn_congr (Sys.send_conns s c _)]; exact hx, by simpa using hu⟩

theorem onMessage_eq (s : Sys) (c : Nat) (x : Conn) (t : Time) (o : JObj) (pick : Nat) (draws : List Nat) (fresh : String)
    (cmd : Cmd) (hx : s.findConn c = some x) (hu : ∀ y ∈ s.conns, y.id = c → y = x)
    (hside : ∀ a, x.app = some a → ∃ sd, x.side = some sd)
    (hd : decodeCmd o pick draws fresh = some cmd) :
    runItems GenWsBody.table ⟨c, t, o, pick, draws, fresh⟩ (decodeId o) GenWs.onMessage s
      = s.onMessage c t (decodeId o) cmd := by
  unfold decodeCmd decodeOf at hd
  cases hty : jget o "type" with
  | none =>
    simp [hty] at hd; subst hd
    simp [runItems, GenWs.onMessage, Guard.fires, Cond.holds, hty, Sys.onMessage, hx]
  | some ty =>
    simp only [hty] at hd
    cases hid : fieldId (jget o "id") with
    | none => simp [hid] at hd
    | some idv =>
      simp only [hid] at hd
      have hidv : decodeId o = idv := by simp [decodeId, hid]
      obtain ⟨hx', hu'⟩ := ack_state (decodeId o) hx hu
      rcases mtypeOf_cases ty with ⟨hm, rfl⟩ | ⟨hm, rfl⟩ | ⟨hm, rfl⟩ | ⟨hm, rfl⟩ | ⟨hm, rfl⟩ | ⟨hm, rfl⟩ | ⟨hm, rfl⟩ |
        ⟨hm, rfl⟩ | ⟨hm, rfl⟩ | ⟨hm, hne⟩
      all_goals simp only [hm] at hd
      · -- ping
        cases hv : fieldVal (jget o "ping") with
        | none => simp [hv] at hd
        | some v =>
          simp [hv] at hd; subst hd
          have := handle_ping_eq (s.send c (.ack (decodeId o))) c t o pick draws fresh v hv _ rfl
          simp [runItems, GenWs.onMessage, typeIs, hty, Guard.fires, Cond.holds, GenWsBody.table, List.lookup, Sys.onMessage, hx]
          simpa [GenWsBody.handle_ping] using this
      · -- bind
        cases ha : fieldStr (jget o "appid") with
        | none => simp [ha] at hd
        | some a =>
          cases hsd : fieldStr (jget o "side") with
          | none => simp [ha, hsd] at hd
          | some sd =>
            cases hcv : fieldCv (jget o "client_version") with
            | none => simp [ha, hsd, hcv] at hd
            | some iv =>
              obtain ⟨i, v⟩ := iv
              simp [ha, hsd, hcv] at hd; subst hd
              have := handle_bind_eq (s.send c (.ack (decodeId o))) c x t o pick draws fresh a sd i v hx' ha hsd hcv _ rfl
              simp [runItems, GenWs.onMessage, typeIs, hty, Guard.fires, Cond.holds, GenWsBody.table, List.lookup, Sys.onMessage, hx]
              simpa [GenWsBody.handle_bind] using this
      · -- list
        simp at hd; subst hd
        cases hxa : x.app with
        | none =>
          simp [runItems, GenWs.onMessage, typeIs, hty, Guard.fires, Cond.holds, GE.eval, attrOf, WsGuards.isTruthy, Sys.onMessage,
            hx, hx', hxa]
        | some app =>
          obtain ⟨side, hxs⟩ := hside app hxa
          have := handle_list_eq (s.send c (.ack (decodeId o))) c x app t o pick draws fresh hx' hxa _ rfl
          simp [runItems, GenWs.onMessage, typeIs, hty, Guard.fires, Cond.holds, GE.eval, attrOf, WsGuards.isTruthy, GenWsBody.table,
            List.lookup, Sys.onMessage, hx, hx', hxa, hxs]
          simpa [GenWsBody.handle_list] using this
      · -- allocate
        simp at hd; subst hd
        cases hxa : x.app with
        | none =>
          simp [runItems, GenWs.onMessage, typeIs, hty, Guard.fires, Cond.holds, GE.eval, attrOf, WsGuards.isTruthy, Sys.onMessage,
            hx, hx', hxa]
        | some app =>
          obtain ⟨side, hxs⟩ := hside app hxa
          have := handle_allocate_eq (s.send c (.ack (decodeId o))) c x app side t o pick draws fresh hx' hxa hxs _ rfl
          simp [runItems, GenWs.onMessage, typeIs, hty, Guard.fires, Cond.holds, GE.eval, attrOf, WsGuards.isTruthy, GenWsBody.table,
            List.lookup, Sys.onMessage, hx, hx', hxa, hxs]
          simpa [GenWsBody.handle_allocate] using this
      · -- claim
        cases hn : fieldStr (jget o "nameplate") with
        | none => simp [hn] at hd
        | some n =>
        simp [hn] at hd; subst hd
        cases hxa : x.app with
        | none =>
          simp [runItems, GenWs.onMessage, typeIs, hty, Guard.fires, Cond.holds, GE.eval, attrOf, WsGuards.isTruthy, Sys.onMessage,
            hx, hx', hxa]
        | some app =>
          obtain ⟨side, hxs⟩ := hside app hxa
          have := handle_claim_eq (s.send c (.ack (decodeId o))) c x app side t o pick draws fresh n hx' hxa hxs hn _ rfl
          simp [runItems, GenWs.onMessage, typeIs, hty, Guard.fires, Cond.holds, GE.eval, attrOf, WsGuards.isTruthy, GenWsBody.table,
            List.lookup, Sys.onMessage, hx, hx', hxa, hxs]
          simpa [GenWsBody.handle_claim] using this
      · -- release
        cases hn : fieldStr (jget o "nameplate") with
        | none => simp [hn] at hd
        | some n =>
        simp [hn] at hd; subst hd
        cases hxa : x.app with
        | none =>
          simp [runItems, GenWs.onMessage, typeIs, hty, Guard.fires, Cond.holds, GE.eval, attrOf, WsGuards.isTruthy, Sys.onMessage,
            hx, hx', hxa]
        | some app =>
          obtain ⟨side, hxs⟩ := hside app hxa
          have := handle_release_eq (s.send c (.ack (decodeId o))) c x app side t o pick draws fresh n hx' hxa hxs hn _ rfl
          simp [runItems, GenWs.onMessage, typeIs, hty, Guard.fires, Cond.holds, GE.eval, attrOf, WsGuards.isTruthy, GenWsBody.table,
            List.lookup, Sys.onMessage, hx, hx', hxa, hxs]
          simpa [GenWsBody.handle_release] using this
      · -- open
        cases hn : fieldStr (jget o "mailbox") with
        | none => simp [hn] at hd
        | some n =>
        simp [hn] at hd; subst hd
        cases hxa : x.app with
        | none =>
          simp [runItems, GenWs.onMessage, typeIs, hty, Guard.fires, Cond.holds, GE.eval, attrOf, WsGuards.isTruthy, Sys.onMessage,
            hx, hx', hxa]
        | some app =>
          obtain ⟨side, hxs⟩ := hside app hxa
          have := handle_open_eq (s.send c (.ack (decodeId o))) c x app side t o pick draws fresh n hx' hxa hxs hn _ rfl
          simp [runItems, GenWs.onMessage, typeIs, hty, Guard.fires, Cond.holds, GE.eval, attrOf, WsGuards.isTruthy, GenWsBody.table,
            List.lookup, Sys.onMessage, hx, hx', hxa, hxs]
          simpa [GenWsBody.handle_open] using this
      · -- add
        split at hd
        · rename_i hfit
          cases hph : fieldVal (jget o "phase") with
          | none => simp [hph] at hd
          | some ph =>
            cases hbd : fieldVal (jget o "body") with
            | none => simp [hph, hbd] at hd
            | some bd =>
              simp [hph, hbd] at hd; subst hd
              cases hxa : x.app with
              | none =>
                simp [runItems, GenWs.onMessage, typeIs, hty, Guard.fires, Cond.holds, GE.eval, attrOf, WsGuards.isTruthy, Sys.onMessage,
                  hx, hx', hxa]
              | some app =>
                obtain ⟨side, hxs⟩ := hside app hxa
                obtain ⟨hx2, _⟩ := ack_state idv hx hu
                have := handle_add_eq (s.send c (.ack idv)) c x app side t o pick draws fresh idv ph bd hx2 hxa hxs hid
                  hph hbd _ rfl
                simp [runItems, GenWs.onMessage, typeIs, hty, Guard.fires, Cond.holds, GE.eval, attrOf, WsGuards.isTruthy,
                  GenWsBody.table, List.lookup, Sys.onMessage, hx, hx2, hxa, hxs, hidv]
                simpa [GenWsBody.handle_add] using this
        · simp at hd
      · -- close
        cases hn : fieldStr (jget o "mailbox") with
        | none => simp [hn] at hd
        | some n =>
          cases hmo : fieldMood (jget o "mood") with
          | none => simp [hn, hmo] at hd
          | some mood =>
            simp [hn, hmo] at hd; subst hd
            cases hxa : x.app with
            | none =>
              simp [runItems, GenWs.onMessage, typeIs, hty, Guard.fires, Cond.holds, GE.eval, attrOf, WsGuards.isTruthy, Sys.onMessage,
                hx, hx', hxa]
            | some app =>
              obtain ⟨side, hxs⟩ := hside app hxa
              have := handle_close_eq (s.send c (.ack (decodeId o))) c x app side t o pick draws fresh n mood hx' hu' hxa hxs hn hmo
                _ rfl
              simp [runItems, GenWs.onMessage, typeIs, hty, Guard.fires, Cond.holds, GE.eval, attrOf, WsGuards.isTruthy,
                GenWsBody.table, List.lookup, Sys.onMessage, hx, hx', hxa, hxs]
              simpa [GenWsBody.handle_close] using this
      · -- unknown type
        simp at hd; subst hd
        obtain ⟨h1, h2, h3, h4, h5, h6, h7, h8, h9⟩ := hne
        cases hxa : x.app <;>
          simp [runItems, GenWs.onMessage, typeIs, hty, Guard.fires, Cond.holds, GE.eval, attrOf, WsGuards.isTruthy, Sys.onMessage,
            hx, hx', hxa, h1, h2, h3, h4, h5, h6, h7, h8, h9]

theorem uniq_of_pairwise : ∀ (l : List Conn) (c : Nat) (x : Conn), l.Pairwise (fun a b => ¬ a.id = b.id) →
    l.find? (fun y => decide (y.id = c)) = some x → ∀ y ∈ l, y.id = c → y = x
  | [], _, _, _, h, _, _, _ => by simp at h
  | z :: zs, c, x, hp, h, y, hy, hc => by
    rw [List.pairwise_cons] at hp
    by_cases hz : z.id = c
    · have hzx : z = x := by simpa [List.find?_cons, hz] using h
      subst hzx
      rcases List.mem_cons.1 hy with rfl | hy'
      · rfl
      · exact absurd (hz.trans hc.symm) (hp.1 y hy')
    · have h' : zs.find? (fun y => decide (y.id = c)) = some x := by simpa [List.find?_cons, hz] using h
      rcases List.mem_cons.1 hy with rfl | hy'
      · exact absurd hc hz
      · exact uniq_of_pairwise zs c x hp.2 h' y hy' hc

/-- `onMessage_eq` under the connection invariant of the model (Inv/Defs.lean) -/
theorem onMessage_eq_of_connInv (s : Sys) (hci : s.ConnInv) (c : Nat) (x : Conn) (t : Time) (o : JObj) (pick : Nat)
    (draws : List Nat) (fresh : String) (cmd : Cmd) (hx : s.findConn c = some x)
    (hd : decodeCmd o pick draws fresh = some cmd) :
    runItems GenWsBody.table ⟨c, t, o, pick, draws, fresh⟩ (decodeId o) GenWs.onMessage s
      = s.onMessage c t (decodeId o) cmd := by
  refine onMessage_eq s c x t o pick draws fresh cmd hx (uniq_of_pairwise s.conns c x hci.ids hx) ?_ hd
  intro a ha
  have hxm := Sys.findConn_mem hx
  have := (hci.bound x hxm).1 (by simp [ha])
  exact Option.isSome_iff_exists.1 this

/-- **in every reachable state** (any well-formed history, crashes included) the model handles a received object exactly as the
    translation of the current `onMessage` and handlers does -/
theorem onMessage_eq_reach (g : GSys) (hr : g.Reach) (c : Nat) (x : Conn) (t : Time) (o : JObj) (pick : Nat)
    (draws : List Nat) (fresh : String) (cmd : Cmd) (hx : g.sys.findConn c = some x)
    (hd : decodeCmd o pick draws fresh = some cmd) :
    runItems GenWsBody.table ⟨c, t, o, pick, draws, fresh⟩ (decodeId o) GenWs.onMessage g.sys
      = g.sys.onMessage c t (decodeId o) cmd :=
  onMessage_eq_of_connInv g.sys hr.ginv.conn c x t o pick draws fresh cmd hx hd

/-- the hypotheses of `onMessage_eq` hold in every reachable state (unique connection ids, a bound connection has a
    side): instance on a concrete state, run through the generated code -/
example :
    let s0 : Sys := { conns := [{ id := 1 }, { id := 2, app := some "a", side := some "s" }] }
    (runItems GenWsBody.table ⟨2, 5, [("type", .str "claim"), ("nameplate", .str "7"), ("id", .num 3)], 0, [], "mb"⟩ (.int 3)
        GenWs.onMessage s0).out
      = [.frame 2 (.ack (.int 3)) true, .commit .chan, .commit .chan, .frame 2 (.claimed "mb") true] := by decide

end Wormhole.Tie
