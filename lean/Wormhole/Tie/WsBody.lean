/-
  The bodies of the handlers of the CURRENT server_websocket.py (GeneratedWsBody.lean, regenerated on every
  run), run by the interpreter of PyWs.lean, ARE the model's handler functions of Ws.lean - for every state,
  every connection and every received object of the decoder's domain.
-/
import Wormhole.GeneratedWsBody
import Wormhole.Props.C17
import Wormhole.Inv.MsgDb
import Wormhole.Tie.WsReject

namespace Wormhole.Tie
open Wormhole Wormhole.PyWs

theorem handle_ping_eq (s : Sys) (c : Nat) (t : Time) (msg : JObj) (pick : Nat) (draws : List Nat) (fresh : String)
    (v : Option Val) (hv : fieldVal (jget msg "ping") = some v) (body : List PS)
    (hb : GenWsBody.handle_ping = some body) :
    runHandler body ⟨c, t, msg, pick, draws, fresh⟩ s = s.handlePing c v := by
  simp only [GenWsBody.handle_ping, Option.some.injEq] at hb
  subst hb
  cases hp : jget msg "ping" with
  | none =>
    simp [hp, fieldVal] at hv; subst hv
    simp [runHandler, execL, execS, eval, getPV, isTruthy, hp, Sys.handlePing]
  | some jv =>
    simp [hp, fieldVal] at hv
    obtain ⟨w, hw, rfl⟩ := hv
    cases jv <;> simp [JVal.toVal?] at hw <;> subst hw <;>
      simp [runHandler, execL, execS, eval, getPV, isTruthy, hp, Sys.handlePing, mkFrame, ofJson, List.lookup]

/-! ### the connection record under attribute writes and method calls -/

theorem setAttr_id (y : Conn) (a : String) (v : PV) : (setAttr y a v).id = y.id := by
  unfold setAttr; repeat' split <;> try rfl

theorem find_updL (c : Nat) (f : Conn → Conn) (hf : ∀ y, (f y).id = y.id) :
    ∀ (l : List Conn) (x : Conn), l.find? (fun y => decide (y.id = c)) = some x →
      (l.map (fun y => if y.id = c then f y else y)).find? (fun y => decide (y.id = c)) = some (f x)
  | [], _, h => by simp at h
  | y :: ys, x, h => by
    by_cases hy : y.id = c
    · have : y = x := by simpa [List.find?_cons, hy] using h
      subst this
      simp only [List.map_cons, hy, if_true, List.find?_cons, hf, decide_true]
    · have h' : ys.find? (fun y => decide (y.id = c)) = some x := by simpa [List.find?_cons, hy] using h
      have ih := find_updL c f hf ys x h'
      simp only [List.map_cons, hy, if_false, List.find?_cons, decide_false]
      exact ih

theorem findConn_updConn {s : Sys} {c : Nat} {x : Conn} {f : Conn → Conn} (hx : s.findConn c = some x)
    (hf : ∀ y, (f y).id = y.id) : (s.updConn c f).findConn c = some (f x) :=
  find_updL c f hf s.conns x hx

theorem findConn_congr {s s' : Sys} (h : s'.conns = s.conns) (c : Nat) : s'.findConn c = s.findConn c := by
  unfold Sys.findConn; rw [h]

theorem updConn_updConn (s : Sys) (c : Nat) (f g : Conn → Conn) (hf : ∀ y, (f y).id = y.id) :
    (s.updConn c f).updConn c g = s.updConn c (fun y => g (f y)) := by
  unfold Sys.updConn
  simp only [List.map_map]
  congr 1
  apply List.map_congr_left
  intro y _
  by_cases hy : y.id = c <;> simp [hy, hf]

theorem handle_claim_eq (s : Sys) (c : Nat) (x : Conn) (app side : String) (t : Time) (msg : JObj) (pick : Nat)
    (draws : List Nat) (fresh : String) (n : Option String)
    (hx : s.findConn c = some x) (ha : x.app = some app) (hs : x.side = some side)
    (hn : fieldStr (jget msg "nameplate") = some n) (body : List PS)
    (hb : GenWsBody.handle_claim = some body) :
    runHandler body ⟨c, t, msg, pick, draws, fresh⟩ s = s.handleClaim x app side t n fresh := by
  simp only [GenWsBody.handle_claim, Option.some.injEq] at hb
  subst hb
  have hid := Sys.findConn_id hx
  cases hj : jget msg "nameplate" with
  | none =>
    simp [hj, fieldStr] at hn; subst hn
    simp [runHandler, execL, execS, eval, getPV, isTruthy, hj, Sys.handleClaim, hid]
  | some jv =>
    cases jv <;> simp [hj, fieldStr] at hn
    subst hn
    rename_i name
    by_cases hdc : x.didClaim = true
    · simp [runHandler, execL, execS, eval, getPV, isTruthy, hj, Sys.handleClaim, St.conn, hx, getAttr, hdc, hid]
    · have hdc' : x.didClaim = false := by simpa using hdc
      have e1 : ∀ y : Conn, setAttr (setAttr y "_did_claim" (.bool true)) "_nameplate_id" (.str name)
          = { y with didClaim := true, nameplateId := some name } := by
        intro y; simp [setAttr, PV.toBool, PV.toOptStr]
      have h1 : (s.updConn c (fun y => setAttr y "_did_claim" (.bool true))).findConn c
          = some (setAttr x "_did_claim" (.bool true)) := findConn_updConn hx (fun y => setAttr_id y _ _)
      have h3 : (s.updConn c (fun y => setAttr y "_did_claim" (.bool true))).updConn c
            (fun y => setAttr y "_nameplate_id" (.str name))
          = s.updConn x.id (fun y => { y with didClaim := true, nameplateId := some name }) := by
        rw [updConn_updConn _ _ _ _ (fun y => setAttr_id y _ _), hid]
        simp only [e1]
      have h2 : (s.updConn x.id (fun y => { y with didClaim := true, nameplateId := some name })).findConn c
          = some { x with didClaim := true, nameplateId := some name } := by
        have := findConn_updConn (f := fun y => { y with didClaim := true, nameplateId := some name }) hx (fun _ => rfl)
        rw [← hid] at this ⊢
        simpa using this
      simp [runHandler, execL, execS, eval, getPV, isTruthy, hj, St.conn, hx, h1, getAttr, hdc', ofJson]
      rw [h3]
      simp [h2, ha, hs, callMethod, callClaim, ofOptStr, Sys.handleClaim, hdc']
      generalize s.updConn x.id (fun y => { y with didClaim := true, nameplateId := some name }) = S2
      rcases hr : S2.claimNameplate app name side t fresh with ⟨s3, r⟩
      cases r <;> simp [claimRes, mkFrame, List.lookup, hid, Sys.sendError, Sys.internalErr]

theorem handle_allocate_eq (s : Sys) (c : Nat) (x : Conn) (app side : String) (t : Time) (msg : JObj) (pick : Nat)
    (draws : List Nat) (fresh : String)
    (hx : s.findConn c = some x) (ha : x.app = some app) (hs : x.side = some side) (body : List PS)
    (hb : GenWsBody.handle_allocate = some body) :
    runHandler body ⟨c, t, msg, pick, draws, fresh⟩ s = s.handleAllocate x app side t pick draws fresh := by
  simp only [GenWsBody.handle_allocate, Option.some.injEq] at hb
  subst hb
  have hid := Sys.findConn_id hx
  by_cases hda : x.didAllocate = true
  · simp [runHandler, execL, execS, eval, getPV, isTruthy, Sys.handleAllocate, St.conn, hx, getAttr, hda, hid]
  · have hda' : x.didAllocate = false := by simpa using hda
    simp [runHandler, execL, execS, eval, getPV, isTruthy, Sys.handleAllocate, St.conn, hx, getAttr, hda', ha, hs, callMethod,
      callAllocate, ofOptStr]
    cases hf : Sys.findAvailable (s.db.namesOfApp app) pick draws with
    | none => simp [hid, Sys.internalErr]
    | some name =>
      rcases hr : s.claimNameplate app name side t fresh with ⟨s3, r⟩
      cases r <;> simp [hr, claimRes, mkFrame, List.lookup, hid, Sys.internalErr, setAttr, PV.toBool]

theorem handle_release_eq (s : Sys) (c : Nat) (x : Conn) (app side : String) (t : Time) (msg : JObj) (pick : Nat)
    (draws : List Nat) (fresh : String) (n : Option String)
    (hx : s.findConn c = some x) (ha : x.app = some app) (hs : x.side = some side)
    (hn : fieldStr (jget msg "nameplate") = some n) (body : List PS)
    (hb : GenWsBody.handle_release = some body) :
    runHandler body ⟨c, t, msg, pick, draws, fresh⟩ s = s.handleRelease x app side t n := by
  simp only [GenWsBody.handle_release, Option.some.injEq] at hb
  subst hb
  have hid := Sys.findConn_id hx
  by_cases hdr : x.didRelease = true
  · simp [runHandler, execL, execS, eval, getPV, isTruthy, Sys.handleRelease, St.conn, hx, getAttr, hdr, hid]
  · have hdr' : x.didRelease = false := by simpa using hdr
    have h1 : (s.updConn c (fun y => { y with didRelease := true })).findConn c = some { x with didRelease := true } :=
      findConn_updConn (f := fun y => { y with didRelease := true }) hx (fun _ => rfl)
    cases hj : jget msg "nameplate" with
    | none =>
      simp [hj, fieldStr] at hn; subst hn
      cases hnp : x.nameplateId with
      | none =>
        simp [runHandler, execL, execS, eval, getPV, isTruthy, St.conn, hx, getAttr, hdr', hj, hnp, Sys.handleRelease, hid, ofOptStr]
      | some held =>
        simp [runHandler, execL, execS, eval, getPV, isTruthy, St.conn, hx, h1, getAttr, setAttr, PV.toBool, hdr', hj, hnp, ofOptStr,
          ofJson, ha, hs, callMethod, callRelease, Sys.handleRelease, hid]
        generalize s.updConn c (fun y => { y with didRelease := true }) = S2
        rcases hr : S2.releaseNameplate app held side t with ⟨s3, r⟩
        cases r <;> simp [hr, boolRes, mkFrame, Sys.internalErr]
    | some jv =>
      cases jv <;> simp [hj, fieldStr] at hn
      subst hn
      rename_i name
      cases hnp : x.nameplateId with
      | none =>
        simp [runHandler, execL, execS, eval, getPV, isTruthy, St.conn, hx, h1, getAttr, setAttr, PV.toBool, hdr', hj, hnp, ofOptStr,
          ofJson, ha, hs, callMethod, callRelease, Sys.handleRelease, hid]
        generalize s.updConn c (fun y => { y with didRelease := true }) = S2
        rcases hr : S2.releaseNameplate app name side t with ⟨s3, r⟩
        cases r <;> simp [hr, boolRes, mkFrame, Sys.internalErr]
      | some held =>
        by_cases hne : name = held
        · subst hne
          simp [runHandler, execL, execS, eval, getPV, isTruthy, St.conn, hx, h1, getAttr, setAttr, PV.toBool, hdr', hj, hnp, ofOptStr,
            ofJson, ha, hs, callMethod, callRelease, Sys.handleRelease, hid]
          generalize s.updConn c (fun y => { y with didRelease := true }) = S2
          rcases hr : S2.releaseNameplate app name side t with ⟨s3, r⟩
          cases r <;> simp [hr, boolRes, mkFrame, Sys.internalErr]
        · simp [runHandler, execL, execS, eval, getPV, isTruthy, St.conn, hx, getAttr, hdr', hj, hnp, Sys.handleRelease, hid, ofOptStr,
            ofJson, hne]

theorem handle_bind_eq (s : Sys) (c : Nat) (x : Conn) (t : Time) (msg : JObj) (pick : Nat) (draws : List Nat) (fresh : String)
    (a sd i v : Option String)
    (hx : s.findConn c = some x)
    (hap : fieldStr (jget msg "appid") = some a) (hsd : fieldStr (jget msg "side") = some sd)
    (hcv : fieldCv (jget msg "client_version") = some (i, v)) (body : List PS)
    (hb : GenWsBody.handle_bind = some body) :
    runHandler body ⟨c, t, msg, pick, draws, fresh⟩ s = s.handleBind x t a sd i v := by
  simp only [GenWsBody.handle_bind, Option.some.injEq] at hb
  subst hb
  have hid := Sys.findConn_id hx
  by_cases hbd : x.app.isSome ∨ (x.side.isSome ∧ x.side ≠ some "")
  · have : isTruthy (eval x ⟨c, t, msg, pick, draws, fresh⟩ [] (.or_ (.attr "_app") (.attr "_side"))) = true := by
      cases hxa : x.app <;> cases hxs : x.side <;> simp_all [eval, getAttr, isTruthy, ofOptStr]
    simp only [runHandler, execL, execS, St.conn, hx, Option.getD_some, this, if_true]
    simp [execL, execS, Sys.handleBind, hid, hbd]
  · have hxa : x.app = none := by
      cases h : x.app with
      | none => rfl
      | some _ => exact absurd (Or.inl (by simp [h])) hbd
    have hxs : x.side = none ∨ x.side = some "" := by
      cases h : x.side with
      | none => exact Or.inl rfl
      | some sv =>
        by_cases hsv : sv = ""
        · subst hsv; exact Or.inr rfl
        · exact absurd (Or.inr ⟨by simp [h], by simp [h, hsv]⟩) hbd
    have hfalse : isTruthy (eval x ⟨c, t, msg, pick, draws, fresh⟩ [] (.or_ (.attr "_app") (.attr "_side"))) = false := by
      rcases hxs with h | h <;> simp [eval, getAttr, isTruthy, ofOptStr, hxa, h]
    cases hja : jget msg "appid" with
    | none =>
      simp [hja, fieldStr] at hap; subst hap
      simp only [runHandler, execL, execS, St.conn, hx, Option.getD_some, hfalse]
      simp [execL, execS, eval, getPV, isTruthy, hja, Sys.handleBind, hid, hbd]
    | some ja =>
      cases ja <;> simp [hja, fieldStr] at hap
      subst hap
      rename_i app
      cases hjs : jget msg "side" with
      | none =>
        simp [hjs, fieldStr] at hsd; subst hsd
        simp only [runHandler, execL, execS, St.conn, hx, Option.getD_some, hfalse]
        simp [execL, execS, eval, getPV, isTruthy, hja, hjs, Sys.handleBind, hid, hbd]
      | some js =>
        cases js <;> simp [hjs, fieldStr] at hsd
        subst hsd
        rename_i side
        have h1 : (s.updConn c (fun y => { y with app := some app })).findConn c = some { x with app := some app } :=
          findConn_updConn (f := fun y => { y with app := some app }) hx (fun _ => rfl)
        have h2 : ((s.updConn c (fun y => { y with app := some app })).updConn c (fun y => { y with side := some side })).findConn c
            = some { x with app := some app, side := some side } :=
          findConn_updConn (f := fun y => { y with side := some side }) h1 (fun _ => rfl)
        have h3 : (s.updConn c (fun y => { y with app := some app })).updConn c (fun y => { y with side := some side })
            = s.updConn c (fun y => { y with app := some app, side := some side }) :=
          updConn_updConn _ _ _ _ (fun _ => rfl)
        have h4 : (s.updConn c (fun y => { y with app := some app, side := some side })).findConn c
            = some { x with app := some app, side := some side } :=
          findConn_updConn (f := fun y => { y with app := some app, side := some side }) hx (fun _ => rfl)
        simp only [runHandler, execL, execS, St.conn, hx, Option.getD_some, hfalse]
        cases hjc : jget msg "client_version" with
        | none =>
          simp [hjc, fieldCv] at hcv
          obtain ⟨rfl, rfl⟩ := hcv
          simp [execL, execS, eval, getPV, isTruthy, hja, hjs, Sys.handleBind, hid, hbd, h1, h2,
            setAttr, PV.toOptStr, ofJson, getAttr, ofOptStr, callMethod, callLogClientVersion, List.lookup, h3, h4, hjc,
            cvOf, fieldCv, JVal.toOptStr?]
        | some jc =>
          have hc2 : fieldCv (some jc) = some (i, v) := by simpa [hjc] using hcv
          simp [execL, execS, eval, getPV, isTruthy, hja, hjs, Sys.handleBind, hid, hbd, h1, h2,
            setAttr, PV.toOptStr, ofJson, getAttr, ofOptStr, callMethod, callLogClientVersion, List.lookup, h3, h4, hjc,
            cvOf, hc2]

/-! ### handle_close -/

theorem updConn_congr_on (s : Sys) (c : Nat) (f g : Conn → Conn) (h : ∀ y ∈ s.conns, y.id = c → f y = g y) :
    s.updConn c f = s.updConn c g := by
  unfold Sys.updConn
  congr 1
  apply List.map_congr_left
  intro y hy
  by_cases hc : y.id = c
  · simp [hc, h y hy hc]
  · simp [hc]

/-- the statements of `handle_close` after the mailbox object is in hand -/
def closeTail : List PS :=
  [.if_ (.attr "_listening") [.call none "_mailbox" "remove_listener" [.self_], .setAttr "_listening" (.false_)] [],
   .setAttr "_did_close" (.true_), .call none "_mailbox" "close" [.attr "_side", .get "mood", .rx],
   .setAttr "_mailbox" (.none_), .send "closed" []]

theorem closeTail_eq (S1 : Sys) (c : Nat) (x1 : Conn) (app side h : String) (t : Time) (msg : JObj) (pick : Nat)
    (draws : List Nat) (fresh : String) (mood : Option String) (env : List (String × PV))
    (hx : S1.findConn c = some x1) (huniq : ∀ y ∈ S1.conns, y.id = c → y = x1)
    (ha : x1.app = some app) (hs : x1.side = some side) (hm : x1.mailbox = some h)
    (hmood : fieldMood (jget msg "mood") = some mood) :
    (let st := execL ⟨c, t, msg, pick, draws, fresh⟩ { s := S1, env := env, out := .running } closeTail
      match st.out with
      | .running => st.s
      | .error text => st.s.sendError c text
      | .exc cls => st.s.internalErr c cls) =
    (match (S1.updConn c (fun y => { y with listening := false, didClose := true })).mailboxClose app h side mood t with
      | (s3, false) => s3.internalErr c "IndexError"
      | (s3, true) => (s3.updConn c (fun y => { y with mailbox := none })).send c .closed) := by
  have hmoodv : (getPV msg "mood").toOptStr = mood := by
    unfold getPV
    cases hj : jget msg "mood" with
    | none => simp [hj, fieldMood] at hmood; simp [PV.toOptStr, hmood]
    | some v => cases v <;> simp [hj, fieldMood, JVal.toOptStr?] at hmood <;> simp [ofJson, PV.toOptStr, hmood]
  have h2 : (S1.updConn c (fun y => { y with listening := false, didClose := true })).findConn c
      = some { x1 with listening := false, didClose := true } :=
    findConn_updConn (f := fun y => { y with listening := false, didClose := true }) hx (fun _ => rfl)
  by_cases hl : x1.listening = true
  · have h1 : (S1.updConn c (fun y => { y with listening := false })).findConn c = some { x1 with listening := false } :=
      findConn_updConn (f := fun y => { y with listening := false }) hx (fun _ => rfl)
    have h3 : (S1.updConn c (fun y => { y with listening := false })).updConn c (fun y => { y with didClose := true })
        = S1.updConn c (fun y => { y with listening := false, didClose := true }) :=
      updConn_updConn _ _ _ _ (fun _ => rfl)
    simp [closeTail, execL, execS, eval, isTruthy, St.conn, hx, h1, h2, h3, getAttr, setAttr, PV.toBool, PV.toHandle, hl, ha, hs, hm,
      callMethod, callClose, ofOptStr, hmoodv]
    generalize S1.updConn c (fun y => { y with listening := false, didClose := true }) = S2
    rcases hr : S2.mailboxClose app h side mood t with ⟨s3, r⟩
    cases r <;> simp [hr, boolRes, mkFrame, Sys.internalErr]
  · have hl' : x1.listening = false := by simpa using hl
    have h3 : S1.updConn c (fun y => { y with didClose := true })
        = S1.updConn c (fun y => { y with listening := false, didClose := true }) := by
      apply updConn_congr_on
      intro y hy hc
      rw [huniq y hy hc]
      simp [hl']
    simp [closeTail, execL, execS, eval, isTruthy, St.conn, hx, h2, h3, getAttr, setAttr, PV.toBool, PV.toHandle, hl', ha, hs, hm,
      callMethod, callClose, ofOptStr, hmoodv]
    generalize S1.updConn c (fun y => { y with listening := false, didClose := true }) = S2
    rcases hr : S2.mailboxClose app h side mood t with ⟨s3, r⟩
    cases r <;> simp [hr, boolRes, mkFrame, Sys.internalErr]

theorem execL_append (ctx : Ctx) : ∀ (l1 l2 : List PS) (st : St), st.out = .running →
    execL ctx st (l1 ++ l2) = (match (execL ctx st l1).out with
      | .running => execL ctx (execL ctx st l1) l2
      | _ => execL ctx st l1)
  | [], l2, st, h => by simp [execL, h]
  | p :: l1, l2, st, h => by
    simp only [List.cons_append, execL]
    cases hp : (execS ctx st p).out with
    | running => simp only []; exact execL_append ctx l1 l2 _ hp
    | error text => simp [hp]
    | exc cls => simp [hp]

/-- the two validating statements at the head of `handle_close` -/
def closeHead2 : List PS :=
  [.if_ (.attr "_did_close") [.raise_ "only one close per connection"] [],
   .if_ (.has "mailbox")
     [.if_ (.notNone (.attr "_mailbox_id"))
        [.if_ (.ne (.item "mailbox") (.attr "_mailbox_id")) [.raise_ "open and close must use same mailbox"] []] [],
      .setLocal "mailbox_id" (.item "mailbox")]
     [.if_ (.isNone (.attr "_mailbox_id")) [.raise_ "close without mailbox must follow open"] [],
      .setLocal "mailbox_id" (.attr "_mailbox_id")]]

/-- `if not self._mailbox: try: self._mailbox = self._app.open_mailbox(…) except CrowdedError: raise Error("crowded")` -/
def closeOpen : PS :=
  .if_ (.not_ (.attr "_mailbox"))
     [.try_ [.call (some (true, "_mailbox")) "_app" "open_mailbox" [.local_ "mailbox_id", .attr "_side", .rx]]
        [("CrowdedError", "crowded")]] []

theorem handle_close_split : GenWsBody.handle_close = some (closeHead2 ++ ([closeOpen] ++ closeTail)) := rfl

theorem updConn_id (s : Sys) (c : Nat) : s.updConn c (fun y => y) = s := by
  unfold Sys.updConn
  have : (s.conns.map fun x => if x.id = c then x else x) = s.conns := by
    conv => rhs; rw [← List.map_id s.conns]
    apply List.map_congr_left; intro y _; split <;> rfl
  rw [this]

theorem uniq_updConn {s : Sys} {c : Nat} {x : Conn} {f : Conn → Conn} (_hf : ∀ y, (f y).id = y.id)
    (hu : ∀ y ∈ s.conns, y.id = c → y = x) : ∀ y ∈ (s.updConn c f).conns, y.id = c → y = f x := by
  intro y hy hc
  simp only [Sys.updConn, List.mem_map] at hy
  obtain ⟨y0, hy0, rfl⟩ := hy
  by_cases h0 : y0.id = c
  · have := hu y0 hy0 h0
    subst this
    simp [h0]
  · rw [if_neg h0] at hc
    exact absurd hc h0

/-- `go mb` of `Ws.handleClose` (with `x.id` written `c`) -/
def goModel (s : Sys) (c : Nat) (x : Conn) (app side mb : String) (t : Time) (mood : Option String) : Sys :=
  let opened : Sys × Sys.OpenRes × String :=
    match x.mailbox with
    | some h => (s, .ok, h)
    | none =>
      match s.openMailbox app mb side t with
      | (s1, r) => (s1.updConn c (fun y => if r = .ok then { y with mailbox := some mb } else y), r, mb)
  match opened with
  | (s1, .crowded, _) => s1.sendError c "crowded"
  | (s1, .integrity, _) => s1.internalErr c "IntegrityError"
  | (s1, .ok, h) =>
    match (s1.updConn c (fun y => { y with listening := false, didClose := true })).mailboxClose app h side mood t with
    | (s3, false) => s3.internalErr c "IndexError"
    | (s3, true) => (s3.updConn c (fun y => { y with mailbox := none })).send c .closed

/-- what `go mb` of `Ws.handleClose` computes, given the head of the generated body has put `mb` into the local -/
theorem close_go (s : Sys) (c : Nat) (x : Conn) (app side mb : String) (t : Time) (msg : JObj) (pick : Nat)
    (draws : List Nat) (fresh : String) (mood : Option String)
    (hx : s.findConn c = some x) (huniq : ∀ y ∈ s.conns, y.id = c → y = x)
    (ha : x.app = some app) (hs : x.side = some side) (hmood : fieldMood (jget msg "mood") = some mood) :
    (let st := execL ⟨c, t, msg, pick, draws, fresh⟩ { s := s, env := [("mailbox_id", .str mb)], out := .running }
        ([closeOpen] ++ closeTail)
      match st.out with
      | .running => st.s
      | .error text => st.s.sendError c text
      | .exc cls => st.s.internalErr c cls) =
    goModel s c x app side mb t mood := by
  unfold goModel
  rw [execL_append _ _ _ _ rfl]
  cases hmb : x.mailbox with
  | some h =>
    have e : execL ⟨c, t, msg, pick, draws, fresh⟩ { s := s, env := [("mailbox_id", .str mb)], out := .running }
        [closeOpen]
        = { s := s, env := [("mailbox_id", .str mb)], out := .running } := by
      simp [closeOpen, execL, execS, eval, isTruthy, St.conn, hx, getAttr, hmb]
    rw [e]
    exact closeTail_eq s c x app side h t msg pick draws fresh mood _ hx huniq ha hs hmb hmood
  | none =>
    rcases hr : s.openMailbox app mb side t with ⟨s1, r⟩
    have hc1 : s1.conns = s.conns := by
      have := Sys.openMailbox_conns s app mb side t
      rw [hr] at this; exact this
    have hx1 : s1.findConn c = some x := by rw [findConn_congr hc1]; exact hx
    cases r with
    | crowded =>
      simp [closeOpen, execL, execS, eval, isTruthy, St.conn, hx, getAttr, hmb, ha, hs, callMethod, callOpen, hr, openRes, ofOptStr,
        List.lookup, updConn_id]
    | integrity =>
      simp [closeOpen, execL, execS, eval, isTruthy, St.conn, hx, getAttr, hmb, ha, hs, callMethod, callOpen, hr, openRes, ofOptStr,
        List.lookup, updConn_id]
    | ok =>
      have e : execL ⟨c, t, msg, pick, draws, fresh⟩ { s := s, env := [("mailbox_id", .str mb)], out := .running }
          [closeOpen]
          = { s := s1.updConn c (fun y => { y with mailbox := some mb }), env := [("mailbox_id", .str mb)], out := .running } := by
        simp [closeOpen, execL, execS, eval, isTruthy, St.conn, hx, getAttr, hmb, ha, hs, callMethod, callOpen, hr, openRes, ofOptStr,
          List.lookup, setAttr, PV.toHandle]
      rw [e]
      simp only []
      have hx2 : (s1.updConn c (fun y => { y with mailbox := some mb })).findConn c = some { x with mailbox := some mb } :=
        findConn_updConn (f := fun y => { y with mailbox := some mb }) hx1 (fun _ => rfl)
      have hu2 : ∀ y ∈ (s1.updConn c (fun y => { y with mailbox := some mb })).conns, y.id = c → y = { x with mailbox := some mb } :=
        uniq_updConn (f := fun y => { y with mailbox := some mb }) (fun _ => rfl) (by rw [hc1]; exact huniq)
      have := closeTail_eq (s1.updConn c (fun y => { y with mailbox := some mb })) c { x with mailbox := some mb } app side mb t msg
        pick draws fresh mood [("mailbox_id", .str mb)] hx2 hu2 ha hs rfl hmood
      simpa using this

theorem handle_close_eq (s : Sys) (c : Nat) (x : Conn) (app side : String) (t : Time) (msg : JObj) (pick : Nat)
    (draws : List Nat) (fresh : String) (m mood : Option String)
    (hx : s.findConn c = some x) (huniq : ∀ y ∈ s.conns, y.id = c → y = x)
    (ha : x.app = some app) (hs : x.side = some side)
    (hm : fieldStr (jget msg "mailbox") = some m) (hmood : fieldMood (jget msg "mood") = some mood) (body : List PS)
    (hb : GenWsBody.handle_close = some body) :
    runHandler body ⟨c, t, msg, pick, draws, fresh⟩ s = s.handleClose x app side t m mood := by
  rw [handle_close_split] at hb
  simp only [Option.some.injEq] at hb
  subst hb
  have hid := Sys.findConn_id hx
  unfold runHandler
  rw [execL_append _ _ _ _ rfl]
  by_cases hdc : x.didClose = true
  · simp [closeHead2, execL, execS, eval, getPV, isTruthy, St.conn, hx, getAttr, hdc, Sys.handleClose, hid]
  · have hdc' : x.didClose = false := by simpa using hdc
    cases hj : jget msg "mailbox" with
    | none =>
      simp [hj, fieldStr] at hm; subst hm
      cases hmi : x.mailboxId with
      | none =>
        simp [closeHead2, execL, execS, eval, getPV, isTruthy, St.conn, hx, getAttr, hdc', hj, hmi, Sys.handleClose, hid, ofOptStr]
      | some held =>
        have hE : execL ⟨c, t, msg, pick, draws, fresh⟩ { s := s, env := [], out := .running } closeHead2
            = { s := s, env := [("mailbox_id", .str held)], out := .running } := by
          simp [closeHead2, execL, execS, eval, getPV, isTruthy, St.conn, hx, getAttr, hdc', hj, hmi, ofOptStr]
        rw [hE]
        refine (close_go s c x app side held t msg pick draws fresh mood hx huniq ha hs hmood).trans ?_
        subst hid
        simp only [Sys.handleClose, goModel, hdc', hmi]
        first | rfl | simp
    | some jv =>
      cases jv <;> simp [hj, fieldStr] at hm
      subst hm
      rename_i mb
      cases hmi : x.mailboxId with
      | none =>
        have hE : execL ⟨c, t, msg, pick, draws, fresh⟩ { s := s, env := [], out := .running } closeHead2
            = { s := s, env := [("mailbox_id", .str mb)], out := .running } := by
          simp [closeHead2, execL, execS, eval, getPV, isTruthy, St.conn, hx, getAttr, hdc', hj, hmi, ofOptStr, ofJson]
        rw [hE]
        refine (close_go s c x app side mb t msg pick draws fresh mood hx huniq ha hs hmood).trans ?_
        subst hid
        simp only [Sys.handleClose, goModel, hdc', hmi]
        first | rfl | simp
      | some held =>
        by_cases hne : mb = held
        · subst hne
          have hE : execL ⟨c, t, msg, pick, draws, fresh⟩ { s := s, env := [], out := .running } closeHead2
              = { s := s, env := [("mailbox_id", .str mb)], out := .running } := by
            simp [closeHead2, execL, execS, eval, getPV, isTruthy, St.conn, hx, getAttr, hdc', hj, hmi, ofOptStr, ofJson]
          rw [hE]
          refine (close_go s c x app side mb t msg pick draws fresh mood hx huniq ha hs hmood).trans ?_
          subst hid
          simp only [Sys.handleClose, goModel, hdc', hmi, ne_eq, not_true_eq_false, if_false, Bool.false_eq_true, ite_false]
          first | rfl | simp
        · simp [closeHead2, execL, execS, eval, getPV, isTruthy, St.conn, hx, getAttr, hdc', hj, hmi, Sys.handleClose, hid, ofOptStr,
            ofJson, hne]

theorem getPV_toVal {o : JObj} {k : String} {v : Val} (h : fieldVal (jget o k) = some (some v)) :
    (getPV o k).toVal? = some v := by
  unfold getPV
  cases hj : jget o k with
  | none => simp [hj, fieldVal] at h
  | some jv =>
    simp [hj, fieldVal] at h
    cases jv <;> simp [JVal.toVal?] at h <;> subst h <;> simp [ofJson, PV.toVal?]

theorem getPV_id {o : JObj} {v : Val} (h : fieldId (jget o "id") = some v) : (getPV o "id").toVal? = some v := by
  unfold getPV
  cases hj : jget o "id" with
  | none => simp [hj, fieldId] at h; subst h; simp [PV.toVal?]
  | some jv =>
    simp [hj, fieldId] at h
    cases jv <;> simp [JVal.toVal?] at h <;> subst h <;> simp [ofJson, PV.toVal?]

theorem handle_add_eq (s : Sys) (c : Nat) (x : Conn) (app side : String) (t : Time) (msg : JObj) (pick : Nat)
    (draws : List Nat) (fresh : String) (id : Val) (ph bd : Option Val)
    (hx : s.findConn c = some x) (ha : x.app = some app) (hs : x.side = some side)
    (hid : fieldId (jget msg "id") = some id)
    (hph : fieldVal (jget msg "phase") = some ph) (hbd : fieldVal (jget msg "body") = some bd) (body : List PS)
    (hb : GenWsBody.handle_add = some body) :
    runHandler body ⟨c, t, msg, pick, draws, fresh⟩ s = s.handleAdd x app side t id ph bd := by
  simp only [GenWsBody.handle_add, Option.some.injEq] at hb
  subst hb
  have hxid := Sys.findConn_id hx
  cases hmb : x.mailbox with
  | none =>
    simp [runHandler, execL, execS, eval, isTruthy, St.conn, hx, getAttr, hmb, Sys.handleAdd, hxid]
  | some mb =>
    have hp1 := fieldVal_isNone hph
    have hb1 := fieldVal_isNone hbd
    cases ph with
    | none =>
      have hj := hp1.1 rfl
      simp [runHandler, execL, execS, eval, isTruthy, St.conn, hx, getAttr, hmb, Sys.handleAdd, hxid, hj]
    | some p =>
      have hjp : (jget msg "phase").isSome = true := by
        cases h : jget msg "phase" with
        | none => exact absurd (hp1.2 h) (by simp)
        | some _ => rfl
      cases bd with
      | none =>
        have hj := hb1.1 rfl
        simp [runHandler, execL, execS, eval, isTruthy, St.conn, hx, getAttr, hmb, Sys.handleAdd, hxid, hj, hjp]
      | some b =>
        have hjb : (jget msg "body").isSome = true := by
          cases h : jget msg "body" with
          | none => exact absurd (hb1.2 h) (by simp)
          | some _ => rfl
        have e1 := getPV_toVal hph
        have e2 := getPV_toVal hbd
        have e3 := getPV_id hid
        simp [runHandler, execL, execS, eval, isTruthy, St.conn, hx, getAttr, hmb, Sys.handleAdd, hxid, hjp, hjb, ha, hs,
          List.lookup, callMethod, callAddMessage, ofOptStr, e1, e2, e3]

theorem handle_list_eq (s : Sys) (c : Nat) (x : Conn) (app : String) (t : Time) (msg : JObj) (pick : Nat)
    (draws : List Nat) (fresh : String)
    (hx : s.findConn c = some x) (ha : x.app = some app) (body : List PS)
    (hb : GenWsBody.handle_list = some body) :
    runHandler body ⟨c, t, msg, pick, draws, fresh⟩ s = s.handleList x app := by
  simp only [GenWsBody.handle_list, Option.some.injEq] at hb
  subst hb
  have hxid := Sys.findConn_id hx
  by_cases hal : s.cfg.allowList = true
  · simp [runHandler, execL, execS, eval, St.conn, hx, ha, callMethod, List.lookup, mkFrame, Sys.handleList, hxid, hal]
  · have hal' : s.cfg.allowList = false := by simpa using hal
    simp [runHandler, execL, execS, eval, St.conn, hx, ha, callMethod, List.lookup, mkFrame, Sys.handleList, hxid, hal']

theorem handle_open_eq (s : Sys) (c : Nat) (x : Conn) (app side : String) (t : Time) (msg : JObj) (pick : Nat)
    (draws : List Nat) (fresh : String) (m : Option String)
    (hx : s.findConn c = some x) (ha : x.app = some app) (hs : x.side = some side)
    (hm : fieldStr (jget msg "mailbox") = some m) (body : List PS)
    (hb : GenWsBody.handle_open = some body) :
    runHandler body ⟨c, t, msg, pick, draws, fresh⟩ s = s.handleOpen x app side t m := by
  simp only [GenWsBody.handle_open, Option.some.injEq] at hb
  subst hb
  have hid := Sys.findConn_id hx
  cases hmb : x.mailbox with
  | some h =>
    simp [runHandler, execL, execS, eval, getPV, isTruthy, St.conn, hx, getAttr, hmb, Sys.handleOpen, hid]
  | none =>
    cases hj : jget msg "mailbox" with
    | none =>
      simp [hj, fieldStr] at hm; subst hm
      simp [runHandler, execL, execS, eval, getPV, isTruthy, St.conn, hx, getAttr, hmb, Sys.handleOpen, hid, hj]
    | some jv =>
      cases jv <;> simp [hj, fieldStr] at hm
      subst hm
      rename_i mb
      have h0 : (s.updConn c (fun y => { y with mailboxId := some mb })).findConn c = some { x with mailboxId := some mb } :=
        findConn_updConn (f := fun y => { y with mailboxId := some mb }) hx (fun _ => rfl)
      rcases hr : (s.updConn c (fun y => { y with mailboxId := some mb })).openMailbox app mb side t with ⟨s1, r⟩
      have hc1 : s1.conns = (s.updConn c (fun y => { y with mailboxId := some mb })).conns := by
        have := Sys.openMailbox_conns (s.updConn c (fun y => { y with mailboxId := some mb })) app mb side t
        rw [hr] at this; exact this
      have hx1 : s1.findConn c = some { x with mailboxId := some mb } := by rw [findConn_congr hc1]; exact h0
      have hx2 : (s1.updConn c (fun y => { y with mailbox := some mb })).findConn c
          = some { x with mailboxId := some mb, mailbox := some mb } :=
        findConn_updConn (f := fun y => { y with mailbox := some mb }) hx1 (fun _ => rfl)
      have hx3 : ((s1.updConn c (fun y => { y with mailbox := some mb })).updConn c (fun y => { y with listening := true })).findConn c
          = some { x with mailboxId := some mb, mailbox := some mb, listening := true } :=
        findConn_updConn (f := fun y => { y with listening := true }) hx2 (fun _ => rfl)
      have h3 : (s1.updConn c (fun y => { y with mailbox := some mb })).updConn c (fun y => { y with listening := true })
          = s1.updConn c (fun y => { y with mailbox := some mb, listening := true }) :=
        updConn_updConn _ _ _ _ (fun _ => rfl)
      have hx4 : (s1.updConn c (fun y => { y with mailbox := some mb, listening := true })).findConn c
          = some { x with mailboxId := some mb, mailbox := some mb, listening := true } :=
        findConn_updConn (f := fun y => { y with mailbox := some mb, listening := true }) hx1 (fun _ => rfl)
      cases r with
      | crowded =>
        simp [runHandler, execL, execS, eval, getPV, isTruthy, St.conn, hx, h0, getAttr, hmb, Sys.handleOpen, hid, hj, ofJson,
          setAttr, PV.toOptStr, List.lookup, ha, hs, callMethod, callOpen, hr, openRes, ofOptStr]
      | integrity =>
        simp [runHandler, execL, execS, eval, getPV, isTruthy, St.conn, hx, h0, getAttr, hmb, Sys.handleOpen, hid, hj, ofJson,
          setAttr, PV.toOptStr, List.lookup, ha, hs, callMethod, callOpen, hr, openRes, ofOptStr]
      | ok =>
        simp [runHandler, execL, execS, eval, getPV, isTruthy, St.conn, hx, h0, hx2, hx3, hx4, h3, getAttr, hmb, Sys.handleOpen, hid, hj,
          ofJson, setAttr, PV.toOptStr, PV.toHandle, PV.toBool, List.lookup, ha, hs, callMethod, callOpen, hr, openRes, ofOptStr,
          listenReplay, expectedSend, expectedStop]

/-! ### the hypotheses `GenWsBody.handle_x = some body` above are not vacuous: all nine handlers ARE translated -/

theorem translated_handlers :
    GenWsBody.handle_ping.isSome = true ∧ GenWsBody.handle_bind.isSome = true ∧ GenWsBody.handle_allocate.isSome = true ∧
    GenWsBody.handle_claim.isSome = true ∧ GenWsBody.handle_release.isSome = true ∧ GenWsBody.handle_close.isSome = true ∧
    GenWsBody.handle_add.isSome = true ∧ GenWsBody.handle_list.isSome = true ∧ GenWsBody.handle_open.isSome = true :=
  ⟨rfl, rfl, rfl, rfl, rfl, rfl, rfl, rfl, rfl⟩

/-- non-vacuity on a concrete state: a bound connection claims nameplate "7" through the generated body -/
example :
    let s0 : Sys := { conns := [{ id := 2, app := some "a", side := some "s" }] }
    (GenWsBody.handle_claim.map (fun b => (runHandler b ⟨2, 5, [("type", .str "claim"), ("nameplate", .str "7")], 0, [], "mb"⟩ s0).out)) =
      some [.commit .chan, .commit .chan, .frame 2 (.claimed "mb") true] := by decide

end Wormhole.Tie
