/-
  The bodies of the handlers of the CURRENT server_websocket.py (GeneratedWsBody.lean, regenerated on every
  run), run by the interpreter of PyWs.lean, ARE the model's handler functions of Ws.lean - for every state,
  every connection and every received object of the decoder's domain.
-/
import Wormhole.GeneratedWsBody
import Wormhole.Props.C17

namespace Wormhole.Tie
open Wormhole Wormhole.PyWs

theorem handle_ping_eq (s : Sys) (c : Nat) (t : Time) (msg : JObj) (pick : Nat) (draws : List Nat) (fresh : String)
    (v : Option Val) (hv : fieldVal (jget msg "ping") = some v) (body : List PS)
    (hb : GenWsBody.handle_ping = some body) :
    runHandler body ⟨c, t, msg, pick, draws, fresh⟩ s = s.handlePing c v := by
  simp only [GenWsBody.handle_ping, Option.some.injEq] at hb
  subst hb
  cases hp : jget msg "ping" with
  | none =>
    simp [hp, fieldVal] at hv; subst hv
    simp [runHandler, execL, execS, eval, isTruthy, hp, Sys.handlePing]
  | some jv =>
    simp [hp, fieldVal] at hv
    obtain ⟨w, hw, rfl⟩ := hv
    cases jv <;> simp [JVal.toVal?] at hw <;> subst hw <;>
      simp [runHandler, execL, execS, eval, isTruthy, hp, Sys.handlePing, mkFrame, ofJson, List.lookup]

/-! ### the connection record under attribute writes and method calls -/

theorem setAttr_id (y : Conn) (a : String) (v : PV) : (setAttr y a v).id = y.id := by
  unfold setAttr; repeat' split <;> try rfl

theorem find_updL (c : Nat) (f : Conn → Conn) (hf : ∀ y, (f y).id = y.id) :
    ∀ (l : List Conn) (x : Conn), l.find? (fun y => decide (y.id = c)) = some x →
      (l.map (fun y => if y.id = c then f y else y)).find? (fun y => decide (y.id = c)) = some (f x)
  | [], _, h => by simp at h
  | y :: ys, x, h => by
    by_cases hy : y.id = c
    · have : y = x := by simpa [List.find?_cons, hy] using h
      subst this
      simp only [List.map_cons, hy, if_true, List.find?_cons, hf, decide_true]
    · have h' : ys.find? (fun y => decide (y.id = c)) = some x := by simpa [List.find?_cons, hy] using h
      have ih := find_updL c f hf ys x h'
      simp only [List.map_cons, hy, if_false, List.find?_cons, decide_false]
      exact ih

theorem findConn_updConn {s : Sys} {c : Nat} {x : Conn} {f : Conn → Conn} (hx : s.findConn c = some x)
    (hf : ∀ y, (f y).id = y.id) : (s.updConn c f).findConn c = some (f x) :=
  find_updL c f hf s.conns x hx

theorem findConn_congr {s s' : Sys} (h : s'.conns = s.conns) (c : Nat) : s'.findConn c = s.findConn c := by
  unfold Sys.findConn; rw [h]

theorem updConn_updConn (s : Sys) (c : Nat) (f g : Conn → Conn) (hf : ∀ y, (f y).id = y.id) :
    (s.updConn c f).updConn c g = s.updConn c (fun y => g (f y)) := by
  unfold Sys.updConn
  simp only [List.map_map]
  congr 1
  apply List.map_congr_left
  intro y _
  by_cases hy : y.id = c <;> simp [hy, hf]

theorem handle_claim_eq (s : Sys) (c : Nat) (x : Conn) (app side : String) (t : Time) (msg : JObj) (pick : Nat)
    (draws : List Nat) (fresh : String) (n : Option String)
    (hx : s.findConn c = some x) (ha : x.app = some app) (hs : x.side = some side)
    (hn : fieldStr (jget msg "nameplate") = some n) (body : List PS)
    (hb : GenWsBody.handle_claim = some body) :
    runHandler body ⟨c, t, msg, pick, draws, fresh⟩ s = s.handleClaim x app side t n fresh := by
  simp only [GenWsBody.handle_claim, Option.some.injEq] at hb
  subst hb
  have hid := Sys.findConn_id hx
  cases hj : jget msg "nameplate" with
  | none =>
    simp [hj, fieldStr] at hn; subst hn
    simp [runHandler, execL, execS, eval, isTruthy, hj, Sys.handleClaim, hid]
  | some jv =>
    cases jv <;> simp [hj, fieldStr] at hn
    subst hn
    rename_i name
    by_cases hdc : x.didClaim = true
    · simp [runHandler, execL, execS, eval, isTruthy, hj, Sys.handleClaim, St.conn, hx, getAttr, hdc, hid]
    · have hdc' : x.didClaim = false := by simpa using hdc
      have e1 : ∀ y : Conn, setAttr (setAttr y "_did_claim" (.bool true)) "_nameplate_id" (.str name)
          = { y with didClaim := true, nameplateId := some name } := by
        intro y; simp [setAttr, PV.toBool, PV.toOptStr]
      have h1 : (s.updConn c (fun y => setAttr y "_did_claim" (.bool true))).findConn c
          = some (setAttr x "_did_claim" (.bool true)) := findConn_updConn hx (fun y => setAttr_id y _ _)
      have h3 : (s.updConn c (fun y => setAttr y "_did_claim" (.bool true))).updConn c
            (fun y => setAttr y "_nameplate_id" (.str name))
          = s.updConn x.id (fun y => { y with didClaim := true, nameplateId := some name }) := by
        rw [updConn_updConn _ _ _ _ (fun y => setAttr_id y _ _), hid]
        simp only [e1]
      have h2 : (s.updConn x.id (fun y => { y with didClaim := true, nameplateId := some name })).findConn c
          = some { x with didClaim := true, nameplateId := some name } := by
        have := findConn_updConn (f := fun y => { y with didClaim := true, nameplateId := some name }) hx (fun _ => rfl)
        rw [← hid] at this ⊢
        simpa using this
      simp [runHandler, execL, execS, eval, isTruthy, hj, St.conn, hx, h1, getAttr, hdc', ofJson]
      rw [h3]
      simp [h2, ha, hs, callMethod, callClaim, ofOptStr, Sys.handleClaim, hdc']
      generalize s.updConn x.id (fun y => { y with didClaim := true, nameplateId := some name }) = S2
      rcases hr : S2.claimNameplate app name side t fresh with ⟨s3, r⟩
      cases r <;> simp [claimRes, mkFrame, List.lookup, hid, Sys.sendError, Sys.internalErr]

theorem handle_allocate_eq (s : Sys) (c : Nat) (x : Conn) (app side : String) (t : Time) (msg : JObj) (pick : Nat)
    (draws : List Nat) (fresh : String)
    (hx : s.findConn c = some x) (ha : x.app = some app) (hs : x.side = some side) (body : List PS)
    (hb : GenWsBody.handle_allocate = some body) :
    runHandler body ⟨c, t, msg, pick, draws, fresh⟩ s = s.handleAllocate x app side t pick draws fresh := by
  simp only [GenWsBody.handle_allocate, Option.some.injEq] at hb
  subst hb
  have hid := Sys.findConn_id hx
  by_cases hda : x.didAllocate = true
  · simp [runHandler, execL, execS, eval, isTruthy, Sys.handleAllocate, St.conn, hx, getAttr, hda, hid]
  · have hda' : x.didAllocate = false := by simpa using hda
    simp [runHandler, execL, execS, eval, isTruthy, Sys.handleAllocate, St.conn, hx, getAttr, hda', ha, hs, callMethod,
      callAllocate, ofOptStr]
    cases hf : Sys.findAvailable (s.db.namesOfApp app) pick draws with
    | none => simp [hid, Sys.internalErr]
    | some name =>
      rcases hr : s.claimNameplate app name side t fresh with ⟨s3, r⟩
      cases r <;> simp [hr, claimRes, mkFrame, List.lookup, hid, Sys.internalErr, setAttr, PV.toBool]

theorem handle_release_eq (s : Sys) (c : Nat) (x : Conn) (app side : String) (t : Time) (msg : JObj) (pick : Nat)
    (draws : List Nat) (fresh : String) (n : Option String)
    (hx : s.findConn c = some x) (ha : x.app = some app) (hs : x.side = some side)
    (hn : fieldStr (jget msg "nameplate") = some n) (body : List PS)
    (hb : GenWsBody.handle_release = some body) :
    runHandler body ⟨c, t, msg, pick, draws, fresh⟩ s = s.handleRelease x app side t n := by
  simp only [GenWsBody.handle_release, Option.some.injEq] at hb
  subst hb
  have hid := Sys.findConn_id hx
  by_cases hdr : x.didRelease = true
  · simp [runHandler, execL, execS, eval, isTruthy, Sys.handleRelease, St.conn, hx, getAttr, hdr, hid]
  · have hdr' : x.didRelease = false := by simpa using hdr
    have h1 : (s.updConn c (fun y => { y with didRelease := true })).findConn c = some { x with didRelease := true } :=
      findConn_updConn (f := fun y => { y with didRelease := true }) hx (fun _ => rfl)
    cases hj : jget msg "nameplate" with
    | none =>
      simp [hj, fieldStr] at hn; subst hn
      cases hnp : x.nameplateId with
      | none =>
        simp [runHandler, execL, execS, eval, isTruthy, St.conn, hx, getAttr, hdr', hj, hnp, Sys.handleRelease, hid, ofOptStr]
      | some held =>
        simp [runHandler, execL, execS, eval, isTruthy, St.conn, hx, h1, getAttr, setAttr, PV.toBool, hdr', hj, hnp, ofOptStr,
          ofJson, ha, hs, callMethod, callRelease, Sys.handleRelease, hid]
        generalize s.updConn c (fun y => { y with didRelease := true }) = S2
        rcases hr : S2.releaseNameplate app held side t with ⟨s3, r⟩
        cases r <;> simp [hr, boolRes, mkFrame, Sys.internalErr]
    | some jv =>
      cases jv <;> simp [hj, fieldStr] at hn
      subst hn
      rename_i name
      cases hnp : x.nameplateId with
      | none =>
        simp [runHandler, execL, execS, eval, isTruthy, St.conn, hx, h1, getAttr, setAttr, PV.toBool, hdr', hj, hnp, ofOptStr,
          ofJson, ha, hs, callMethod, callRelease, Sys.handleRelease, hid]
        generalize s.updConn c (fun y => { y with didRelease := true }) = S2
        rcases hr : S2.releaseNameplate app name side t with ⟨s3, r⟩
        cases r <;> simp [hr, boolRes, mkFrame, Sys.internalErr]
      | some held =>
        by_cases hne : name = held
        · subst hne
          simp [runHandler, execL, execS, eval, isTruthy, St.conn, hx, h1, getAttr, setAttr, PV.toBool, hdr', hj, hnp, ofOptStr,
            ofJson, ha, hs, callMethod, callRelease, Sys.handleRelease, hid]
          generalize s.updConn c (fun y => { y with didRelease := true }) = S2
          rcases hr : S2.releaseNameplate app name side t with ⟨s3, r⟩
          cases r <;> simp [hr, boolRes, mkFrame, Sys.internalErr]
        · simp [runHandler, execL, execS, eval, isTruthy, St.conn, hx, getAttr, hdr', hj, hnp, Sys.handleRelease, hid, ofOptStr,
            ofJson, hne]

theorem handle_bind_eq (s : Sys) (c : Nat) (x : Conn) (t : Time) (msg : JObj) (pick : Nat) (draws : List Nat) (fresh : String)
    (a sd i v : Option String)
    (hx : s.findConn c = some x)
    (hap : fieldStr (jget msg "appid") = some a) (hsd : fieldStr (jget msg "side") = some sd)
    (hcv : fieldCv (jget msg "client_version") = some (i, v)) (body : List PS)
    (hb : GenWsBody.handle_bind = some body) :
    runHandler body ⟨c, t, msg, pick, draws, fresh⟩ s = s.handleBind x t a sd i v := by
  simp only [GenWsBody.handle_bind, Option.some.injEq] at hb
  subst hb
  have hid := Sys.findConn_id hx
  by_cases hbd : x.app.isSome ∨ (x.side.isSome ∧ x.side ≠ some "")
  · have : isTruthy (eval x ⟨c, t, msg, pick, draws, fresh⟩ [] (.or_ (.attr "_app") (.attr "_side"))) = true := by
      cases hxa : x.app <;> cases hxs : x.side <;> simp_all [eval, getAttr, isTruthy, ofOptStr]
    simp only [runHandler, execL, execS, St.conn, hx, Option.getD_some, this, if_true]
    simp [execL, execS, Sys.handleBind, hid, hbd]
  · have hxa : x.app = none := by
      cases h : x.app with
      | none => rfl
      | some _ => exact absurd (Or.inl (by simp [h])) hbd
    have hxs : x.side = none ∨ x.side = some "" := by
      cases h : x.side with
      | none => exact Or.inl rfl
      | some sv =>
        by_cases hsv : sv = ""
        · subst hsv; exact Or.inr rfl
        · exact absurd (Or.inr ⟨by simp [h], by simp [h, hsv]⟩) hbd
    have hfalse : isTruthy (eval x ⟨c, t, msg, pick, draws, fresh⟩ [] (.or_ (.attr "_app") (.attr "_side"))) = false := by
      rcases hxs with h | h <;> simp [eval, getAttr, isTruthy, ofOptStr, hxa, h]
    cases hja : jget msg "appid" with
    | none =>
      simp [hja, fieldStr] at hap; subst hap
      simp only [runHandler, execL, execS, St.conn, hx, Option.getD_some, hfalse]
      simp [execL, execS, eval, isTruthy, hja, Sys.handleBind, hid, hbd]
    | some ja =>
      cases ja <;> simp [hja, fieldStr] at hap
      subst hap
      rename_i app
      cases hjs : jget msg "side" with
      | none =>
        simp [hjs, fieldStr] at hsd; subst hsd
        simp only [runHandler, execL, execS, St.conn, hx, Option.getD_some, hfalse]
        simp [execL, execS, eval, isTruthy, hja, hjs, Sys.handleBind, hid, hbd]
      | some js =>
        cases js <;> simp [hjs, fieldStr] at hsd
        subst hsd
        rename_i side
        have h1 : (s.updConn c (fun y => { y with app := some app })).findConn c = some { x with app := some app } :=
          findConn_updConn (f := fun y => { y with app := some app }) hx (fun _ => rfl)
        have h2 : ((s.updConn c (fun y => { y with app := some app })).updConn c (fun y => { y with side := some side })).findConn c
            = some { x with app := some app, side := some side } :=
          findConn_updConn (f := fun y => { y with side := some side }) h1 (fun _ => rfl)
        have h3 : (s.updConn c (fun y => { y with app := some app })).updConn c (fun y => { y with side := some side })
            = s.updConn c (fun y => { y with app := some app, side := some side }) :=
          updConn_updConn _ _ _ _ (fun _ => rfl)
        have h4 : (s.updConn c (fun y => { y with app := some app, side := some side })).findConn c
            = some { x with app := some app, side := some side } :=
          findConn_updConn (f := fun y => { y with app := some app, side := some side }) hx (fun _ => rfl)
        simp only [runHandler, execL, execS, St.conn, hx, Option.getD_some, hfalse]
        cases hjc : jget msg "client_version" with
        | none =>
          simp [hjc, fieldCv] at hcv
          obtain ⟨rfl, rfl⟩ := hcv
          simp [execL, execS, eval, isTruthy, hja, hjs, Sys.handleBind, hid, hbd, h1, h2,
            setAttr, PV.toOptStr, ofJson, getAttr, ofOptStr, callMethod, callLogClientVersion, List.lookup, h3, h4, hjc,
            cvOf, fieldCv, JVal.toOptStr?]
        | some jc =>
          have hc2 : fieldCv (some jc) = some (i, v) := by simpa [hjc] using hcv
          simp [execL, execS, eval, isTruthy, hja, hjs, Sys.handleBind, hid, hbd, h1, h2,
            setAttr, PV.toOptStr, ofJson, getAttr, ofOptStr, callMethod, callLogClientVersion, List.lookup, h3, h4, hjc,
            cvOf, hc2]

end Wormhole.Tie
