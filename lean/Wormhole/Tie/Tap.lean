/-
  The periodic sweep of the CURRENT server_tap.makeService (GeneratedTap.lean, regenerated on every run) is the model's
  `Sys.expire`: same cutoff `now - CHANNEL_EXPIRATION_TIME`, pruning inside a handler that catches every `Exception`, then the
  status row - and it is the function the `TimerService` is given, with `EXPIRATION_CHECK_PERIOD` as its period.
-/
import Wormhole.GeneratedTap

namespace Wormhole.Tie
open Wormhole Wormhole.PyTap

/-- running the generated `expire()` is `Sys.expire`, and no exception escapes it (the timer loop keeps running) -/
theorem expire_eq (s : Sys) (now : Time) (fault : Bool) :
    run GenTap.expire s now fault = (s.expire now fault, false) := by
  cases fault
  · simp [run, GenTap.expire, execL, execS, eval, constVal, catchesAll, Sys.expire, List.lookup]
    rcases h : (s.emit (.fired now (now - Generated.expirationTicks))).pruneApps now (now - Generated.expirationTicks)
      (s.emit (.fired now (now - Generated.expirationTicks))).allApps with ⟨s1, ok⟩
    cases ok <;> simp [Sys.emit, Sys.dumpStats, List.lookup]
  · simp [run, GenTap.expire, execL, execS, eval, constVal, catchesAll, Sys.expire, List.lookup, Sys.emit, Sys.dumpStats]

/-- the timer is given `expire` and the period constant that `Generated.periodTicks` is read from (C12_grace, C13's schedule) -/
theorem timer_is_expire_every_period : GenTap.timer = ("EXPIRATION_CHECK_PERIOD", "expire") := by decide

end Wormhole.Tie
