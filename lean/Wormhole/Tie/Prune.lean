/-
  server.py `AppNamespace.prune`, `Server.get_all_apps`.
-/
import Wormhole.Tie.Defs

namespace Wormhole.Tie
open Wormhole Wormhole.Sql Wormhole.GenSql

theorem prune_select_mailboxes (d : Chan) (app : String) :
    SelectIs AppNamespace_prune__select_mailboxes_0 .chan [("self._app_id", .text app)] d.tables
      ((d.mailboxesOfApp app).map MailboxRow.toRow) := by
  tie [AppNamespace_prune__select_mailboxes_0, Chan.mailboxesOfApp]

theorem prune_select_nameplates (d : Chan) (app : String) :
    SelectIs AppNamespace_prune__select_nameplates_0 .chan [("self._app_id", .text app)] d.tables
      ((d.nameplatesOfApp app).map Nameplate.toRow) := by
  tie [AppNamespace_prune__select_nameplates_0, Chan.nameplatesOfApp]

theorem prune_select_nameplate_sides (d : Chan) (npid : Nat) :
    SelectIs AppNamespace_prune__select_nameplate_sides_0 .chan [("npid", .int npid)] d.tables
      ((d.npSidesOf npid).map NpSide.toRow) := by
  tie [AppNamespace_prune__select_nameplate_sides_0, Chan.npSidesOf]

theorem prune_delete_nameplate_sides (d : Chan) (npid : Nat) :
    ChanWriteIs AppNamespace_prune__delete_nameplate_sides_0 [("npid", .int npid)] d (d.delNpSidesOf npid) := by
  tie [AppNamespace_prune__delete_nameplate_sides_0, Chan.delNpSidesOf]

theorem prune_delete_nameplate (d : Chan) (npid : Nat) :
    ChanWriteIs AppNamespace_prune__delete_nameplates_0 [("npid", .int npid)] d (d.delNameplate npid) := by
  tie [AppNamespace_prune__delete_nameplates_0, Chan.delNameplate]

/-- the re-read of the mailbox row (for `for_nameplate`) is a look-up by the bare id -/
theorem prune_select_mailbox (d : Chan) (mb : String) :
    SelectIs AppNamespace_prune__select_mailboxes_1 .chan [("mailbox_id", .text mb)] d.tables
      ((d.mailboxes.filter (fun r => r.id = mb)).map MailboxRow.toRow) := by
  tie [AppNamespace_prune__select_mailboxes_1]

theorem findMailboxById_fetchone (d : Chan) (mb : String) :
    ((d.mailboxes.filter (fun r => r.id = mb)).map MailboxRow.toRow).head?
      = (d.findMailboxById mb).map MailboxRow.toRow := by
  simp [Chan.findMailboxById, List.head?_map, List.head?_filter]

theorem prune_select_mailbox_sides (d : Chan) (mb : String) :
    SelectIs AppNamespace_prune__select_mailbox_sides_0 .chan [("mailbox_id", .text mb)] d.tables
      ((d.mbSidesOf mb).map MbSide.toRow) := by
  tie [AppNamespace_prune__select_mailbox_sides_0, Chan.mbSidesOf]

theorem prune_delete_messages (d : Chan) (mb : String) :
    ChanWriteIs AppNamespace_prune__delete_messages_0 [("mailbox_id", .text mb)] d (d.delMessagesOf mb) := by
  tie [AppNamespace_prune__delete_messages_0, Chan.delMessagesOf]

theorem prune_delete_mailbox_sides (d : Chan) (mb : String) :
    ChanWriteIs AppNamespace_prune__delete_mailbox_sides_0 [("mailbox_id", .text mb)] d (d.delMbSidesOf mb) := by
  tie [AppNamespace_prune__delete_mailbox_sides_0, Chan.delMbSidesOf]

theorem prune_delete_mailbox (d : Chan) (mb : String) :
    ChanWriteIs AppNamespace_prune__delete_mailboxes_0 [("mailbox_id", .text mb)] d (d.delMailbox mb) := by
  tie [AppNamespace_prune__delete_mailboxes_0, Chan.delMailbox]

/-! `get_all_apps`: the three `SELECT DISTINCT app_id` scans -/

theorem all_apps_nameplates (d : Chan) :
    SelectIs Server_get_all_apps__select_nameplates_0 .chan [] d.tables
      ((d.nameplates.map (·.app)).eraseDups.map (fun a => [("app_id", .text a)])) := by
  constructor
  · rfl
  · rfl
  · rfl
  · tie_simp [Server_get_all_apps__select_nameplates_0]
    rw [← eraseDups_map_inj (fun n : String => ([("app_id", Cell.text n)] : Row)) (by intro a b h; simpa using h)]
    simp [List.map_map, Function.comp_def, filter_const_true]

theorem all_apps_mailboxes (d : Chan) :
    SelectIs Server_get_all_apps__select_mailboxes_0 .chan [] d.tables
      ((d.mailboxes.map (·.app)).eraseDups.map (fun a => [("app_id", .text a)])) := by
  constructor
  · rfl
  · rfl
  · rfl
  · tie_simp [Server_get_all_apps__select_mailboxes_0]
    rw [← eraseDups_map_inj (fun n : String => ([("app_id", Cell.text n)] : Row)) (by intro a b h; simpa using h)]
    simp [List.map_map, Function.comp_def, filter_const_true]

theorem all_apps_messages (d : Chan) :
    SelectIs Server_get_all_apps__select_messages_0 .chan [] d.tables
      ((d.messages.map (·.app)).eraseDups.map (fun a => [("app_id", .text a)])) := by
  constructor
  · rfl
  · rfl
  · rfl
  · tie_simp [Server_get_all_apps__select_messages_0]
    rw [← eraseDups_map_inj (fun n : String => ([("app_id", Cell.text n)] : Row)) (by intro a b h; simpa using h)]
    simp [List.map_map, Function.comp_def, filter_const_true]

end Wormhole.Tie
