/-
  server.py `Mailbox.close`: every SQL statement of the current source means the primitive that
  `Core.mailboxClose` uses in its place.
-/
import Wormhole.Tie.Defs

namespace Wormhole.Tie
open Wormhole Wormhole.Sql Wormhole.GenSql

theorem close_select_mailbox (d : Chan) (app mb : String) :
    SelectIs Mailbox_close__select_mailboxes_0 .chan [("self._app_id", .text app), ("self._mailbox_id", .text mb)] d.tables
      ((d.mailboxes.filter (fun r => r.app = app ∧ r.id = mb)).map MailboxRow.toRow) := by
  tie [Mailbox_close__select_mailboxes_0]

theorem close_select_side (d : Chan) (mb side : String) :
    SelectIs Mailbox_close__select_mailbox_sides_0 .chan [("self._mailbox_id", .text mb), ("side", .text side)] d.tables
      ((d.mbSides.filter (fun r => r.mailbox = mb ∧ r.side = side)).map MbSide.toRow) := by
  tie [Mailbox_close__select_mailbox_sides_0]

/-- the UPDATE is `closeSide mb side mood` -/
theorem close_update_side (d : Chan) (mb side : String) (mood : Option String) :
    ChanWriteIs Mailbox_close__update_mailbox_sides_0
      [("mood", ofOptStr mood), ("self._mailbox_id", .text mb), ("side", .text side)] d (d.closeSide mb side mood) := by
  tie [Mailbox_close__update_mailbox_sides_0, Chan.closeSide]

theorem close_select_sides (d : Chan) (mb : String) :
    SelectIs Mailbox_close__select_mailbox_sides_1 .chan [("self._mailbox_id", .text mb)] d.tables
      ((d.mbSidesOf mb).map MbSide.toRow) := by
  tie [Mailbox_close__select_mailbox_sides_1, Chan.mbSidesOf]

theorem close_select_nameplates (d : Chan) (app mb : String) :
    SelectIs Mailbox_close__select_nameplates_0 .chan [("self._app_id", .text app), ("self._mailbox_id", .text mb)] d.tables
      ((d.nameplatesOfMailbox app mb).map Nameplate.toRow) := by
  tie [Mailbox_close__select_nameplates_0, Chan.nameplatesOfMailbox]

theorem close_select_nameplate_sides (d : Chan) (npid : Nat) :
    SelectIs Mailbox_close__select_nameplate_sides_0 .chan [("np_row['id']", .int npid)] d.tables
      ((d.npSidesOf npid).map NpSide.toRow) := by
  tie [Mailbox_close__select_nameplate_sides_0, Chan.npSidesOf]

/-- repair A: the side rows deleted are those of the nameplates of THIS app that point at THIS mailbox -/
theorem close_delete_nameplate_sides (d : Chan) (app mb : String) :
    ChanWriteIs Mailbox_close__delete_nameplate_sides_0
      [("self._app_id", .text app), ("self._mailbox_id", .text mb)] d (d.delNpSidesOfMailbox app mb) := by
  constructor <;> tie_simp [Mailbox_close__delete_nameplate_sides_0, Chan.delNpSidesOfMailbox, Chan.nameplatesOfMailbox]
  congr 1
  apply List.filter_congr
  intro r _
  rw [Bool.eq_iff_iff]
  simp
  constructor
  · intro h x hx ha hm he; exact h x hx ha hm he.symm
  · intro h x hx ha hm he; exact h x hx ha hm he.symm

theorem close_delete_nameplates (d : Chan) (app mb : String) :
    ChanWriteIs Mailbox_close__delete_nameplates_0
      [("self._app_id", .text app), ("self._mailbox_id", .text mb)] d (d.delNameplatesOfMailbox app mb) := by
  tie [Mailbox_close__delete_nameplates_0, Chan.delNameplatesOfMailbox]

theorem close_delete_messages (d : Chan) (mb : String) :
    ChanWriteIs Mailbox_close__delete_messages_0 [("self._mailbox_id", .text mb)] d (d.delMessagesOf mb) := by
  tie [Mailbox_close__delete_messages_0, Chan.delMessagesOf]

theorem close_delete_mailbox_sides (d : Chan) (mb : String) :
    ChanWriteIs Mailbox_close__delete_mailbox_sides_0 [("self._mailbox_id", .text mb)] d (d.delMbSidesOf mb) := by
  tie [Mailbox_close__delete_mailbox_sides_0, Chan.delMbSidesOf]

theorem close_delete_mailbox (d : Chan) (mb : String) :
    ChanWriteIs Mailbox_close__delete_mailboxes_0 [("self._mailbox_id", .text mb)] d (d.delMailbox mb) := by
  tie [Mailbox_close__delete_mailboxes_0, Chan.delMailbox]

end Wormhole.Tie
