/-
  Completeness of the SQL tie: the statements embedded in the CURRENT server.py are exactly the ones
  for which `Wormhole/Tie/*.lean` prove `primitive = meaning of the statement` (one theorem each).
  A statement added to, removed from or moved inside server.py changes the regenerated list and this
  `decide` no longer checks; a changed statement keeps its name and breaks its own theorem instead.
-/
import Wormhole.Tie.MailboxOpen
import Wormhole.Tie.Messages
import Wormhole.Tie.MailboxClose
import Wormhole.Tie.Claim
import Wormhole.Tie.Release
import Wormhole.Tie.Prune
import Wormhole.Tie.UsageSql

namespace Wormhole.Tie
open Wormhole Wormhole.Sql

/-- the embedded statements of server.py, by name, in source order -/
theorem all_statements_tied :
    GenSql.all.map (·.1) = [
      "Mailbox_open__select_mailbox_sides_0",
      "Mailbox_open__insert_mailbox_sides_0",
      "Mailbox__touch__update_mailboxes_0",
      "Mailbox_get_messages__select_messages_0",
      "Mailbox__add_message__insert_messages_0",
      "Mailbox_close__select_mailboxes_0",
      "Mailbox_close__select_mailbox_sides_0",
      "Mailbox_close__update_mailbox_sides_0",
      "Mailbox_close__select_mailbox_sides_1",
      "Mailbox_close__select_nameplates_0",
      "Mailbox_close__select_nameplate_sides_0",
      "Mailbox_close__delete_nameplate_sides_0",
      "Mailbox_close__delete_nameplates_0",
      "Mailbox_close__delete_messages_0",
      "Mailbox_close__delete_mailbox_sides_0",
      "Mailbox_close__delete_mailboxes_0",
      "AppNamespace_log_client_version__insert_client_versions_0",
      "AppNamespace__get_nameplate_ids__select_nameplates_0",
      "AppNamespace_claim_nameplate__select_nameplates_0",
      "AppNamespace_claim_nameplate__insert_nameplates_0",
      "AppNamespace_claim_nameplate__select_nameplate_sides_0",
      "AppNamespace_claim_nameplate__insert_nameplate_sides_0",
      "AppNamespace_claim_nameplate__select_nameplate_sides_1",
      "AppNamespace_release_nameplate__select_nameplates_0",
      "AppNamespace_release_nameplate__select_nameplate_sides_0",
      "AppNamespace_release_nameplate__update_nameplate_sides_0",
      "AppNamespace_release_nameplate__select_nameplate_sides_1",
      "AppNamespace_release_nameplate__delete_nameplate_sides_0",
      "AppNamespace_release_nameplate__delete_nameplates_0",
      "AppNamespace__summarize_nameplate_and_store__insert_nameplates_0",
      "AppNamespace__add_mailbox__select_mailboxes_0",
      "AppNamespace__add_mailbox__insert_mailboxes_0",
      "AppNamespace_open_mailbox__select_mailbox_sides_0",
      "AppNamespace__summarize_mailbox_and_store__insert_mailboxes_0",
      "AppNamespace_prune__select_mailboxes_0",
      "AppNamespace_prune__select_nameplates_0",
      "AppNamespace_prune__select_nameplate_sides_0",
      "AppNamespace_prune__delete_nameplate_sides_0",
      "AppNamespace_prune__delete_nameplates_0",
      "AppNamespace_prune__select_mailboxes_1",
      "AppNamespace_prune__select_mailbox_sides_0",
      "AppNamespace_prune__delete_messages_0",
      "AppNamespace_prune__delete_mailbox_sides_0",
      "AppNamespace_prune__delete_mailboxes_0",
      "Server_get_all_apps__select_nameplates_0",
      "Server_get_all_apps__select_mailboxes_0",
      "Server_get_all_apps__select_messages_0",
      "Server_dump_stats__delete_current_0",
      "Server_dump_stats__insert_current_0"] := by decide

/-- every statement runs on the database its tie theorem says (channel statements never touch the
    usage database and vice versa): the usage statements are exactly these five -/
theorem usage_statements :
    (GenSql.all.filter (fun p => p.2.db = .usage)).map (·.1) = [
      "AppNamespace_log_client_version__insert_client_versions_0",
      "AppNamespace__summarize_nameplate_and_store__insert_nameplates_0",
      "AppNamespace__summarize_mailbox_and_store__insert_mailboxes_0",
      "Server_dump_stats__delete_current_0",
      "Server_dump_stats__insert_current_0"] := by decide

end Wormhole.Tie
