/-
  What it means for a primitive of Store.lean (resp. a usage-table update of Core.lean) to BE a
  statement of the current server.py:

  * `SelectIs st env tb rows`  - under the argument binding `env`, the generated statement `st`
    returns exactly `rows` (generic rows) from the tables `tb`;
  * `ChanWriteIs st env d d'`  - `d'` is the channel database `d` after executing `st` (a statement
    on the channel database): the target table is `execWrite …`, every other table is unchanged,
    and the AUTOINCREMENT counter moves iff the statement inserts into `nameplates`;
  * `UsageWriteIs st env u u'` - the same for the usage database.

  Each requires `argsBound`: every Python argument expression of the statement is a literal or is
  given a value by `env`, so a changed argument tuple cannot silently bind NULL.

  The schema used for INSERTs (column order, declared types, AUTOINCREMENT) is the regenerated
  `GenSql.chanColumns` / `GenSql.usageColumns`; `toRow_columns_*` check that the model's generic
  rows carry exactly the declared columns, in order.
-/
import Wormhole.Store
import Wormhole.GeneratedSql

namespace Wormhole.Tie
open Wormhole Wormhole.Sql

structure SelectIs (st : Stmt) (which : Which) (env : List (String × Cell)) (tb : Tables) (rows : List Row) : Prop where
  isSelect : st.kind = .select
  onDb : st.db = which
  bound : argsBound st env = true
  result : execSelect st (bindArgs st env) tb = rows

/-- the channel tables after statement `st` -/
def chanAfter (st : Stmt) (ps : List Cell) (d : Chan) : Tables := fun t =>
  if t = st.table then execWrite st ps (schemaOf GenSql.chanColumns st.table) d.nextNp d.tables else d.tables t

structure ChanWriteIs (st : Stmt) (env : List (String × Cell)) (d d' : Chan) : Prop where
  isWrite : st.kind ≠ .select
  onDb : st.db = .chan
  bound : argsBound st env = true
  nameplates : d'.tables "nameplates" = chanAfter st (bindArgs st env) d "nameplates"
  npSides : d'.tables "nameplate_sides" = chanAfter st (bindArgs st env) d "nameplate_sides"
  mailboxes : d'.tables "mailboxes" = chanAfter st (bindArgs st env) d "mailboxes"
  mbSides : d'.tables "mailbox_sides" = chanAfter st (bindArgs st env) d "mailbox_sides"
  messages : d'.tables "messages" = chanAfter st (bindArgs st env) d "messages"
  seq : d'.nextNp = d.nextNp + (if st.kind = .insert ∧ st.table = "nameplates" then 1 else 0)

/-- the usage tables after statement `st` -/
def usageAfter (st : Stmt) (ps : List Cell) (u : Usage) : Tables := fun t =>
  if t = st.table then execWrite st ps (schemaOf GenSql.usageColumns st.table) 0 u.tables else u.tables t

structure UsageWriteIs (st : Stmt) (env : List (String × Cell)) (u u' : Usage) : Prop where
  isWrite : st.kind ≠ .select
  onDb : st.db = .usage
  bound : argsBound st env = true
  nameplates : u'.tables "nameplates" = usageAfter st (bindArgs st env) u "nameplates"
  mailboxes : u'.tables "mailboxes" = usageAfter st (bindArgs st env) u "mailboxes"
  current : u'.tables "current" = usageAfter st (bindArgs st env) u "current"
  clients : u'.tables "client_versions" = usageAfter st (bindArgs st env) u "client_versions"

/-! ### the model's rows carry exactly the declared columns (regenerated schema) -/

def declared (cols : List (String × List (String × String × Bool))) (t : String) : List String :=
  (schemaOf cols t).map (·.1)

theorem toRow_columns_nameplates (r : Nameplate) : r.toRow.map (·.1) = declared GenSql.chanColumns "nameplates" := by rfl
theorem toRow_columns_npSides (r : NpSide) : r.toRow.map (·.1) = declared GenSql.chanColumns "nameplate_sides" := by rfl
theorem toRow_columns_mailboxes (r : MailboxRow) : r.toRow.map (·.1) = declared GenSql.chanColumns "mailboxes" := by rfl
theorem toRow_columns_mbSides (r : MbSide) : r.toRow.map (·.1) = declared GenSql.chanColumns "mailbox_sides" := by rfl
theorem toRow_columns_messages (r : Message) : r.toRow.map (·.1) = declared GenSql.chanColumns "messages" := by rfl
theorem toRow_columns_unameplates (r : UNameplate) : r.toRow.map (·.1) = declared GenSql.usageColumns "nameplates" := by rfl
theorem toRow_columns_umailboxes (r : UMailbox) : r.toRow.map (·.1) = declared GenSql.usageColumns "mailboxes" := by rfl
theorem toRow_columns_ucurrent (r : UCurrent) : r.toRow.map (·.1) = declared GenSql.usageColumns "current" := by rfl
theorem toRow_columns_uclients (r : UClient) : r.toRow.map (·.1) = declared GenSql.usageColumns "client_versions" := by rfl

/-- the only AUTOINCREMENT column of the channel schema is `nameplates.id` (what `Chan.nextNp` models) -/
theorem autoincrement_columns :
    (GenSql.chanColumns.flatMap (fun t => (t.2.filter (·.2.2)).map (fun c => (t.1, c.1)))) = [("nameplates", "id")] := by decide

/-- the columns whose TEXT affinity the model applies (`Val.toText` in `addMessage`): every column of
    `messages` that receives a client-supplied JSON scalar is declared VARCHAR -/
theorem message_scalar_columns_are_text :
    ((schemaOf GenSql.chanColumns "messages").filter (fun c => c.1 ∈ ["phase", "body", "msg_id"])).map (·.2.1)
      = ["VARCHAR", "VARCHAR", "VARCHAR"] := by decide

theorem affinity_varchar (v : Val) : affinity "VARCHAR" (ofVal v) = ofVal v.toText := by
  cases v <;> simp [affinity, ofVal, Val.toText]

theorem filter_const_true {α : Type} (l : List α) : l.filter (fun _ => true) = l := by
  induction l with
  | nil => rfl
  | cons a as ih => simp [List.filter, ih]

/-- `SELECT DISTINCT` commutes with an injective rendering of the rows -/
theorem eraseDups_map_inj {α β : Type} [BEq α] [LawfulBEq α] [BEq β] [LawfulBEq β] (f : α → β)
    (hf : ∀ a b, f a = f b → a = b) : ∀ l : List α, (l.map f).eraseDups = (l.eraseDups).map f
  | [] => by simp
  | a :: as => by
    have hlen : (as.filter (fun x => !x == a)).length < as.length + 1 :=
      Nat.lt_succ_of_le (List.length_filter_le _ as)
    have hp : (fun x => !(f x == f a)) = (fun x => !(x == a)) := by
      funext x
      by_cases h : x = a
      · simp [h]
      · have : ¬ f x = f a := fun e => h (hf _ _ e)
        have h1 : (f x == f a) = false := by simpa using this
        have h2 : (x == a) = false := by simpa using h
        simp [h1, h2]
    simp only [List.map_cons, List.eraseDups_cons, List.filter_map, Function.comp_def]
    rw [hp, eraseDups_map_inj f hf (as.filter (fun x => !x == a))]
termination_by l => l.length

/-- simp set that evaluates a generated statement on the model's tables -/
macro "tie_simp" "[" ls:Lean.Parser.Tactic.simpLemma,* "]" : tactic => `(tactic|
  simp [$ls,*, execSelect, execWrite, chanAfter, usageAfter, insertRow, updateRow, schemaOf, GenSql.chanColumns, GenSql.usageColumns,
    bindArgs, evalArg, argsBound, Chan.tables, Usage.tables, List.filter_map, rowMatches, simpleMatch, Cond.eval, param,
    Nameplate.toRow, NpSide.toRow, MailboxRow.toRow, MbSide.toRow, Message.toRow,
    UNameplate.toRow, UMailbox.toRow, UCurrent.toRow, UClient.toRow,
    Row.get, List.lookup, Cell.sqlEq, Function.comp_def, Int.natCast_inj, affinity, ofOptStr, ofOptTime, ofOptNat])

end Wormhole.Tie

namespace Wormhole.Tie
/-- prove a `SelectIs` / `ChanWriteIs` / `UsageWriteIs` for a concrete generated statement -/
macro "tie" "[" ls:Lean.Parser.Tactic.simpLemma,* "]" : tactic => `(tactic|
  (constructor <;> tie_simp [$ls,*] <;> (try (intro a _; split <;> simp_all))))
end Wormhole.Tie
