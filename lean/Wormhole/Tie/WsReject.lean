/-
  The validation layer of the CURRENT server_websocket.py (GeneratedWs.lean, regenerated on every run)
  decides exactly as the model does: for every connection record and every JSON object of the decoder's
  domain, the error text with which the generated guard lists refuse the object is `rejectText` of the
  decoded command - the function by which Props/C17.lean characterises the model's `onMessage`
  (`rejected_step`, `C17_validation_error`, `C17_validation_complete`).
-/
import Wormhole.GeneratedWs
import Wormhole.Props.C17

namespace Wormhole.Tie
open Wormhole Wormhole.WsGuards

theorem mtypeOf_cases (ty : JVal) :
    (mtypeOf ty = .ping ∧ ty = .str "ping") ∨ (mtypeOf ty = .bind ∧ ty = .str "bind") ∨
    (mtypeOf ty = .list ∧ ty = .str "list") ∨ (mtypeOf ty = .allocate ∧ ty = .str "allocate") ∨
    (mtypeOf ty = .claim ∧ ty = .str "claim") ∨ (mtypeOf ty = .release ∧ ty = .str "release") ∨
    (mtypeOf ty = .open_ ∧ ty = .str "open") ∨ (mtypeOf ty = .add ∧ ty = .str "add") ∨
    (mtypeOf ty = .close ∧ ty = .str "close") ∨
    (mtypeOf ty = .unknown ∧ ty ≠ .str "ping" ∧ ty ≠ .str "bind" ∧ ty ≠ .str "list" ∧ ty ≠ .str "allocate" ∧
      ty ≠ .str "claim" ∧ ty ≠ .str "release" ∧ ty ≠ .str "open" ∧ ty ≠ .str "add" ∧ ty ≠ .str "close") := by
  cases ty <;> simp [mtypeOf]
  rename_i s
  by_cases h1 : s = "ping" <;> by_cases h2 : s = "bind" <;> by_cases h3 : s = "list" <;>
    by_cases h4 : s = "allocate" <;> by_cases h5 : s = "claim" <;> by_cases h6 : s = "release" <;>
    by_cases h7 : s = "open" <;> by_cases h8 : s = "add" <;> by_cases h9 : s = "close" <;> simp_all

theorem fieldVal_isNone {j : Option JVal} {v : Option Val} (h : fieldVal j = some v) : (v = none ↔ j = none) := by
  cases j with
  | none => simp [fieldVal] at h; simp [← h]
  | some w =>
    simp [fieldVal] at h
    obtain ⟨u, _, rfl⟩ := h
    simp

macro "ws_simp" "[" ls:Lean.Parser.Tactic.simpLemma,* "]" : tactic => `(tactic|
  simp [$ls,*, reject, firstGuard, GenWs.onMessage, GenWs.handlers, Guard.fires, Cond.holds, GE.eval, attrOf, isTruthy, ofJson,
    WsGuards.ofOptStr, typeIs, rejectText, needBind, List.lookup])

theorem reject_eq_rejectText (x : Conn) (o : JObj) (pick : Nat) (draws : List Nat) (fresh : String) (cmd : Cmd)
    (h : decodeCmd o pick draws fresh = some cmd) :
    reject GenWs.handlers x o GenWs.onMessage = rejectText x cmd := by
  unfold decodeCmd decodeOf at h
  cases hty : jget o "type" with
  | none =>
    simp [hty] at h
    subst h
    simp [reject, GenWs.onMessage, Guard.fires, Cond.holds, hty, rejectText]
  | some ty =>
    simp only [hty] at h
    cases hid : fieldId (jget o "id") with
    | none => simp [hid] at h
    | some idv =>
      simp only [hid] at h
      rcases mtypeOf_cases ty with ⟨hm, rfl⟩ | ⟨hm, rfl⟩ | ⟨hm, rfl⟩ | ⟨hm, rfl⟩ | ⟨hm, rfl⟩ | ⟨hm, rfl⟩ | ⟨hm, rfl⟩ |
        ⟨hm, rfl⟩ | ⟨hm, rfl⟩ | ⟨hm, hne⟩
      all_goals simp only [hm] at h
      · -- ping
        cases hp : jget o "ping" with
        | none =>
          simp [hp, fieldVal] at h; subst h
          simp [reject, firstGuard, GenWs.onMessage, GenWs.handlers, Guard.fires, Cond.holds, typeIs, hty, hp, rejectText, List.lookup]
        | some v =>
          simp [hp, fieldVal] at h
          obtain ⟨w, hw, rfl⟩ := h
          simp [reject, firstGuard, GenWs.onMessage, GenWs.handlers, Guard.fires, Cond.holds, typeIs, hty, hp, rejectText, List.lookup]
      · -- bind
        have hb : isTruthy (GE.eval x o (.or_ (.attr "_app") (.attr "_side")))
            = decide (¬x.app = none ∨ ¬x.side = none ∧ ¬x.side = some "") := by
          cases hxa : x.app <;> cases hxs : x.side <;> simp [GE.eval, attrOf, isTruthy, WsGuards.ofOptStr, hxa, hxs]
        cases ha : jget o "appid" with
        | none =>
          cases hs : jget o "side" with
          | none =>
            simp [ha, hs, fieldStr] at h
            split at h <;> simp at h
            subst h
            simp_all [reject, firstGuard, GenWs.onMessage, GenWs.handlers, Guard.fires, Cond.holds, typeIs, rejectText, List.lookup]
            try (subst_vars; simp)
          | some sv =>
            cases sv <;> simp [ha, hs, fieldStr] at h
            split at h <;> simp at h
            subst h
            simp_all [reject, firstGuard, GenWs.onMessage, GenWs.handlers, Guard.fires, Cond.holds, typeIs, rejectText, List.lookup]
            try (subst_vars; simp)
        | some av =>
          cases av <;> simp [ha, fieldStr] at h
          cases hs : jget o "side" with
          | none =>
            simp [hs, fieldStr] at h
            split at h <;> simp at h
            subst h
            simp_all [reject, firstGuard, GenWs.onMessage, GenWs.handlers, Guard.fires, Cond.holds, typeIs, rejectText, List.lookup]
            try (subst_vars; simp)
          | some sv =>
            cases sv <;> simp [hs, fieldStr] at h
            split at h <;> simp at h
            subst h
            simp_all [reject, firstGuard, GenWs.onMessage, GenWs.handlers, Guard.fires, Cond.holds, typeIs, rejectText, List.lookup]
            try (subst_vars; simp)
      · -- list
        simp at h; subst h
        cases hxa : x.app <;> ws_simp [hty, hxa]
      · -- allocate
        simp at h; subst h
        cases hxa : x.app <;> ws_simp [hty, hxa]
      · -- claim
        cases hn : jget o "nameplate" with
        | none =>
          simp [hn, fieldStr] at h; subst h
          cases hxa : x.app <;> ws_simp [hty, hxa, hn]
        | some v =>
          cases v <;> simp [hn, fieldStr] at h
          subst h
          cases hxa : x.app <;> ws_simp [hty, hxa, hn]
      · -- release
        cases hn : jget o "nameplate" with
        | none =>
          simp [hn, fieldStr] at h; subst h
          cases hxa : x.app <;> cases hnp : x.nameplateId <;> ws_simp [hty, hxa, hn, hnp]
        | some v =>
          cases v <;> simp [hn, fieldStr] at h
          subst h
          cases hxa : x.app <;> cases hnp : x.nameplateId <;> ws_simp [hty, hxa, hn, hnp]
      · -- open
        cases hn : jget o "mailbox" with
        | none =>
          simp [hn, fieldStr] at h; subst h
          cases hxa : x.app <;> cases hmb : x.mailbox <;> ws_simp [hty, hxa, hn, hmb]
        | some v =>
          cases v <;> simp [hn, fieldStr] at h
          subst h
          cases hxa : x.app <;> cases hmb : x.mailbox <;> ws_simp [hty, hxa, hn, hmb]
      · -- add
        cases hp : fieldVal (jget o "phase") with
        | none => simp [hp] at h
        | some ph =>
          cases hb : fieldVal (jget o "body") with
          | none => simp [hp, hb] at h
          | some bd =>
            simp [hp, hb] at h
            obtain ⟨_, h⟩ := h
            subst h
            have h1 := fieldVal_isNone hp
            have h2 := fieldVal_isNone hb
            cases hxa : x.app <;> cases hmb : x.mailbox <;> cases hjp : jget o "phase" <;> cases hjb : jget o "body" <;>
              simp_all [reject, firstGuard, GenWs.onMessage, GenWs.handlers, Guard.fires, Cond.holds, GE.eval, attrOf, isTruthy,
                typeIs, rejectText, needBind, List.lookup]
      · -- close
        cases hmood : fieldMood (jget o "mood") with
        | none => simp [hmood] at h
        | some mood =>
          cases hn : jget o "mailbox" with
          | none =>
            simp [hn, hmood, fieldStr] at h; subst h
            cases hxa : x.app <;> cases hnp : x.mailboxId <;> ws_simp [hty, hxa, hn, hnp]
          | some v =>
            cases v <;> simp [hn, hmood, fieldStr] at h
            subst h
            cases hxa : x.app <;> cases hnp : x.mailboxId <;> ws_simp [hty, hxa, hn, hnp]
      · -- unknown type
        simp at h; subst h
        obtain ⟨h1, h2, h3, h4, h5, h6, h7, h8, h9⟩ := hne
        cases hxa : x.app <;> ws_simp [hty, hxa, h1, h2, h3, h4, h5, h6, h7, h8, h9]

/-- the `ack` is sent iff the object has a "type" key (the generated list has `.ack` right after that check) -/
theorem acked_iff_type (x : Conn) (o : JObj) :
    acked GenWs.handlers x o GenWs.onMessage = (jget o "type").isSome := by
  cases h : jget o "type" <;> simp [acked, GenWs.onMessage, Guard.fires, Cond.holds, h]

/-- **C17 on the source's own checks**: when the validation layer of the current server_websocket.py (as translated)
    refuses a received object with `text`, the step of the model emits exactly `[ack?, error text]` to the sender and
    leaves the whole state unchanged. -/
theorem source_validation_error {s : Sys} {c : Nat} {x : Conn} (t : Time) (o : JObj) (pick : Nat) (draws : List Nat)
    (fresh : String) {cmd : Cmd} {text : String} (hx : s.findConn c = some x)
    (hd : decodeCmd o pick draws fresh = some cmd)
    (hr : reject GenWs.handlers x o GenWs.onMessage = some text) :
    (s.step (.recv c t (decodeId o) cmd)).out =
      (if cmd = .noType then [] else [.frame c (.ack (decodeId o)) s.synced]) ++ [.frame c (.error text) s.synced] ∧
    Unchanged s (s.step (.recv c t (decodeId o) cmd)) :=
  C17_validation_error t (decodeId o) hx
    (rejected_of_rejectText (by rw [← reject_eq_rejectText x o pick draws fresh cmd hd]; exact hr))

/-- conversely, every `error` frame of the model other than the two raised by the database layer is a refusal by
    the source's own checks, with that text -/
theorem source_validation_complete {s : Sys} {c : Nat} {t : Time} (o : JObj) (pick : Nat) (draws : List Nat)
    (fresh : String) {cmd : Cmd} {c' : Nat} {text : String} {b : Bool}
    (hd : decodeCmd o pick draws fresh = some cmd)
    (h : .frame c' (.error text) b ∈ (s.step (.recv c t (decodeId o) cmd)).out)
    (h1 : text ≠ "crowded") (h2 : text ≠ "reclaimed") :
    c' = c ∧ ∃ x, s.findConn c = some x ∧ reject GenWs.handlers x o GenWs.onMessage = some text := by
  obtain ⟨hc, x, hx, hr⟩ := C17_validation_complete h h1 h2
  exact ⟨hc, x, hx, by rw [reject_eq_rejectText x o pick draws fresh cmd hd]; exact rejectText_of_rejected hr⟩

/-- non-vacuity: a second claim on a connection that claimed is refused by the generated checks -/
example : reject GenWs.handlers { id := 2, app := some "a", side := some "s", didClaim := true }
    [("type", .str "claim"), ("nameplate", .str "7")] GenWs.onMessage = some "only one claim per connection" := by decide
example : reject GenWs.handlers { id := 2, app := some "a", side := some "s" }
    [("type", .str "claim"), ("nameplate", .str "7")] GenWs.onMessage = none := by decide
example : reject GenWs.handlers { id := 2 } [("type", .str "list")] GenWs.onMessage = some "must bind first" := by decide

end Wormhole.Tie
