/-
  server.py `Mailbox.open`, `Mailbox._touch`, `AppNamespace._add_mailbox`, `AppNamespace.open_mailbox`:
  every SQL statement of the current source means the primitive the model uses in its place.
-/
import Wormhole.Tie.Defs

namespace Wormhole.Tie
open Wormhole Wormhole.Sql Wormhole.GenSql

/-- `Mailbox.open`: the look-up of the caller's side row -/
theorem Mailbox_open_select (d : Chan) (mb side : String) :
    SelectIs Mailbox_open__select_mailbox_sides_0 .chan [("self._mailbox_id", .text mb), ("side", .text side)] d.tables
      ((d.mbSides.filter (fun r => r.mailbox = mb ∧ r.side = side)).map MbSide.toRow) := by
  tie [Mailbox_open__select_mailbox_sides_0]

/-- … of which `.fetchone()` is `findMbSide` -/
theorem findMbSide_fetchone (d : Chan) (mb side : String) :
    ((d.mbSides.filter (fun r => r.mailbox = mb ∧ r.side = side)).map MbSide.toRow).head?
      = (d.findMbSide mb side).map MbSide.toRow := by
  simp [Chan.findMbSide, List.head?_map, List.head?_filter]

/-- `Mailbox.open`: the INSERT of a new side row is `insMbSide ⟨mb, true, side, when, none⟩` -/
theorem Mailbox_open_insert (d : Chan) (mb side : String) (t : Time) :
    ChanWriteIs Mailbox_open__insert_mailbox_sides_0
      [("self._mailbox_id", .text mb), ("side", .text side), ("when", .int t)] d
      (d.insMbSide ⟨mb, true, side, t, none⟩) := by
  tie [Mailbox_open__insert_mailbox_sides_0, Chan.insMbSide]

/-- `Mailbox._touch` is `touch mb when` -/
theorem Mailbox_touch_update (d : Chan) (mb : String) (t : Time) :
    ChanWriteIs Mailbox__touch__update_mailboxes_0 [("when", .int t), ("self._mailbox_id", .text mb)] d (d.touch mb t) := by
  tie [Mailbox__touch__update_mailboxes_0, Chan.touch]

end Wormhole.Tie

namespace Wormhole.Tie
open Wormhole Wormhole.Sql Wormhole.GenSql

/-- `_add_mailbox`: the look-up of the mailbox row -/
theorem add_mailbox_select (d : Chan) (app mb : String) :
    SelectIs AppNamespace__add_mailbox__select_mailboxes_0 .chan [("self._app_id", .text app), ("mailbox_id", .text mb)] d.tables
      ((d.mailboxes.filter (fun r => r.app = app ∧ r.id = mb)).map MailboxRow.toRow) := by
  tie [AppNamespace__add_mailbox__select_mailboxes_0]

theorem findMailbox_fetchone (d : Chan) (app mb : String) :
    ((d.mailboxes.filter (fun r => r.app = app ∧ r.id = mb)).map MailboxRow.toRow).head?
      = (d.findMailbox app mb).map MailboxRow.toRow := by
  simp [Chan.findMailbox, List.head?_map, List.head?_filter]

/-- `_add_mailbox`: the INSERT is `insMailbox ⟨app, mb, when, for_nameplate⟩` -/
theorem add_mailbox_insert (d : Chan) (app mb : String) (forNp : Bool) (t : Time) :
    ChanWriteIs AppNamespace__add_mailbox__insert_mailboxes_0
      [("self._app_id", .text app), ("mailbox_id", .text mb), ("for_nameplate", .bool forNp), ("when", .int t)] d
      (d.insMailbox ⟨app, mb, t, forNp⟩) := by
  tie [AppNamespace__add_mailbox__insert_mailboxes_0, Chan.insMailbox]

/-- `open_mailbox`: the count of side rows reads `mbSidesOf` -/
theorem open_mailbox_select (d : Chan) (mb : String) :
    SelectIs AppNamespace_open_mailbox__select_mailbox_sides_0 .chan [("mailbox_id", .text mb)] d.tables
      ((d.mbSidesOf mb).map MbSide.toRow) := by
  tie [AppNamespace_open_mailbox__select_mailbox_sides_0, Chan.mbSidesOf]

end Wormhole.Tie
