/-
  The method table of the websocket interpreter (PyWs.callMethod: "claim_nameplate" is `Sys.claimNameplate`, …) and the
  regenerated methods of server.py (GeneratedSrv.lean) are the same thing: what a handler of server_websocket.py calls is
  the body the current server.py has.  With `onMessage_eq_reach` (Tie/WsTop.lean) and the entry theorems of
  Tie/SrvStmts.lean this closes the chain   frame -> onMessage -> handle_* -> method of AppNamespace/Mailbox -> SQL.
-/
import Wormhole.PyWs
import Wormhole.Tie.Srv

namespace Wormhole.Tie
open Wormhole Wormhole.PySrv Wormhole.GenSrv

/-- a result of the method interpreter as the websocket interpreter sees it (`val` says how the returned value is
    represented there: a mailbox id, a Mailbox handle, None) -/
def toCall (val : SV → PyWs.PV) : ExecRes → PyWs.CallRes
  | .ok s v => .ret s (val v)
  | .raised s cls => .raised s cls

def asStr : SV → PyWs.PV
  | .str m => .str m
  | _ => .none

def asHandle : SV → PyWs.PV
  | .str m => .handle m
  | _ => .none

def asNone : SV → PyWs.PV := fun _ => .none

/-- `self._app.claim_nameplate(nameplate_id, self._side, server_rx)` of handle_claim runs the generated body -/
theorem table_claim (s : Sys) (ctx : PyWs.Ctx) (app name side : String) :
    PyWs.callClaim s ctx app [.str name, .str side, .time]
      = toCall asStr (runMethod callee3 AppNamespace_claim_nameplate { app := app, fresh := ctx.fresh }
          [.str name, .str side, .int ctx.t] s) := by
  rw [claim_nameplate_eq]
  simp only [PyWs.callClaim]
  rcases s.claimNameplate app name side ctx.t ctx.fresh with ⟨s1, r⟩
  cases r <;> simp [PyWs.claimRes, ofClaim, toCall, asStr]

theorem table_release (s : Sys) (ctx : PyWs.Ctx) (app name side : String) :
    PyWs.callRelease s ctx app [.str name, .str side, .time]
      = toCall asNone (runMethod callee3 AppNamespace_release_nameplate { app := app } [.str name, .str side, .int ctx.t] s) := by
  rw [release_nameplate_eq]
  simp only [PyWs.callRelease]
  rcases s.releaseNameplate app name side ctx.t with ⟨s1, ok⟩
  cases ok <;> simp [PyWs.boolRes, ofRelease, toCall, asNone]

theorem table_open (s : Sys) (ctx : PyWs.Ctx) (app mb side : String) :
    PyWs.callOpen s ctx app [.str mb, .str side, .time]
      = toCall asHandle (runMethod callee2 AppNamespace_open_mailbox { app := app } [.str mb, .str side, .int ctx.t] s) := by
  rw [open_mailbox_eq]
  simp only [PyWs.callOpen]
  rcases s.openMailbox app mb side ctx.t with ⟨s1, r⟩
  cases r <;> simp [PyWs.openRes, ofOpen, toCall, asHandle]

/-- the mood a handler passes (a string or None) -/
def moodOf (m : PyWs.PV) : Option String := m.toOptStr

theorem table_close (s : Sys) (ctx : PyWs.Ctx) (app h side : String) (mood : PyWs.PV) :
    PyWs.callClose s ctx app (some h) [.str side, mood, .time]
      = toCall asNone (runMethod callee0 Mailbox_close { app := app, mailbox := h }
          [.str side, moodSV (moodOf mood), .int ctx.t] s) := by
  rw [mailbox_close_eq]
  simp only [PyWs.callClose, moodOf]
  rcases s.mailboxClose app h side mood.toOptStr ctx.t with ⟨s1, ok⟩
  cases ok <;> simp [PyWs.boolRes, ofRelease, toCall, asNone]

/-- `Mailbox.add_message(sm)`: `_add_message(sm)` is the generated body; `broadcast_message(sm)` is the model's
    `broadcast` (the listener table is the model's, see PyWs.lean) -/
theorem table_add_message (s : Sys) (ctx : PyWs.Ctx) (app h side : String) (ph bd id : PyWs.PV) (p b i : Val)
    (hp : ph.toVal? = some p) (hb : bd.toVal? = some b) (hi : id.toVal? = some i) :
    PyWs.callAddMessage s ctx app (some h) [.str side, ph, bd, .time, id]
      = (match runMethod callee1 Mailbox_add_message { app := app, mailbox := h } [.msg side p b ctx.t i] s with
         | .ok s1 _ => .ret (s1.broadcast app h (.message side p b ctx.t i)) .none
         | .raised s1 cls => .raised s1 cls) := by
  rw [add_message_eq]
  simp [PyWs.callAddMessage, hp, hb, hi]

end Wormhole.Tie
