/-
  The model's methods of Core.lean ARE the methods of the current server.py.

  `GeneratedSrv.lean` is regenerated from server.py on every run (harness/translate_srv.py); here, for every argument
  and every state, running the generated body (PySrv.lean) gives exactly what the model's function gives:

    Mailbox._touch              = Chan.touch
    Mailbox.open                = Sys.mailboxOpen
    Mailbox._add_message        = Sys.addMessage
    AppNamespace._add_mailbox   = Sys.addMailbox            (none = IntegrityError)
    AppNamespace.open_mailbox   = Sys.openMailbox           (.crowded = CrowdedError)
    AppNamespace.claim_nameplate   = Sys.claimNameplate     (.reclaimed = ReclaimedError, .crowded = CrowdedError)
    AppNamespace.release_nameplate = Sys.releaseNameplate   (false = IndexError)

  Calls between the methods are resolved through the generated bodies themselves (`callee1` … `callee3`: a method may
  only call methods of a lower layer; a call that leaves the layering would raise "NoSuchMethod" and the equality
  would fail).  Statement names are given their meaning by `PySrv.stmtSem` (tied to the regenerated SQL in
  Tie/SrvStmts.lean).
-/
import Wormhole.GeneratedSrv

set_option linter.unusedSimpArgs false

namespace Wormhole.PySrv
open Wormhole Wormhole.GenSrv

/-- layer 1: methods that call nothing translated -/
def callee1 : Callee := fun meth ctx args s =>
  if meth = "Mailbox._touch" then runMethod callee0 Mailbox_touch ctx args s
  else if meth = "AppNamespace._add_mailbox" then runMethod callee0 AppNamespace_add_mailbox ctx args s
  else callee0 meth ctx args s

/-- layer 2 -/
def callee2 : Callee := fun meth ctx args s =>
  if meth = "Mailbox.open" then runMethod callee1 Mailbox_open ctx args s
  else if meth = "Mailbox._add_message" then runMethod callee1 Mailbox_add_message ctx args s
  else callee1 meth ctx args s

/-- layer 3 -/
def callee3 : Callee := fun meth ctx args s =>
  if meth = "AppNamespace.open_mailbox" then runMethod callee2 AppNamespace_open_mailbox ctx args s
  else callee2 meth ctx args s

@[simp] theorem two_lt_cast (n : Nat) : ((2 : Int) < (n : Int)) ↔ 2 < n := by omega


/-! ### Mailbox -/

theorem touch_eq (c : Callee) (ctx : Ctx) (t : Time) (s : Sys) :
    runMethod c Mailbox_touch ctx [.int t] s = .ok (s.modDb (·.touch ctx.mailbox t)) .none := by
  simp [runMethod, finish, Mailbox_touch, execL, execS, eval, stmtSem, bindInto, fetched, List.lookup]

theorem mailbox_open_eq (ctx : Ctx) (side : String) (t : Time) (s : Sys) :
    runMethod callee1 Mailbox_open ctx [.str side, .int t] s = .ok (s.mailboxOpen ctx.mailbox side t) .none := by
  unfold runMethod
  cases h : s.db.findMbSide ctx.mailbox side <;>
    simp [finish, Mailbox_open, execL, execS, eval, stmtSem, bindInto, fetched, List.lookup, setVar, truthy, optRow,
      h, callee1, calleeCtx, touch_eq, Sys.mailboxOpen, RowV.toRow, MbSide.toRow, Sys.modDb]

theorem add_message_eq (ctx : Ctx) (side : String) (phase body : Val) (t : Time) (id : Val) (s : Sys) :
    runMethod callee1 Mailbox_add_message ctx [.msg side phase body t id] s
      = .ok (s.addMessage ctx.app ctx.mailbox side phase body t id) .none := by
  unfold runMethod
  simp [finish, Mailbox_add_message, execL, execS, eval, stmtSem, bindInto, fetched, List.lookup, callee1, calleeCtx, touch_eq,
    Sys.addMessage, Sys.modDb]

/-! ### AppNamespace -/

def ofAddMailbox (s : Sys) : Option Sys → ExecRes
  | some s1 => .ok s1 .none
  | none => .raised s "IntegrityError"

theorem add_mailbox_eq (c : Callee) (ctx : Ctx) (mb : String) (forNp : Bool) (side : SV) (t : Time) (s : Sys) :
    runMethod c AppNamespace_add_mailbox ctx [.str mb, .bool forNp, side, .int t] s
      = ofAddMailbox s (s.addMailbox ctx.app mb forNp t) := by
  unfold runMethod
  cases h : s.db.findMailbox ctx.app mb <;> cases h2 : s.db.findMailboxById mb <;>
    simp [finish, AppNamespace_add_mailbox, execL, execS, eval, stmtSem, bindInto, fetched, List.lookup, setVar, truthy, optRow,
      h, h2, Sys.addMailbox, RowV.toRow, MailboxRow.toRow, ofAddMailbox]

def ofOpen (mb : String) : Sys × Sys.OpenRes → ExecRes
  | (s, .ok) => .ok s (.str mb)
  | (s, .crowded) => .raised s "CrowdedError"
  | (s, .integrity) => .raised s "IntegrityError"

theorem open_mailbox_eq (ctx : Ctx) (mb side : String) (t : Time) (s : Sys) :
    runMethod callee2 AppNamespace_open_mailbox ctx [.str mb, .str side, .int t] s
      = ofOpen mb (s.openMailbox ctx.app mb side t) := by
  unfold runMethod
  cases h : s.addMailbox ctx.app mb false t with
  | none =>
    simp [finish, AppNamespace_open_mailbox, execL, execS, eval, List.lookup, callee2, callee1, calleeCtx, add_mailbox_eq, h,
      ofAddMailbox, Sys.openMailbox, ofOpen]
  | some s1 =>
    simp [finish, AppNamespace_open_mailbox, execL, execS, eval, stmtSem, bindInto, fetched, List.lookup, setVar, truthy,
      callee2, callee1, calleeCtx, add_mailbox_eq, mailbox_open_eq, h, ofAddMailbox, Sys.openMailbox, ofOpen]
    by_cases hc : 2 < ((s1.mailboxOpen mb side t).commit.db.mbSidesOf mb).length
    · have hc' : (2 : Int) < (((s1.mailboxOpen mb side t).commit.db.mbSidesOf mb).length : Int) := by omega
      simp [finish, hc, hc']
    · have hc' : ¬ (2 : Int) < (((s1.mailboxOpen mb side t).commit.db.mbSidesOf mb).length : Int) := by omega
      simp [finish, hc, hc', List.lookup]

/-! ### claim_nameplate -/

def ofClaim : Sys × Sys.ClaimRes → ExecRes
  | (s, .ok mb) => .ok s (.str mb)
  | (s, .crowded) => .raised s "CrowdedError"
  | (s, .reclaimed) => .raised s "ReclaimedError"
  | (s, .integrity) => .raised s "IntegrityError"

theorem lookup_filter_ne (env : Env) (v w : String) (h : w ≠ v) :
    List.lookup w (env.filter (fun p => p.1 ≠ v)) = List.lookup w env := by
  induction env with
  | nil => rfl
  | cons p rest ih =>
    obtain ⟨k, x⟩ := p
    by_cases hk : k = v
    · subst hk
      have hw : (w == k) = false := by simpa using h
      simpa [List.filter, List.lookup, hw] using ih
    · by_cases hwk : w = k
      · subst hwk; simp [List.filter, hk, List.lookup]
      · have hw : (w == k) = false := by simpa using hwk
        simpa [List.filter, hk, List.lookup, hw] using ih

theorem lookup_setVar_ne (env : Env) (v w : String) (x : SV) (h : w ≠ v) :
    (setVar env v x).lookup w = env.lookup w := by
  have h1 : (w == v) = false := by simpa using h
  simp only [setVar, List.lookup, h1]
  exact lookup_filter_ne env v w h

theorem lookup_setVar_eq (env : Env) (v : String) (x : SV) : (setVar env v x).lookup v = some x := by
  simp [setVar, List.lookup]

/-- the statements of `claim_nameplate` after `npid` and `mailbox_id` are known -/
def claimTailBody : List XS := AppNamespace_claim_nameplate.body.drop 2

theorem claim_tail_eq (ctx : Ctx) (npid : Nat) (mb side : String) (t : Time) (s : Sys) (env : Env)
    (hp : ctx.params = [("name", .str name), ("side", .str side), ("when", .int t)])
    (h1 : env.lookup "npid" = some (.int npid)) (h2 : env.lookup "mailbox_id" = some (.str mb)) :
    finish (execL callee3 ctx claimTailBody ⟨s, env⟩) = ofClaim (s.claimTail ctx.app npid mb side t) := by
  cases hf : s.db.findNpSide npid side with
  | none =>
    simp [claimTailBody, AppNamespace_claim_nameplate, execL, execS, eval, stmtSem, bindInto, fetched, hp, List.lookup,
      h1, h2, lookup_setVar_ne, lookup_setVar_eq, truthy, optRow, hf, Sys.claimTail, callee3, calleeCtx, open_mailbox_eq]
    generalize Sys.openMailbox _ ctx.app mb side t = o
    obtain ⟨s3, r3⟩ := o
    cases r3 <;> simp [ofOpen, ofClaim, finish, lookup_setVar_ne, lookup_setVar_eq, h1, h2, truthy]
    by_cases hc : 2 < (s3.db.npSidesOf npid).length <;> simp [hc, lookup_setVar_ne, lookup_setVar_eq, h2]
  | some r =>
    cases hcl : r.claimed
    · simp [claimTailBody, AppNamespace_claim_nameplate, execL, execS, eval, stmtSem, bindInto, fetched, hp, List.lookup,
        h1, h2, lookup_setVar_ne, lookup_setVar_eq, truthy, optRow, hf, Sys.claimTail, callee3, calleeCtx, open_mailbox_eq,
        rowField, RowV.toRow, NpSide.toRow, Sql.Row.get, SV.ofCell, hcl, finish, ofClaim]
    · simp [claimTailBody, AppNamespace_claim_nameplate, execL, execS, eval, stmtSem, bindInto, fetched, hp, List.lookup,
        h1, h2, lookup_setVar_ne, lookup_setVar_eq, truthy, optRow, hf, Sys.claimTail, callee3, calleeCtx, open_mailbox_eq,
        rowField, RowV.toRow, NpSide.toRow, Sql.Row.get, SV.ofCell, hcl]
      generalize Sys.openMailbox _ ctx.app mb side t = o
      obtain ⟨s3, r3⟩ := o
      cases r3 <;> simp [ofOpen, ofClaim, finish, lookup_setVar_ne, lookup_setVar_eq, h1, h2, truthy]
      by_cases hc : 2 < (s3.db.npSidesOf npid).length <;> simp [hc, lookup_setVar_ne, lookup_setVar_eq, h2]

theorem claim_nameplate_eq (ctx : Ctx) (name side : String) (t : Time) (s : Sys) :
    runMethod callee3 AppNamespace_claim_nameplate ctx [.str name, .str side, .int t] s
      = ofClaim (s.claimNameplate ctx.app name side t ctx.fresh) := by
  unfold runMethod
  have hb : AppNamespace_claim_nameplate.body = AppNamespace_claim_nameplate.body.take 2 ++ claimTailBody :=
    (List.take_append_drop 2 _).symm
  rw [hb]
  cases hf : s.db.findNameplate ctx.app name with
  | none =>
    cases ha : s.addMailbox ctx.app ctx.fresh true t with
    | none =>
      simp [AppNamespace_claim_nameplate, execL, execS, eval, stmtSem, bindInto, fetched, List.lookup, truthy, optRow, hf,
        callee3, callee2, callee1, calleeCtx, add_mailbox_eq, ha, ofAddMailbox, Sys.claimNameplate, ofClaim, finish,
        lookup_setVar_ne, lookup_setVar_eq]
    | some s1 =>
      simp [AppNamespace_claim_nameplate, execL, execS, eval, stmtSem, bindInto, fetched, List.lookup, truthy, optRow, hf,
        callee3, callee2, callee1, calleeCtx, add_mailbox_eq, ha, ofAddMailbox, Sys.claimNameplate,
        lookup_setVar_ne, lookup_setVar_eq]
      exact claim_tail_eq (name := name) _ _ _ _ _ _ _ rfl (by simp [lookup_setVar_ne, lookup_setVar_eq])
        (by simp [lookup_setVar_ne, lookup_setVar_eq])
  | some row =>
    simp [AppNamespace_claim_nameplate, execL, execS, eval, stmtSem, bindInto, fetched, List.lookup, truthy, optRow, hf,
      Sys.claimNameplate, lookup_setVar_ne, lookup_setVar_eq, rowField, RowV.toRow, Nameplate.toRow, Sql.Row.get, SV.ofCell]
    exact claim_tail_eq (name := name) _ _ _ _ _ _ _ rfl (by simp [lookup_setVar_ne, lookup_setVar_eq])
      (by simp [lookup_setVar_ne, lookup_setVar_eq])

/-! ### release_nameplate -/

def ofRelease : Sys × Bool → ExecRes
  | (s, true) => .ok s .none
  | (s, false) => .raised s "IndexError"

@[simp] theorem npSideRows_map (l : List NpSide) : npSideRows (l.map RowV.nps) = l := by
  induction l with
  | nil => rfl
  | cons a as ih => simpa [npSideRows, List.filterMap] using ih

theorem claimed_field (r : NpSide) : truthy (rowField (.nps r) "claimed") = r.claimed := by
  simp [rowField, RowV.toRow, NpSide.toRow, Sql.Row.get, List.lookup, SV.ofCell, truthy]

theorem claims_truthy (l : List NpSide) :
    truthy (.rows ((l.map RowV.nps).filter (fun r => truthy (rowField r "claimed")))) = l.any (·.claimed) := by
  induction l with
  | nil => rfl
  | cons a as ih =>
    have ha := claimed_field a
    cases h : a.claimed
    · simp only [List.map, List.filter, ha, h]; simpa [List.any, h] using ih
    · simp only [List.map, List.filter, ha, h]; simp [truthy, List.any, h]

/-- the statements of `release_nameplate` after the two early returns -/
def releaseTailBody : List XS := AppNamespace_release_nameplate.body.drop 5

theorem release_tail_eq (ctx : Ctx) (np : Nameplate) (side : String) (t : Time) (s : Sys) (env : Env) (r : NpSide)
    (hp : ctx.params = [("name", .str name), ("side", .str side), ("when", .int t)])
    (h1 : env.lookup "npid" = some (.int np.id))
    (hf : s.db.findNameplate ctx.app name = some np) (hs : s.db.findNpSide np.id side = some r) :
    finish (execL callee3 ctx releaseTailBody ⟨s, env⟩) = ofRelease (s.releaseNameplate ctx.app name side t) := by
  simp [releaseTailBody, AppNamespace_release_nameplate, execL, execS, eval, stmtSem, bindInto, fetched, List.lookup, hp,
    h1, hf, hs, Sys.releaseNameplate, lookup_setVar_ne, lookup_setVar_eq, claims_truthy]
  generalize (s.modDb fun x => x.unclaim np.id side).commit = s1
  by_cases hc : ∃ x, x ∈ s1.db.npSidesOf np.id ∧ x.claimed = true
  · simp [hc, finish, ofRelease]
  · simp only [hc, if_false]
    have hcfg : ∀ f, (s1.modDb f).cfg = s1.cfg := fun _ => rfl
    cases hu : s1.cfg.usage
    · simp [lookup_setVar_ne, lookup_setVar_eq, h1, truthy, hu, hcfg, finish, ofRelease, Sys.modDb]
    · simp [lookup_setVar_ne, lookup_setVar_eq, h1, truthy, hu, hcfg, callee3, callee2, callee1,
        callee0, calleeCtx, Sys.modDb]
      generalize Sys.storeNameplateUsage _ ctx.app (s1.db.npSidesOf np.id) t false = o
      obtain ⟨s3, ok⟩ := o
      cases ok <;> simp [finish, ofRelease]

theorem release_nameplate_eq (ctx : Ctx) (name side : String) (t : Time) (s : Sys) :
    runMethod callee3 AppNamespace_release_nameplate ctx [.str name, .str side, .int t] s
      = ofRelease (s.releaseNameplate ctx.app name side t) := by
  unfold runMethod
  have hb : AppNamespace_release_nameplate.body = AppNamespace_release_nameplate.body.take 5 ++ releaseTailBody :=
    (List.take_append_drop 5 _).symm
  rw [hb]
  cases hf : s.db.findNameplate ctx.app name with
  | none =>
    simp [AppNamespace_release_nameplate, execL, execS, eval, stmtSem, bindInto, fetched, List.lookup, truthy, optRow, hf,
      Sys.releaseNameplate, ofRelease, finish, lookup_setVar_ne, lookup_setVar_eq]
  | some np =>
    cases hs : s.db.findNpSide np.id side with
    | none =>
      simp [AppNamespace_release_nameplate, execL, execS, eval, stmtSem, bindInto, fetched, List.lookup, truthy, optRow, hf,
        hs, Sys.releaseNameplate, ofRelease, finish, lookup_setVar_ne, lookup_setVar_eq, rowField, RowV.toRow,
        Nameplate.toRow, Sql.Row.get, SV.ofCell]
    | some r =>
      simp [AppNamespace_release_nameplate, execL, execS, eval, stmtSem, bindInto, fetched, List.lookup, truthy, optRow, hf,
        hs, lookup_setVar_ne, lookup_setVar_eq, rowField, RowV.toRow,
        Nameplate.toRow, NpSide.toRow, Sql.Row.get, SV.ofCell]
      exact release_tail_eq (name := name) _ np _ _ _ _ r rfl (by simp [lookup_setVar_ne, lookup_setVar_eq]) hf hs

/-! ### Mailbox.close -/

def moodSV : Option String → SV
  | none => .none
  | some m => .str m

@[simp] theorem mbSideRows_map (l : List MbSide) : mbSideRows (l.map RowV.mbs) = l := by
  induction l with
  | nil => rfl
  | cons a as ih => simpa [mbSideRows, List.filterMap] using ih

theorem opened_field (r : MbSide) : truthy (rowField (.mbs r) "opened") = r.opened := by
  simp [rowField, RowV.toRow, MbSide.toRow, Sql.Row.get, List.lookup, SV.ofCell, truthy]

theorem opened_any (l : List MbSide) :
    (l.map RowV.mbs).any (fun r => truthy (rowField r "opened")) = l.any (·.opened) := by
  induction l with
  | nil => rfl
  | cons a as ih => simp only [List.map, List.any, opened_field, ih]

/-- the body of the loop over the nameplates that die with the mailbox -/
def npLoopBody : List XS :=
  [.exec (some "np_side_rows") .all "Mailbox_close__select_nameplate_sides_0" [.field (.var "np_row") "id"],
   .call none "AppNamespace._summarize_nameplate_and_store" none [.var "np_side_rows", .param "when", .false_]]

abbrev loopStep (c : Callee) (ctx : Ctx) (body : List XS) (v : String) : Res → RowV → Res :=
  loopStepWith (execL c ctx body) v

theorem foldl_exc (c : Callee) (ctx : Ctx) (body : List XS) (v : String) (l : List RowV) (s : Sys) (cls : String) :
    l.foldl (loopStep c ctx body v) (.exc s cls) = .exc s cls := by
  induction l with
  | nil => rfl
  | cons a as ih => simpa [List.foldl, loopStep, loopStepWith] using ih

theorem np_loop_eq (ctx : Ctx) (t : Time) (hw : ctx.params.lookup "when" = some (.int t)) (l : List Nameplate) :
    ∀ (s : Sys) (env : Env),
      (∃ env', (l.map RowV.np).foldl (loopStep callee0 ctx npLoopBody "np_row") (.normal ⟨s, env⟩)
          = .normal ⟨(s.storeNameplatesOfMailbox ctx.app t l).1, env'⟩ ∧
        (s.storeNameplatesOfMailbox ctx.app t l).2 = true ∧
        ∀ w, w ≠ "np_row" → w ≠ "np_side_rows" → env'.lookup w = env.lookup w) ∨
      ((l.map RowV.np).foldl (loopStep callee0 ctx npLoopBody "np_row") (.normal ⟨s, env⟩)
          = .exc (s.storeNameplatesOfMailbox ctx.app t l).1 "IndexError" ∧
        (s.storeNameplatesOfMailbox ctx.app t l).2 = false) := by
  induction l with
  | nil => intro s env; exact .inl ⟨env, rfl, rfl, fun _ _ _ => rfl⟩
  | cons np rest ih =>
    intro s env
    simp only [List.map, List.foldl, Sys.storeNameplatesOfMailbox]
    rcases ho : s.storeNameplateUsage ctx.app (s.db.npSidesOf np.id) t false with ⟨s1, ok⟩
    cases ok with
    | false =>
      refine .inr ⟨?_, rfl⟩
      have hstep : loopStep callee0 ctx npLoopBody "np_row" (.normal ⟨s, env⟩) (.np np) = .exc s1 "IndexError" := by
        simp [loopStep, loopStepWith, npLoopBody, execL, execS, eval, stmtSem, bindInto, fetched, List.lookup,
          lookup_setVar_ne, lookup_setVar_eq, rowField, RowV.toRow, Nameplate.toRow, Sql.Row.get, SV.ofCell, callee0,
          calleeCtx, hw, ho]
      rw [hstep]
      exact foldl_exc _ _ _ _ _ _ _
    | true =>
      have hstep : loopStep callee0 ctx npLoopBody "np_row" (.normal ⟨s, env⟩) (.np np)
          = .normal ⟨s1, setVar (setVar env "np_row" (.row (.np np))) "np_side_rows"
              (.rows ((s.db.npSidesOf np.id).map .nps))⟩ := by
        simp [loopStep, loopStepWith, npLoopBody, execL, execS, eval, stmtSem, bindInto, fetched, List.lookup, lookup_setVar_ne,
          lookup_setVar_eq, rowField, RowV.toRow, Nameplate.toRow, Sql.Row.get, SV.ofCell, callee0, calleeCtx, hw, ho]
      rw [hstep]
      rcases ih s1 _ with ⟨env', h1, h2, h3⟩ | ⟨h1, h2⟩
      · refine .inl ⟨env', h1, h2, fun w hw1 hw2 => ?_⟩
        rw [h3 w hw1 hw2, lookup_setVar_ne _ _ _ _ hw2, lookup_setVar_ne _ _ _ _ hw1]
      · exact .inr ⟨h1, h2⟩

@[simp] theorem truthy_bool (b : Bool) : truthy (.bool b) = b := rfl

@[simp] theorem res_match_id (r : Res) : (match r with | .normal st' => Res.normal st' | r => r) = r := by
  cases r <;> rfl

theorem execL_append (c : Callee) (ctx : Ctx) (a b : List XS) (st : St) :
    execL c ctx (a ++ b) st = (match execL c ctx a st with
      | .normal st' => execL c ctx b st'
      | r => r) := by
  induction a generalizing st with
  | nil => simp [execL]
  | cons x rest ih =>
    simp only [List.cons_append, execL]
    cases execS c ctx x st <;> simp [ih]

/-- the statements of `Mailbox.close` after the two early returns -/
def closeTailBody : List XS := Mailbox_close.body.drop 5
def closeA : List XS := closeTailBody.take 4
def closeB : XS := .if_ (.selfAttr "_usage_db")
    [.forExec "np_row" "Mailbox_close__select_nameplates_0" [.selfAttr "_app_id", .selfAttr "_mailbox_id"] npLoopBody] []
def closeCD : List XS := closeTailBody.drop 5

theorem closeTailBody_split : closeTailBody = closeA ++ ([closeB] ++ closeCD) := by rfl

/-- stage A: mark the side closed, commit, read the side rows, return if one is still open -/
theorem closeA_eq (ctx : Ctx) (side : String) (mood : Option String) (t : Time) (s : Sys) (env : Env)
    (hp : ctx.params = [("side", .str side), ("mood", moodSV mood), ("when", .int t)]) :
    execL callee0 ctx closeA ⟨s, env⟩ =
      (let s1 := (s.modDb (·.closeSide ctx.mailbox side mood)).commit
       if (s1.db.mbSidesOf ctx.mailbox).any (·.opened) then .ret s1 .none
       else .normal ⟨s1, setVar env "side_rows" (.rows ((s1.db.mbSidesOf ctx.mailbox).map .mbs))⟩) := by
  cases mood <;>
  simp [closeA, closeTailBody, Mailbox_close, execL, execS, eval, stmtSem, bindInto, fetched, List.lookup, hp, moodSV,
    lookup_setVar_ne, lookup_setVar_eq, opened_field, truthy_bool] <;>
  (split <;> first | rfl | (rename_i h; exact h.symm))

/-- stage B: the usage records of the nameplates that die with the mailbox -/
theorem closeB_eq (ctx : Ctx) (t : Time) (hw : ctx.params.lookup "when" = some (.int t)) (s : Sys) (env : Env) :
    (∃ env', execS callee0 ctx closeB ⟨s, env⟩ = .normal ⟨(if s.cfg.usage then
          (s.storeNameplatesOfMailbox ctx.app t (s.db.nameplatesOfMailbox ctx.app ctx.mailbox)) else (s, true)).1, env'⟩ ∧
        (if s.cfg.usage then (s.storeNameplatesOfMailbox ctx.app t (s.db.nameplatesOfMailbox ctx.app ctx.mailbox))
          else (s, true)).2 = true ∧
        ∀ w, w ≠ "np_row" → w ≠ "np_side_rows" → env'.lookup w = env.lookup w) ∨
    (execS callee0 ctx closeB ⟨s, env⟩ = .exc (if s.cfg.usage then
          (s.storeNameplatesOfMailbox ctx.app t (s.db.nameplatesOfMailbox ctx.app ctx.mailbox)) else (s, true)).1 "IndexError" ∧
        (if s.cfg.usage then (s.storeNameplatesOfMailbox ctx.app t (s.db.nameplatesOfMailbox ctx.app ctx.mailbox))
          else (s, true)).2 = false) := by
  cases hu : s.cfg.usage
  · exact .inl ⟨env, by simp [closeB, execS, execL, eval, truthy, hu], rfl, fun _ _ _ => rfl⟩
  · have hl := np_loop_eq ctx t hw (s.db.nameplatesOfMailbox ctx.app ctx.mailbox) s env
    simp only [if_true]
    have he : execS callee0 ctx closeB ⟨s, env⟩ =
        ((s.db.nameplatesOfMailbox ctx.app ctx.mailbox).map RowV.np).foldl (loopStep callee0 ctx npLoopBody "np_row")
          (.normal ⟨s, env⟩) := by
      have hid : ∀ r : Res, (match r with | .normal st' => Res.normal st' | r => r) = r := fun r => by cases r <;> rfl
      simp [closeB, execS, execL, eval, truthy, hu, stmtSem, npLoopBody, loopStep]
      exact hid _
    rw [he]
    exact hl

/-- stages C and D: delete the rows, record the mailbox's usage, commit, stop the listeners -/
theorem closeCD_eq (ctx : Ctx) (t : Time) (hw : ctx.params.lookup "when" = some (.int t)) (s2 : Sys) (env : Env)
    (forNp : Bool) (sideRows : List MbSide)
    (h1 : env.lookup "for_nameplate" = some (.bool forNp))
    (h2 : env.lookup "side_rows" = some (.rows (sideRows.map .mbs))) :
    finish (execL callee0 ctx closeCD ⟨s2, env⟩) =
      .ok (let s3 := s2.modDb (fun d =>
            ((((d.delNpSidesOfMailbox ctx.app ctx.mailbox).delNameplatesOfMailbox ctx.app ctx.mailbox).delMessagesOf
              ctx.mailbox).delMbSidesOf ctx.mailbox).delMailbox ctx.mailbox)
           let s4 := if s3.cfg.usage then (s3.storeMailboxUsage ctx.app forNp sideRows t false).ucommit else s3
           (s4.commit).stopListeners ctx.app ctx.mailbox) .none := by
  have hcfg : ∀ f, (s2.modDb f).cfg = s2.cfg := fun _ => rfl
  cases hu : s2.cfg.usage <;>
  simp [closeCD, closeTailBody, Mailbox_close, execL, execS, eval, stmtSem, bindInto, fetched, List.lookup, hw, h1, h2,
    callee0, calleeCtx, truthy_bool, hu, hcfg, finish, Sys.modDb]

theorem close_tail_eq (ctx : Ctx) (side : String) (mood : Option String) (t : Time) (s : Sys) (env : Env)
    (row : MailboxRow) (r : MbSide)
    (hp : ctx.params = [("side", .str side), ("mood", moodSV mood), ("when", .int t)])
    (h1 : env.lookup "for_nameplate" = some (.bool row.forNp))
    (hf : s.db.findMailbox ctx.app ctx.mailbox = some row) (hs : s.db.findMbSide ctx.mailbox side = some r) :
    finish (execL callee0 ctx closeTailBody ⟨s, env⟩) = ofRelease (s.mailboxClose ctx.app ctx.mailbox side mood t) := by
  have hw : ctx.params.lookup "when" = some (.int t) := by simp [hp, List.lookup]
  rw [closeTailBody_split, execL_append, closeA_eq ctx side mood t s env hp]
  simp only [Sys.mailboxClose, hf, hs]
  generalize (s.modDb fun x => x.closeSide ctx.mailbox side mood).commit = s1
  by_cases hany : (s1.db.mbSidesOf ctx.mailbox).any (·.opened) = true
  · simp [hany, finish, ofRelease]
  · simp only [hany, if_false, Bool.false_eq_true]
    rw [execL_append]
    simp only [execL]
    rcases closeB_eq ctx t hw s1 (setVar env "side_rows" (.rows ((s1.db.mbSidesOf ctx.mailbox).map .mbs)))
      with ⟨env', hB, hok, henv⟩ | ⟨hB, hok⟩
    · rw [hB]
      simp only []
      rw [closeCD_eq ctx t hw _ env' row.forNp (s1.db.mbSidesOf ctx.mailbox)
        (by rw [henv _ (by decide) (by decide), lookup_setVar_ne _ _ _ _ (by decide)]; exact h1)
        (by rw [henv _ (by decide) (by decide), lookup_setVar_eq])]
      generalize (if s1.cfg.usage = true then _ else (s1, true) : Sys × Bool) = o at hok ⊢
      obtain ⟨s2, ok⟩ := o
      simp at hok
      subst hok
      simp [ofRelease]
    · rw [hB]
      generalize (if s1.cfg.usage = true then _ else (s1, true) : Sys × Bool) = o at hok ⊢
      obtain ⟨s2, ok⟩ := o
      simp at hok
      subst hok
      simp [finish, ofRelease]

/-- `Mailbox.close(side, mood, when)` IS `Sys.mailboxClose` -/
theorem mailbox_close_eq (ctx : Ctx) (side : String) (mood : Option String) (t : Time) (s : Sys) :
    runMethod callee0 Mailbox_close ctx [.str side, moodSV mood, .int t] s
      = ofRelease (s.mailboxClose ctx.app ctx.mailbox side mood t) := by
  unfold runMethod
  have hb : Mailbox_close.body = Mailbox_close.body.take 5 ++ closeTailBody := (List.take_append_drop 5 _).symm
  rw [hb]
  cases hf : s.db.findMailbox ctx.app ctx.mailbox with
  | none =>
    simp [Mailbox_close, execL, execS, eval, stmtSem, bindInto, fetched, List.lookup, truthy, optRow, hf,
      Sys.mailboxClose, ofRelease, finish, lookup_setVar_ne, lookup_setVar_eq]
  | some row =>
    cases hs : s.db.findMbSide ctx.mailbox side with
    | none =>
      simp [Mailbox_close, execL, execS, eval, stmtSem, bindInto, fetched, List.lookup, truthy, optRow, hf, hs,
        Sys.mailboxClose, ofRelease, finish, lookup_setVar_ne, lookup_setVar_eq, RowV.toRow, MailboxRow.toRow]
    | some r =>
      simp [Mailbox_close, execL, execS, eval, stmtSem, bindInto, fetched, List.lookup, truthy, optRow, hf, hs,
        lookup_setVar_ne, lookup_setVar_eq, rowField, RowV.toRow, MailboxRow.toRow, MbSide.toRow, Sql.Row.get, SV.ofCell]
      exact close_tail_eq _ side mood t s _ row r rfl (by simp [lookup_setVar_ne, lookup_setVar_eq]) hf hs

/-! ### coverage -/

/-- the translated methods are there, under these names -/
theorem translated_methods :
    ["Mailbox.get_messages", "Mailbox.add_listener", "Mailbox.open", "Mailbox._touch", "Mailbox._add_message",
     "Mailbox.add_message", "Mailbox.close",
     "AppNamespace._summarize_nameplate_and_store", "AppNamespace._summarize_mailbox_and_store", "AppNamespace._add_mailbox",
     "AppNamespace.open_mailbox", "AppNamespace.claim_nameplate", "AppNamespace.release_nameplate",
     "AppNamespace.allocate_nameplate", "AppNamespace.log_client_version", "Server.dump_stats", "Server.get_all_apps", "Server.prune_all_apps",
     "AppNamespace._get_nameplate_ids", "AppNamespace.get_nameplate_ids"].all
      (fun n => (GenSrv.table.lookup n).isSome) = true := by decide

/-- what the translated bodies call: translated methods, the two summary functions (translate_summ.py, Tie/SrvSumm.lean), the two primitives of Tie/SrvTop.lean, or `AppNamespace.prune` (Tie/SrvSweep.lean) -/
theorem calls_resolved : (GenSrv.table.flatMap (fun m => XS.callsL m.2.body)).all
    (fun c => c ∈ GenSrv.table.map (·.1) ∨ c = "AppNamespace._summarize_nameplate_usage"
      ∨ c = "AppNamespace._summarize_mailbox" ∨ c = "AppNamespace._find_available_nameplate_id"
      ∨ c = "Mailbox.broadcast_message" ∨ c = "AppNamespace.prune") = true := by decide

end Wormhole.PySrv
