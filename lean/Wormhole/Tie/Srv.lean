/-
  The model's methods of Core.lean ARE the methods of the current server.py.

  `GeneratedSrv.lean` is regenerated from server.py on every run (harness/translate_srv.py); here, for every argument
  and every state, running the generated body (PySrv.lean) gives exactly what the model's function gives:

    Mailbox._touch              = Chan.touch
    Mailbox.open                = Sys.mailboxOpen
    Mailbox._add_message        = Sys.addMessage
    AppNamespace._add_mailbox   = Sys.addMailbox            (none = IntegrityError)
    AppNamespace.open_mailbox   = Sys.openMailbox           (.crowded = CrowdedError)
    AppNamespace.claim_nameplate   = Sys.claimNameplate     (.reclaimed = ReclaimedError, .crowded = CrowdedError)
    AppNamespace.release_nameplate = Sys.releaseNameplate   (false = IndexError)

  Calls between the methods are resolved through the generated bodies themselves (`callee1` … `callee3`: a method may
  only call methods of a lower layer; a call that leaves the layering would raise "NoSuchMethod" and the equality
  would fail).  Statement names are given their meaning by `PySrv.stmtSem` (tied to the regenerated SQL in
  Tie/SrvStmts.lean).
-/
import Wormhole.GeneratedSrv

set_option linter.unusedSimpArgs false

namespace Wormhole.PySrv
open Wormhole Wormhole.GenSrv

/-- layer 1: methods that call nothing translated -/
def callee1 : Callee := fun meth ctx args s =>
  if meth = "Mailbox._touch" then runMethod callee0 Mailbox_touch ctx args s
  else if meth = "AppNamespace._add_mailbox" then runMethod callee0 AppNamespace_add_mailbox ctx args s
  else callee0 meth ctx args s

/-- layer 2 -/
def callee2 : Callee := fun meth ctx args s =>
  if meth = "Mailbox.open" then runMethod callee1 Mailbox_open ctx args s
  else if meth = "Mailbox._add_message" then runMethod callee1 Mailbox_add_message ctx args s
  else callee1 meth ctx args s

/-- layer 3 -/
def callee3 : Callee := fun meth ctx args s =>
  if meth = "AppNamespace.open_mailbox" then runMethod callee2 AppNamespace_open_mailbox ctx args s
  else callee2 meth ctx args s

@[simp] theorem two_lt_cast (n : Nat) : ((2 : Int) < (n : Int)) ↔ 2 < n := by omega


/-! ### Mailbox -/

theorem touch_eq (c : Callee) (ctx : Ctx) (t : Time) (s : Sys) :
    runMethod c Mailbox_touch ctx [.int t] s = .ok (s.modDb (·.touch ctx.mailbox t)) .none := by
  simp [runMethod, finish, Mailbox_touch, execL, execS, eval, stmtSem, bindInto, fetched, List.lookup]

theorem mailbox_open_eq (ctx : Ctx) (side : String) (t : Time) (s : Sys) :
    runMethod callee1 Mailbox_open ctx [.str side, .int t] s = .ok (s.mailboxOpen ctx.mailbox side t) .none := by
  unfold runMethod
  cases h : s.db.findMbSide ctx.mailbox side <;>
    simp [finish, Mailbox_open, execL, execS, eval, stmtSem, bindInto, fetched, List.lookup, setVar, truthy, optRow,
      h, callee1, calleeCtx, touch_eq, Sys.mailboxOpen, RowV.toRow, MbSide.toRow, Sys.modDb]

theorem add_message_eq (ctx : Ctx) (side : String) (phase body : Val) (t : Time) (id : Val) (s : Sys) :
    runMethod callee1 Mailbox_add_message ctx [.msg side phase body t id] s
      = .ok (s.addMessage ctx.app ctx.mailbox side phase body t id) .none := by
  unfold runMethod
  simp [finish, Mailbox_add_message, execL, execS, eval, stmtSem, bindInto, fetched, List.lookup, callee1, calleeCtx, touch_eq,
    Sys.addMessage, Sys.modDb]

/-! ### AppNamespace -/

def ofAddMailbox (s : Sys) : Option Sys → ExecRes
  | some s1 => .ok s1 .none
  | none => .raised s "IntegrityError"

theorem add_mailbox_eq (c : Callee) (ctx : Ctx) (mb : String) (forNp : Bool) (side : SV) (t : Time) (s : Sys) :
    runMethod c AppNamespace_add_mailbox ctx [.str mb, .bool forNp, side, .int t] s
      = ofAddMailbox s (s.addMailbox ctx.app mb forNp t) := by
  unfold runMethod
  cases h : s.db.findMailbox ctx.app mb <;> cases h2 : s.db.findMailboxById mb <;>
    simp [finish, AppNamespace_add_mailbox, execL, execS, eval, stmtSem, bindInto, fetched, List.lookup, setVar, truthy, optRow,
      h, h2, Sys.addMailbox, RowV.toRow, MailboxRow.toRow, ofAddMailbox]

def ofOpen (mb : String) : Sys × Sys.OpenRes → ExecRes
  | (s, .ok) => .ok s (.str mb)
  | (s, .crowded) => .raised s "CrowdedError"
  | (s, .integrity) => .raised s "IntegrityError"

theorem open_mailbox_eq (ctx : Ctx) (mb side : String) (t : Time) (s : Sys) :
    runMethod callee2 AppNamespace_open_mailbox ctx [.str mb, .str side, .int t] s
      = ofOpen mb (s.openMailbox ctx.app mb side t) := by
  unfold runMethod
  cases h : s.addMailbox ctx.app mb false t with
  | none =>
    simp [finish, AppNamespace_open_mailbox, execL, execS, eval, List.lookup, callee2, callee1, calleeCtx, add_mailbox_eq, h,
      ofAddMailbox, Sys.openMailbox, ofOpen]
  | some s1 =>
    simp [finish, AppNamespace_open_mailbox, execL, execS, eval, stmtSem, bindInto, fetched, List.lookup, setVar, truthy,
      callee2, callee1, calleeCtx, add_mailbox_eq, mailbox_open_eq, h, ofAddMailbox, Sys.openMailbox, ofOpen]
    by_cases hc : 2 < ((s1.mailboxOpen mb side t).commit.db.mbSidesOf mb).length
    · have hc' : (2 : Int) < (((s1.mailboxOpen mb side t).commit.db.mbSidesOf mb).length : Int) := by omega
      simp [finish, hc, hc']
    · have hc' : ¬ (2 : Int) < (((s1.mailboxOpen mb side t).commit.db.mbSidesOf mb).length : Int) := by omega
      simp [finish, hc, hc', List.lookup]

/-! ### claim_nameplate -/

def ofClaim : Sys × Sys.ClaimRes → ExecRes
  | (s, .ok mb) => .ok s (.str mb)
  | (s, .crowded) => .raised s "CrowdedError"
  | (s, .reclaimed) => .raised s "ReclaimedError"
  | (s, .integrity) => .raised s "IntegrityError"

theorem lookup_filter_ne (env : Env) (v w : String) (h : w ≠ v) :
    List.lookup w (env.filter (fun p => p.1 ≠ v)) = List.lookup w env := by
  induction env with
  | nil => rfl
  | cons p rest ih =>
    obtain ⟨k, x⟩ := p
    by_cases hk : k = v
    · subst hk
      have hw : (w == k) = false := by simpa using h
      simpa [List.filter, List.lookup, hw] using ih
    · by_cases hwk : w = k
      · subst hwk; simp [List.filter, hk, List.lookup]
      · have hw : (w == k) = false := by simpa using hwk
        simpa [List.filter, hk, List.lookup, hw] using ih

theorem lookup_setVar_ne (env : Env) (v w : String) (x : SV) (h : w ≠ v) :
    (setVar env v x).lookup w = env.lookup w := by
  have h1 : (w == v) = false := by simpa using h
  simp only [setVar, List.lookup, h1]
  exact lookup_filter_ne env v w h

theorem lookup_setVar_eq (env : Env) (v : String) (x : SV) : (setVar env v x).lookup v = some x := by
  simp [setVar, List.lookup]

/-- the statements of `claim_nameplate` after `npid` and `mailbox_id` are known -/
def claimTailBody : List XS := AppNamespace_claim_nameplate.body.drop 2

theorem claim_tail_eq (ctx : Ctx) (npid : Nat) (mb side : String) (t : Time) (s : Sys) (env : Env)
    (hp : ctx.params = [("name", .str name), ("side", .str side), ("when", .int t)])
    (h1 : env.lookup "npid" = some (.int npid)) (h2 : env.lookup "mailbox_id" = some (.str mb)) :
    finish (execL callee3 ctx claimTailBody ⟨s, env⟩) = ofClaim (s.claimTail ctx.app npid mb side t) := by
  cases hf : s.db.findNpSide npid side with
  | none =>
    simp [claimTailBody, AppNamespace_claim_nameplate, execL, execS, eval, stmtSem, bindInto, fetched, hp, List.lookup,
      h1, h2, lookup_setVar_ne, lookup_setVar_eq, truthy, optRow, hf, Sys.claimTail, callee3, calleeCtx, open_mailbox_eq]
    generalize Sys.openMailbox _ ctx.app mb side t = o
    obtain ⟨s3, r3⟩ := o
    cases r3 <;> simp [ofOpen, ofClaim, finish, lookup_setVar_ne, lookup_setVar_eq, h1, h2, truthy]
    by_cases hc : 2 < (s3.db.npSidesOf npid).length <;> simp [hc, lookup_setVar_ne, lookup_setVar_eq, h2]
  | some r =>
    cases hcl : r.claimed
    · simp [claimTailBody, AppNamespace_claim_nameplate, execL, execS, eval, stmtSem, bindInto, fetched, hp, List.lookup,
        h1, h2, lookup_setVar_ne, lookup_setVar_eq, truthy, optRow, hf, Sys.claimTail, callee3, calleeCtx, open_mailbox_eq,
        rowField, RowV.toRow, NpSide.toRow, Sql.Row.get, SV.ofCell, hcl, finish, ofClaim]
    · simp [claimTailBody, AppNamespace_claim_nameplate, execL, execS, eval, stmtSem, bindInto, fetched, hp, List.lookup,
        h1, h2, lookup_setVar_ne, lookup_setVar_eq, truthy, optRow, hf, Sys.claimTail, callee3, calleeCtx, open_mailbox_eq,
        rowField, RowV.toRow, NpSide.toRow, Sql.Row.get, SV.ofCell, hcl]
      generalize Sys.openMailbox _ ctx.app mb side t = o
      obtain ⟨s3, r3⟩ := o
      cases r3 <;> simp [ofOpen, ofClaim, finish, lookup_setVar_ne, lookup_setVar_eq, h1, h2, truthy]
      by_cases hc : 2 < (s3.db.npSidesOf npid).length <;> simp [hc, lookup_setVar_ne, lookup_setVar_eq, h2]

theorem claim_nameplate_eq (ctx : Ctx) (name side : String) (t : Time) (s : Sys) :
    runMethod callee3 AppNamespace_claim_nameplate ctx [.str name, .str side, .int t] s
      = ofClaim (s.claimNameplate ctx.app name side t ctx.fresh) := by
  unfold runMethod
  have hb : AppNamespace_claim_nameplate.body = AppNamespace_claim_nameplate.body.take 2 ++ claimTailBody :=
    (List.take_append_drop 2 _).symm
  rw [hb]
  cases hf : s.db.findNameplate ctx.app name with
  | none =>
    cases ha : s.addMailbox ctx.app ctx.fresh true t with
    | none =>
      simp [AppNamespace_claim_nameplate, execL, execS, eval, stmtSem, bindInto, fetched, List.lookup, truthy, optRow, hf,
        callee3, callee2, callee1, calleeCtx, add_mailbox_eq, ha, ofAddMailbox, Sys.claimNameplate, ofClaim, finish,
        lookup_setVar_ne, lookup_setVar_eq]
    | some s1 =>
      simp [AppNamespace_claim_nameplate, execL, execS, eval, stmtSem, bindInto, fetched, List.lookup, truthy, optRow, hf,
        callee3, callee2, callee1, calleeCtx, add_mailbox_eq, ha, ofAddMailbox, Sys.claimNameplate,
        lookup_setVar_ne, lookup_setVar_eq]
      exact claim_tail_eq (name := name) _ _ _ _ _ _ _ rfl (by simp [lookup_setVar_ne, lookup_setVar_eq])
        (by simp [lookup_setVar_ne, lookup_setVar_eq])
  | some row =>
    simp [AppNamespace_claim_nameplate, execL, execS, eval, stmtSem, bindInto, fetched, List.lookup, truthy, optRow, hf,
      Sys.claimNameplate, lookup_setVar_ne, lookup_setVar_eq, rowField, RowV.toRow, Nameplate.toRow, Sql.Row.get, SV.ofCell]
    exact claim_tail_eq (name := name) _ _ _ _ _ _ _ rfl (by simp [lookup_setVar_ne, lookup_setVar_eq])
      (by simp [lookup_setVar_ne, lookup_setVar_eq])

/-! ### release_nameplate -/

def ofRelease : Sys × Bool → ExecRes
  | (s, true) => .ok s .none
  | (s, false) => .raised s "IndexError"

@[simp] theorem npSideRows_map (l : List NpSide) : npSideRows (l.map RowV.nps) = l := by
  induction l with
  | nil => rfl
  | cons a as ih => simpa [npSideRows, List.filterMap] using ih

theorem claimed_field (r : NpSide) : truthy (rowField (.nps r) "claimed") = r.claimed := by
  simp [rowField, RowV.toRow, NpSide.toRow, Sql.Row.get, List.lookup, SV.ofCell, truthy]

theorem claims_truthy (l : List NpSide) :
    truthy (.rows ((l.map RowV.nps).filter (fun r => truthy (rowField r "claimed")))) = l.any (·.claimed) := by
  induction l with
  | nil => rfl
  | cons a as ih =>
    have ha := claimed_field a
    cases h : a.claimed
    · simp only [List.map, List.filter, ha, h]; simpa [List.any, h] using ih
    · simp only [List.map, List.filter, ha, h]; simp [truthy, List.any, h]

/-- the statements of `release_nameplate` after the two early returns -/
def releaseTailBody : List XS := AppNamespace_release_nameplate.body.drop 5

theorem release_tail_eq (ctx : Ctx) (np : Nameplate) (side : String) (t : Time) (s : Sys) (env : Env) (r : NpSide)
    (hp : ctx.params = [("name", .str name), ("side", .str side), ("when", .int t)])
    (h1 : env.lookup "npid" = some (.int np.id))
    (hf : s.db.findNameplate ctx.app name = some np) (hs : s.db.findNpSide np.id side = some r) :
    finish (execL callee3 ctx releaseTailBody ⟨s, env⟩) = ofRelease (s.releaseNameplate ctx.app name side t) := by
  simp [releaseTailBody, AppNamespace_release_nameplate, execL, execS, eval, stmtSem, bindInto, fetched, List.lookup, hp,
    h1, hf, hs, Sys.releaseNameplate, lookup_setVar_ne, lookup_setVar_eq, claims_truthy]
  generalize (s.modDb fun x => x.unclaim np.id side).commit = s1
  by_cases hc : ∃ x, x ∈ s1.db.npSidesOf np.id ∧ x.claimed = true
  · simp [hc, finish, ofRelease]
  · simp only [hc, if_false]
    have hcfg : ∀ f, (s1.modDb f).cfg = s1.cfg := fun _ => rfl
    cases hu : s1.cfg.usage
    · simp [lookup_setVar_ne, lookup_setVar_eq, h1, truthy, hu, hcfg, finish, ofRelease, Sys.modDb]
    · simp [lookup_setVar_ne, lookup_setVar_eq, h1, truthy, hu, hcfg, callee3, callee2, callee1,
        callee0, calleeCtx, Sys.modDb]
      generalize Sys.storeNameplateUsage _ ctx.app (s1.db.npSidesOf np.id) t false = o
      obtain ⟨s3, ok⟩ := o
      cases ok <;> simp [finish, ofRelease]

theorem release_nameplate_eq (ctx : Ctx) (name side : String) (t : Time) (s : Sys) :
    runMethod callee3 AppNamespace_release_nameplate ctx [.str name, .str side, .int t] s
      = ofRelease (s.releaseNameplate ctx.app name side t) := by
  unfold runMethod
  have hb : AppNamespace_release_nameplate.body = AppNamespace_release_nameplate.body.take 5 ++ releaseTailBody :=
    (List.take_append_drop 5 _).symm
  rw [hb]
  cases hf : s.db.findNameplate ctx.app name with
  | none =>
    simp [AppNamespace_release_nameplate, execL, execS, eval, stmtSem, bindInto, fetched, List.lookup, truthy, optRow, hf,
      Sys.releaseNameplate, ofRelease, finish, lookup_setVar_ne, lookup_setVar_eq]
  | some np =>
    cases hs : s.db.findNpSide np.id side with
    | none =>
      simp [AppNamespace_release_nameplate, execL, execS, eval, stmtSem, bindInto, fetched, List.lookup, truthy, optRow, hf,
        hs, Sys.releaseNameplate, ofRelease, finish, lookup_setVar_ne, lookup_setVar_eq, rowField, RowV.toRow,
        Nameplate.toRow, Sql.Row.get, SV.ofCell]
    | some r =>
      simp [AppNamespace_release_nameplate, execL, execS, eval, stmtSem, bindInto, fetched, List.lookup, truthy, optRow, hf,
        hs, lookup_setVar_ne, lookup_setVar_eq, rowField, RowV.toRow,
        Nameplate.toRow, NpSide.toRow, Sql.Row.get, SV.ofCell]
      exact release_tail_eq (name := name) _ np _ _ _ _ r rfl (by simp [lookup_setVar_ne, lookup_setVar_eq]) hf hs

/-! ### coverage -/

/-- the seven methods are there, under these names -/
theorem translated_methods : GenSrv.table.map (·.1) =
    ["Mailbox.open", "Mailbox._touch", "Mailbox._add_message", "AppNamespace._add_mailbox", "AppNamespace.open_mailbox",
     "AppNamespace.claim_nameplate", "AppNamespace.release_nameplate"] := by rfl

/-- what the translated bodies call: translated methods, or the one primitive of `callee0` -/
theorem calls_resolved : (GenSrv.table.flatMap (fun m => XS.callsL m.2.body)).all
    (fun c => c ∈ GenSrv.table.map (·.1) ∨ c = "AppNamespace._summarize_nameplate_and_store") = true := by decide

end Wormhole.PySrv
