/-
  server.py `AppNamespace.claim_nameplate`, `_get_nameplate_ids`.
-/
import Wormhole.Tie.Defs

namespace Wormhole.Tie
open Wormhole Wormhole.Sql Wormhole.GenSql

theorem claim_select_nameplate (d : Chan) (app name : String) :
    SelectIs AppNamespace_claim_nameplate__select_nameplates_0 .chan [("self._app_id", .text app), ("name", .text name)] d.tables
      ((d.nameplates.filter (fun r => r.app = app ∧ r.name = name)).map Nameplate.toRow) := by
  tie [AppNamespace_claim_nameplate__select_nameplates_0]

theorem findNameplate_fetchone (d : Chan) (app name : String) :
    ((d.nameplates.filter (fun r => r.app = app ∧ r.name = name)).map Nameplate.toRow).head?
      = (d.findNameplate app name).map Nameplate.toRow := by
  simp [Chan.findNameplate, List.head?_map, List.head?_filter]

/-- the INSERT of the nameplate row is `insNameplate app name mailbox_id`; `lastrowid` is the
    AUTOINCREMENT counter `nextNp`, which the statement advances -/
theorem claim_insert_nameplate (d : Chan) (app name mb : String) :
    ChanWriteIs AppNamespace_claim_nameplate__insert_nameplates_0
      [("self._app_id", .text app), ("name", .text name), ("mailbox_id", .text mb)] d (d.insNameplate app name mb) := by
  tie [AppNamespace_claim_nameplate__insert_nameplates_0, Chan.insNameplate]

theorem claim_select_side (d : Chan) (npid : Nat) (side : String) :
    SelectIs AppNamespace_claim_nameplate__select_nameplate_sides_0 .chan [("npid", .int npid), ("side", .text side)] d.tables
      ((d.npSides.filter (fun r => r.npid = npid ∧ r.side = side)).map NpSide.toRow) := by
  tie [AppNamespace_claim_nameplate__select_nameplate_sides_0]

theorem findNpSide_fetchone (d : Chan) (npid : Nat) (side : String) :
    ((d.npSides.filter (fun r => r.npid = npid ∧ r.side = side)).map NpSide.toRow).head?
      = (d.findNpSide npid side).map NpSide.toRow := by
  simp [Chan.findNpSide, List.head?_map, List.head?_filter]

/-- the INSERT of the side row is `insNpSide ⟨npid, true, side, when⟩` -/
theorem claim_insert_side (d : Chan) (npid : Nat) (side : String) (t : Time) :
    ChanWriteIs AppNamespace_claim_nameplate__insert_nameplate_sides_0
      [("npid", .int npid), ("side", .text side), ("when", .int t)] d (d.insNpSide ⟨npid, true, side, t⟩) := by
  tie [AppNamespace_claim_nameplate__insert_nameplate_sides_0, Chan.insNpSide]

theorem claim_select_sides (d : Chan) (npid : Nat) :
    SelectIs AppNamespace_claim_nameplate__select_nameplate_sides_1 .chan [("npid", .int npid)] d.tables
      ((d.npSidesOf npid).map NpSide.toRow) := by
  tie [AppNamespace_claim_nameplate__select_nameplate_sides_1, Chan.npSidesOf]

/-- `_get_nameplate_ids`: the distinct names of the app's nameplates are `namesOfApp` -/
theorem get_nameplate_ids_select (d : Chan) (app : String) :
    SelectIs AppNamespace__get_nameplate_ids__select_nameplates_0 .chan [("self._app_id", .text app)] d.tables
      ((d.namesOfApp app).map (fun n => [("name", .text n)])) := by
  constructor
  · rfl
  · rfl
  · simp [argsBound, AppNamespace__get_nameplate_ids__select_nameplates_0]
  · tie_simp [AppNamespace__get_nameplate_ids__select_nameplates_0, Chan.namesOfApp]
    rw [← eraseDups_map_inj (fun n : String => ([("name", Cell.text n)] : Row)) (by intro a b h; simpa using h)]
    simp [List.map_map, Function.comp_def]

end Wormhole.Tie
