/-
  The two primitives of PySrv.callee0 - `_summarize_nameplate_and_store`, `_summarize_mailbox_and_store` - are the
  regenerated bodies of those methods of server.py, with the summary functions they call resolved to the regenerated
  functions of GeneratedSumm.lean (translate_summ.py) run by PySum.lean:

      side rows --(generated summary function)--> Usage(…) --(generated INSERT)--> usage row

  is, for every list of side rows, exactly `Sys.storeNameplateUsage` / `Sys.storeMailboxUsage` (IndexError included).
-/
import Wormhole.Tie.Srv
import Wormhole.Tie.Summ

set_option linter.unusedSimpArgs false

namespace Wormhole.PySrv
open Wormhole Wormhole.GenSrv

/-- a fetched side row as the summary functions read it: `row["added"]`, `row["mood"]` -/
def sRow : RowV → PySum.SRow
  | .nps r => ⟨r.added, none⟩
  | .mbs r => ⟨r.added, r.mood⟩
  | _ => ⟨0, none⟩

/-- the summary functions: the regenerated bodies (GeneratedSumm.lean) run on the fetched rows, with the server's
    blur interval; `none` from `PySum.run` = IndexError -/
def calleeSumm : Callee := fun meth _ctx args s =>
  match args with
  | [.rows l, .int dt, .bool pruned] =>
    let body := if meth = "AppNamespace._summarize_nameplate_usage" then some GenSumm.nameplate
      else if meth = "AppNamespace._summarize_mailbox" then some GenSumm.mailbox else none
    (match body with
     | some b => (match PySum.run b ⟨l.map sRow, dt, pruned, s.blurTicks⟩ with
        | some u => .ok s (.usage u)
        | none => .raised s "IndexError")
     | none => .raised s "NoSuchMethod")
  | _ => .raised s "TypeError"

theorem blurTime_eq (s : Sys) : s.blurTime = PySum.blurFn s.blurTicks := by
  funext t
  simp only [Sys.blurTime, PySum.blurFn]
  cases s.blurTicks <;> rfl

theorem blurTicks_ne (s : Sys) : ∀ b, s.blurTicks = some b → b ≠ 0 := by
  intro b h
  unfold Sys.blurTicks at h
  cases hb : s.cfg.blur with
  | none => simp [hb] at h
  | some x =>
    simp only [hb] at h
    by_cases hx : x = 0
    · simp [hx] at h
    · simp only [hx, if_false] at h
      cases h
      simp [Generated.ticksPerSecond, hx]

theorem store_nameplate_eq (ctx : Ctx) (l : List NpSide) (t : Time) (pruned : Bool) (s : Sys) :
    runMethod calleeSumm AppNamespace_summarize_nameplate_and_store ctx [.rows (l.map .nps), .int t, .bool pruned] s
      = callee0 "AppNamespace._summarize_nameplate_and_store" ctx [.rows (l.map .nps), .int t, .bool pruned] s := by
  have h := Tie.nameplate_summary_eq (l.map (fun r => (⟨r.added, none⟩ : PySum.SRow))) t pruned s.blurTicks (blurTicks_ne s)
  simp only [List.map_map, Function.comp_def] at h
  unfold runMethod
  simp [AppNamespace_summarize_nameplate_and_store, execL, execS, eval, List.lookup, calleeSumm, calleeCtx, callee0,
    List.map_map, Function.comp_def, sRow, h, Sys.storeNameplateUsage, blurTime_eq, bindInto, npSideRows_map]
  cases hs : summarizeNameplate (PySum.blurFn s.blurTicks) (l.map (·.added)) t pruned with
  | none => simp [finish, hs]
  | some u =>
    cases hw : u.waiting <;>
    simp [finish, hs, PySum.ofSummary, stmtSem, lookup_setVar_eq, setVar, List.lookup, ofSummV, hw, fetched]

theorem store_mailbox_eq (ctx : Ctx) (forNp : Bool) (l : List MbSide) (t : Time) (pruned : Bool) (s : Sys) :
    runMethod calleeSumm AppNamespace_summarize_mailbox_and_store ctx
        [.bool forNp, .rows (l.map .mbs), .int t, .bool pruned] s
      = callee0 "AppNamespace._summarize_mailbox_and_store" ctx [.bool forNp, .rows (l.map .mbs), .int t, .bool pruned] s := by
  have h := Tie.mailbox_summary_eq l t pruned s.blurTicks (blurTicks_ne s)
  unfold runMethod
  simp [AppNamespace_summarize_mailbox_and_store, execL, execS, eval, List.lookup, calleeSumm, calleeCtx, callee0,
    List.map_map, Function.comp_def, sRow, h, Sys.storeMailboxUsage, blurTime_eq, bindInto, mbSideRows_map]
  cases hw : (summarizeMailbox (PySum.blurFn s.blurTicks) l t pruned).waiting <;>
  simp [finish, PySum.ofSummary, stmtSem, lookup_setVar_eq, setVar, List.lookup, ofSummV, hw, fetched]

/-- the summary functions and the two store methods these theorems are about are the generated ones -/
theorem summ_methods_present :
    (GenSrv.table.lookup "AppNamespace._summarize_nameplate_and_store").isSome ∧
    (GenSrv.table.lookup "AppNamespace._summarize_mailbox_and_store").isSome := by
  simp [GenSrv.table, List.lookup]

end Wormhole.PySrv
