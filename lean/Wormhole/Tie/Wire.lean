/-
  Where the attributes the translated methods read come from (regenerated constructors and construction sites,
  GeneratedWire.lean).  Each statement is about the source of THIS run and is proved by evaluation:

    option / database  --makeService-->  make_server parameter  --make_server-->  Server attribute
                       --Server.get_app-->  AppNamespace attribute  --open_mailbox-->  Mailbox attribute

  so that `self._db` of every Mailbox is the channel database opened from `--channel-db`, `self._usage_db` the usage
  database of `--usage-db`, `self._blur_usage` of every AppNamespace the `--blur-usage` option, `self._allow_list` the
  `--allow-list` option, `self._app_id` / `self._mailbox_id` the ids the object was asked for, and an AppNamespace's
  `_log_requests` the Server's (`blur_usage is None`).  A swapped pair of positional arguments (seed C16n: blur_usage and
  log_requests exchanged in a constructor call) or an option wired to the wrong parameter changes one of these.
-/
import Wormhole.GeneratedWire

namespace Wormhole.Tie
open Wormhole.Wire Wormhole.GenWire

/-- all four construction sites bind their arguments to existing parameters, each once -/
theorem wire_calls_well_formed :
    wellFormed make_server_params call_makeService = true ∧
    wellFormed ctor_Server.params call_make_server = true ∧
    wellFormed ctor_AppNamespace.params call_Server_get_app = true ∧
    wellFormed ctor_Mailbox.params call_AppNamespace_open_mailbox = true := by decide

/-- makeService -> make_server: which option / handle each parameter of `make_server` receives -/
theorem wire_make_server_args :
    bind make_server_params call_makeService =
      [("db", "channel_db"), ("allow_list", "config['allow-list']"), ("advertise_version", "config['advertise-version']"),
       ("signal_error", "config['signal-error']"), ("blur_usage", "config['blur-usage']"), ("usage_db", "usage_db"),
       ("log_file", "log_file"), ("welcome_motd", "config['motd']")] := by decide

/-- the two handles are the databases opened from the two path options -/
theorem wire_databases :
    opens = [("channel_db", "create_or_upgrade_channel_db", ["config['channel-db']"]),
             ("usage_db", "create_or_upgrade_usage_db", ["config['usage-db']"])] := by decide

/-- make_server -> Server: the Server's attributes are make_server's parameters of the same meaning -/
theorem wire_server_attrs :
    (["_db", "_allow_list", "_welcome", "_blur_usage", "_usage_db", "_log_requests"].map
        (fun a => attrSource ctor_Server call_make_server a)) =
      [some "db", some "allow_list", some "welcome", some "blur_usage", some "usage_db", some "blur_usage is None"] := by decide

/-- Server.get_app -> AppNamespace: every attribute of a namespace is the Server's attribute of the same name (and the app id
    asked for) -/
theorem wire_app_attrs :
    (["_db", "_usage_db", "_blur_usage", "_log_requests", "_app_id", "_allow_list"].map
        (fun a => attrSource ctor_AppNamespace call_Server_get_app a)) =
      [some "self._db", some "self._usage_db", some "self._blur_usage", some "self._log_requests", some "app_id",
       some "self._allow_list"] := by decide

/-- AppNamespace.open_mailbox -> Mailbox: the namespace's own databases and app id, the mailbox id asked for -/
theorem wire_mailbox_attrs :
    (["_app", "_db", "_usage_db", "_app_id", "_mailbox_id"].map
        (fun a => attrSource ctor_Mailbox call_AppNamespace_open_mailbox a)) =
      [some "self", some "self._db", some "self._usage_db", some "self._app_id", some "mailbox_id"] := by decide

/-- the options the wiring above reads: listing is allowed unless `--disallow-list`, no blurring / usage database / motd /
    advertised version / error unless given, `--blur-usage` and `--log-fd` are integers -/
theorem wire_option_defaults :
    (["blur-usage", "usage-db", "channel-db", "advertise-version", "signal-error", "motd"].map
        (fun k => optionDefaults.lookup k)) =
      [some "None", some "None", some "'relay.sqlite'", some "None", some "None", some "None"] ∧
    optionSetters.filter (fun s => s.2.1 = "allow-list") =
      [("__init__", "allow-list", "True"), ("opt_disallow_list", "allow-list", "False")] ∧
    optionSetters.filter (fun s => s.2.1 = "blur-usage") = [("opt_blur_usage", "blur-usage", "int(arg)")] := by decide

end Wormhole.Tie
