/-
  The statement table of PySrv.lean (`stmtSem`: statement NAME -> primitive of Store.lean) is justified entry by entry:
  the name is the name of a statement of the regenerated GeneratedSql.lean (`GenSql.all`), the argument count is that
  statement's, and on the positional argument cells the program computed, the meaning (Sql.lean) of the regenerated
  statement is what the table says:
    * a `fetchone()` SELECT: the first row of `execSelect` (or `None`),
    * a `fetchall()` SELECT: the rows of `execSelect`,
    * a write: the target table afterwards is `execWrite …`, every other table is unchanged, the AUTOINCREMENT
      counter moves iff the statement inserts into `nameplates` (and `lastrowid` is the counter before).
  Derived from the by-expression-text theorems of Tie/{MailboxOpen,Messages,Claim,Release}.lean.
  Not covered: constraint failures (PRIMARY KEY of `mailboxes.id`: the IntegrityError branch of the table is the
  model's; finding K-global-mailbox-id, dynamic tie).
-/
import Wormhole.PySrv
import Wormhole.Tie.MailboxOpen
import Wormhole.Tie.Messages
import Wormhole.Tie.Claim
import Wormhole.Tie.Release
import Wormhole.Tie.MailboxClose
import Wormhole.Tie.UsageSql
import Wormhole.Tie.Prune

set_option linter.unusedSimpArgs false

namespace Wormhole.Tie
open Wormhole Wormhole.Sql Wormhole.GenSql Wormhole.PySrv

def rowOf : SV → Option Row
  | .row r => some r.toRow
  | _ => none

structure EntryOne (name : String) (st : Stmt) (args : List SV) (s : Sys) : Prop where
  named : GenSql.all.lookup name = some st
  nargs : st.args.length = args.length
  sem : ∃ v, stmtSem s name args = .ok s v ∧ rowOf v = (execSelect st (args.map SV.toCell) s.db.tables).head?

structure EntryAll (name : String) (st : Stmt) (args : List SV) (s : Sys) : Prop where
  named : GenSql.all.lookup name = some st
  nargs : st.args.length = args.length
  sem : ∃ l, stmtSem s name args = .ok s (.rows l) ∧ l.map RowV.toRow = execSelect st (args.map SV.toCell) s.db.tables

/-- `ChanWriteIs` on positional cells -/
structure ChanWritePos (st : Stmt) (ps : List Cell) (d d' : Chan) : Prop where
  isWrite : st.kind ≠ .select
  onDb : st.db = .chan
  nameplates : d'.tables "nameplates" = chanAfter st ps d "nameplates"
  npSides : d'.tables "nameplate_sides" = chanAfter st ps d "nameplate_sides"
  mailboxes : d'.tables "mailboxes" = chanAfter st ps d "mailboxes"
  mbSides : d'.tables "mailbox_sides" = chanAfter st ps d "mailbox_sides"
  messages : d'.tables "messages" = chanAfter st ps d "messages"
  seq : d'.nextNp = d.nextNp + (if st.kind = .insert ∧ st.table = "nameplates" then 1 else 0)

theorem ChanWriteIs.pos {st : Stmt} {env : List (String × Cell)} {d d' : Chan} (h : ChanWriteIs st env d d')
    {ps : List Cell} (hb : bindArgs st env = ps) : ChanWritePos st ps d d' := by
  subst hb
  exact ⟨h.isWrite, h.onDb, h.nameplates, h.npSides, h.mailboxes, h.mbSides, h.messages, h.seq⟩

structure EntryWrite (name : String) (st : Stmt) (args : List SV) (s : Sys) : Prop where
  named : GenSql.all.lookup name = some st
  nargs : st.args.length = args.length
  sem : ∃ d' v, stmtSem s name args = .ok { s with db := d' } v ∧ ChanWritePos st (args.map SV.toCell) s.db d'

/-! ### Mailbox.open / _touch -/

theorem e_open_select (s : Sys) (mb side : String) :
    EntryOne "Mailbox_open__select_mailbox_sides_0" Mailbox_open__select_mailbox_sides_0 [.str mb, .str side] s := by
  refine ⟨by simp [GenSql.all, List.lookup], rfl, optRow .mbs (s.db.findMbSide mb side), by simp [stmtSem], ?_⟩
  have h := (Mailbox_open_select s.db mb side).result
  have hb : bindArgs Mailbox_open__select_mailbox_sides_0 [("self._mailbox_id", .text mb), ("side", .text side)]
      = [.text mb, .text side] := by simp [bindArgs, evalArg, Mailbox_open__select_mailbox_sides_0, List.lookup]
  rw [hb] at h
  simp only [List.map, SV.toCell, h, findMbSide_fetchone]
  cases s.db.findMbSide mb side <;> rfl

theorem e_open_insert (s : Sys) (mb side : String) (t : Time) :
    EntryWrite "Mailbox_open__insert_mailbox_sides_0" Mailbox_open__insert_mailbox_sides_0
      [.str mb, .bool true, .str side, .int t] s := by
  refine ⟨by simp [GenSql.all, List.lookup], rfl, s.db.insMbSide ⟨mb, true, side, t, none⟩, .none,
    by simp [stmtSem, Sys.modDb], ?_⟩
  exact (Mailbox_open_insert s.db mb side t).pos
    (by simp [bindArgs, evalArg, Mailbox_open__insert_mailbox_sides_0, List.lookup, SV.toCell])

theorem e_touch_update (s : Sys) (mb : String) (t : Time) :
    EntryWrite "Mailbox__touch__update_mailboxes_0" Mailbox__touch__update_mailboxes_0 [.int t, .str mb] s := by
  refine ⟨by simp [GenSql.all, List.lookup], rfl, (s.db.touch mb t), .none, by simp [stmtSem, Sys.modDb], ?_⟩
  exact (Mailbox_touch_update s.db mb t).pos
    (by simp [bindArgs, evalArg, Mailbox__touch__update_mailboxes_0, List.lookup, SV.toCell])

theorem e_add_message_insert (s : Sys) (app mb side : String) (phase body id : Val) (t : Time) :
    EntryWrite "Mailbox__add_message__insert_messages_0" Mailbox__add_message__insert_messages_0 [.str app, .str mb, .str side, .val phase, .val body, .int t, .val id] s := by
  refine ⟨by simp [GenSql.all, List.lookup], rfl, (s.db.insMessage ⟨app, mb, side, phase.toText, body.toText, t, id.toText⟩), .none, by simp [stmtSem, Sys.modDb], ?_⟩
  exact (add_message_insert s.db app mb side phase body id t).pos
    (by simp [bindArgs, evalArg, Mailbox__add_message__insert_messages_0, List.lookup, SV.toCell])

/-! ### _add_mailbox / open_mailbox -/

theorem e_add_mailbox_select (s : Sys) (app mb : String) :
    EntryOne "AppNamespace__add_mailbox__select_mailboxes_0" AppNamespace__add_mailbox__select_mailboxes_0 [.str app, .str mb] s := by
  refine ⟨by simp [GenSql.all, List.lookup], rfl, (optRow .mb (s.db.findMailbox app mb)), by simp [stmtSem], ?_⟩
  have h := (add_mailbox_select s.db app mb).result
  have hb : bindArgs AppNamespace__add_mailbox__select_mailboxes_0 [("self._app_id", .text app), ("mailbox_id", .text mb)] = [.text app, .text mb] := by
    simp [bindArgs, evalArg, AppNamespace__add_mailbox__select_mailboxes_0, List.lookup]
  rw [hb] at h
  simp only [List.map, SV.toCell, h, findMailbox_fetchone, asNat_natCast]
  cases s.db.findMailbox app mb <;> rfl

theorem e_open_mailbox_select (s : Sys) (mb : String) :
    EntryAll "AppNamespace_open_mailbox__select_mailbox_sides_0" AppNamespace_open_mailbox__select_mailbox_sides_0 [.str mb] s := by
  refine ⟨by simp [GenSql.all, List.lookup], rfl, ((s.db.mbSidesOf mb).map .mbs), by simp [stmtSem], ?_⟩
  have h := (open_mailbox_select s.db mb).result
  have hb : bindArgs AppNamespace_open_mailbox__select_mailbox_sides_0 [("mailbox_id", .text mb)] = [.text mb] := by
    simp [bindArgs, evalArg, AppNamespace_open_mailbox__select_mailbox_sides_0, List.lookup]
  rw [hb] at h
  simp only [List.map, SV.toCell, h, List.map_map]
  congr 1

/-- the INSERT of `_add_mailbox`, when no mailbox has that id (otherwise SQLite refuses: PRIMARY KEY) -/
theorem e_add_mailbox_insert (s : Sys) (app mb : String) (forNp : Bool) (t : Time) (hfree : s.db.findMailboxById mb = none) :
    EntryWrite "AppNamespace__add_mailbox__insert_mailboxes_0" AppNamespace__add_mailbox__insert_mailboxes_0
      [.str app, .str mb, .bool forNp, .int t] s := by
  refine ⟨by simp [GenSql.all, List.lookup], rfl, s.db.insMailbox ⟨app, mb, t, forNp⟩, .none,
    by simp [stmtSem, Sys.modDb, hfree], ?_⟩
  exact (add_mailbox_insert s.db app mb forNp t).pos
    (by simp [bindArgs, evalArg, AppNamespace__add_mailbox__insert_mailboxes_0, List.lookup, SV.toCell])

/-! ### claim_nameplate -/

theorem e_claim_select (s : Sys) (app name : String) :
    EntryOne "AppNamespace_claim_nameplate__select_nameplates_0" AppNamespace_claim_nameplate__select_nameplates_0 [.str app, .str name] s := by
  refine ⟨by simp [GenSql.all, List.lookup], rfl, (optRow .np (s.db.findNameplate app name)), by simp [stmtSem], ?_⟩
  have h := (claim_select_nameplate s.db app name).result
  have hb : bindArgs AppNamespace_claim_nameplate__select_nameplates_0 [("self._app_id", .text app), ("name", .text name)] = [.text app, .text name] := by
    simp [bindArgs, evalArg, AppNamespace_claim_nameplate__select_nameplates_0, List.lookup]
  rw [hb] at h
  simp only [List.map, SV.toCell, h, findNameplate_fetchone, asNat_natCast]
  cases s.db.findNameplate app name <;> rfl

theorem e_claim_insert (s : Sys) (app name mb : String) :
    EntryWrite "AppNamespace_claim_nameplate__insert_nameplates_0" AppNamespace_claim_nameplate__insert_nameplates_0 [.str app, .str name, .str mb] s := by
  refine ⟨by simp [GenSql.all, List.lookup], rfl, (s.db.insNameplate app name mb), (.int s.db.nextNp), by simp [stmtSem, Sys.modDb], ?_⟩
  exact (claim_insert_nameplate s.db app name mb).pos
    (by simp [bindArgs, evalArg, AppNamespace_claim_nameplate__insert_nameplates_0, List.lookup, SV.toCell])

theorem e_claim_select_side (s : Sys) (npid : Nat) (side : String) :
    EntryOne "AppNamespace_claim_nameplate__select_nameplate_sides_0" AppNamespace_claim_nameplate__select_nameplate_sides_0 [.int npid, .str side] s := by
  refine ⟨by simp [GenSql.all, List.lookup], rfl, (optRow .nps (s.db.findNpSide npid side)), by simp [stmtSem], ?_⟩
  have h := (claim_select_side s.db npid side).result
  have hb : bindArgs AppNamespace_claim_nameplate__select_nameplate_sides_0 [("npid", .int npid), ("side", .text side)] = [.int npid, .text side] := by
    simp [bindArgs, evalArg, AppNamespace_claim_nameplate__select_nameplate_sides_0, List.lookup]
  rw [hb] at h
  simp only [List.map, SV.toCell, h, findNpSide_fetchone, asNat_natCast]
  cases s.db.findNpSide npid side <;> rfl

theorem e_claim_insert_side (s : Sys) (npid : Nat) (side : String) (t : Time) :
    EntryWrite "AppNamespace_claim_nameplate__insert_nameplate_sides_0" AppNamespace_claim_nameplate__insert_nameplate_sides_0 [.int npid, .bool true, .str side, .int t] s := by
  refine ⟨by simp [GenSql.all, List.lookup], rfl, (s.db.insNpSide ⟨npid, true, side, t⟩), .none, by simp [stmtSem, Sys.modDb], ?_⟩
  exact (claim_insert_side s.db npid side t).pos
    (by simp [bindArgs, evalArg, AppNamespace_claim_nameplate__insert_nameplate_sides_0, List.lookup, SV.toCell])

theorem e_claim_select_sides (s : Sys) (npid : Nat) :
    EntryAll "AppNamespace_claim_nameplate__select_nameplate_sides_1" AppNamespace_claim_nameplate__select_nameplate_sides_1 [.int npid] s := by
  refine ⟨by simp [GenSql.all, List.lookup], rfl, ((s.db.npSidesOf npid).map .nps), by simp [stmtSem], ?_⟩
  have h := (claim_select_sides s.db npid).result
  have hb : bindArgs AppNamespace_claim_nameplate__select_nameplate_sides_1 [("npid", .int npid)] = [.int npid] := by
    simp [bindArgs, evalArg, AppNamespace_claim_nameplate__select_nameplate_sides_1, List.lookup]
  rw [hb] at h
  simp only [List.map, SV.toCell, h, List.map_map]
  congr 1

/-! ### release_nameplate -/

theorem e_release_select (s : Sys) (app name : String) :
    EntryOne "AppNamespace_release_nameplate__select_nameplates_0" AppNamespace_release_nameplate__select_nameplates_0 [.str app, .str name] s := by
  refine ⟨by simp [GenSql.all, List.lookup], rfl, (optRow .np (s.db.findNameplate app name)), by simp [stmtSem], ?_⟩
  have h := (release_select_nameplate s.db app name).result
  have hb : bindArgs AppNamespace_release_nameplate__select_nameplates_0 [("self._app_id", .text app), ("name", .text name)] = [.text app, .text name] := by
    simp [bindArgs, evalArg, AppNamespace_release_nameplate__select_nameplates_0, List.lookup]
  rw [hb] at h
  simp only [List.map, SV.toCell, h, findNameplate_fetchone, asNat_natCast]
  cases s.db.findNameplate app name <;> rfl

theorem e_release_select_side (s : Sys) (npid : Nat) (side : String) :
    EntryOne "AppNamespace_release_nameplate__select_nameplate_sides_0" AppNamespace_release_nameplate__select_nameplate_sides_0 [.int npid, .str side] s := by
  refine ⟨by simp [GenSql.all, List.lookup], rfl, (optRow .nps (s.db.findNpSide npid side)), by simp [stmtSem], ?_⟩
  have h := (release_select_side s.db npid side).result
  have hb : bindArgs AppNamespace_release_nameplate__select_nameplate_sides_0 [("npid", .int npid), ("side", .text side)] = [.int npid, .text side] := by
    simp [bindArgs, evalArg, AppNamespace_release_nameplate__select_nameplate_sides_0, List.lookup]
  rw [hb] at h
  simp only [List.map, SV.toCell, h, findNpSide_fetchone, asNat_natCast]
  cases s.db.findNpSide npid side <;> rfl

theorem e_release_update (s : Sys) (npid : Nat) (side : String) :
    EntryWrite "AppNamespace_release_nameplate__update_nameplate_sides_0" AppNamespace_release_nameplate__update_nameplate_sides_0 [.bool false, .int npid, .str side] s := by
  refine ⟨by simp [GenSql.all, List.lookup], rfl, (s.db.unclaim npid side), .none, by simp [stmtSem, Sys.modDb], ?_⟩
  exact (release_update_side s.db npid side).pos
    (by simp [bindArgs, evalArg, AppNamespace_release_nameplate__update_nameplate_sides_0, List.lookup, SV.toCell])

theorem e_release_select_sides (s : Sys) (npid : Nat) :
    EntryAll "AppNamespace_release_nameplate__select_nameplate_sides_1" AppNamespace_release_nameplate__select_nameplate_sides_1 [.int npid] s := by
  refine ⟨by simp [GenSql.all, List.lookup], rfl, ((s.db.npSidesOf npid).map .nps), by simp [stmtSem], ?_⟩
  have h := (release_select_sides s.db npid).result
  have hb : bindArgs AppNamespace_release_nameplate__select_nameplate_sides_1 [("npid", .int npid)] = [.int npid] := by
    simp [bindArgs, evalArg, AppNamespace_release_nameplate__select_nameplate_sides_1, List.lookup]
  rw [hb] at h
  simp only [List.map, SV.toCell, h, List.map_map]
  congr 1

theorem e_release_delete_sides (s : Sys) (npid : Nat) :
    EntryWrite "AppNamespace_release_nameplate__delete_nameplate_sides_0" AppNamespace_release_nameplate__delete_nameplate_sides_0 [.int npid] s := by
  refine ⟨by simp [GenSql.all, List.lookup], rfl, (s.db.delNpSidesOf npid), .none, by simp [stmtSem, Sys.modDb], ?_⟩
  exact (release_delete_sides s.db npid).pos
    (by simp [bindArgs, evalArg, AppNamespace_release_nameplate__delete_nameplate_sides_0, List.lookup, SV.toCell])

theorem e_release_delete (s : Sys) (npid : Nat) :
    EntryWrite "AppNamespace_release_nameplate__delete_nameplates_0" AppNamespace_release_nameplate__delete_nameplates_0 [.int npid] s := by
  refine ⟨by simp [GenSql.all, List.lookup], rfl, (s.db.delNameplate npid), .none, by simp [stmtSem, Sys.modDb], ?_⟩
  exact (release_delete_nameplate s.db npid).pos
    (by simp [bindArgs, evalArg, AppNamespace_release_nameplate__delete_nameplates_0, List.lookup, SV.toCell])

/-! ### Mailbox.close -/

theorem e_close_select (s : Sys) (app mb : String) :
    EntryOne "Mailbox_close__select_mailboxes_0" Mailbox_close__select_mailboxes_0 [.str app, .str mb] s := by
  refine ⟨by simp [GenSql.all, List.lookup], rfl, (optRow .mb (s.db.findMailbox app mb)), by simp [stmtSem], ?_⟩
  have h := (close_select_mailbox s.db app mb).result
  have hb : bindArgs Mailbox_close__select_mailboxes_0 [("self._app_id", .text app), ("self._mailbox_id", .text mb)] = [.text app, .text mb] := by
    simp [bindArgs, evalArg, Mailbox_close__select_mailboxes_0, List.lookup]
  rw [hb] at h
  simp only [List.map, SV.toCell, h, findMailbox_fetchone, asNat_natCast]
  cases s.db.findMailbox app mb <;> rfl

theorem e_close_select_side (s : Sys) (mb side : String) :
    EntryOne "Mailbox_close__select_mailbox_sides_0" Mailbox_close__select_mailbox_sides_0 [.str mb, .str side] s := by
  refine ⟨by simp [GenSql.all, List.lookup], rfl, (optRow .mbs (s.db.findMbSide mb side)), by simp [stmtSem], ?_⟩
  have h := (close_select_side s.db mb side).result
  have hb : bindArgs Mailbox_close__select_mailbox_sides_0 [("self._mailbox_id", .text mb), ("side", .text side)] = [.text mb, .text side] := by
    simp [bindArgs, evalArg, Mailbox_close__select_mailbox_sides_0, List.lookup]
  rw [hb] at h
  simp only [List.map, SV.toCell, h, findMbSide_fetchone, asNat_natCast]
  cases s.db.findMbSide mb side <;> rfl

theorem e_close_update_none (s : Sys) (mb side : String) :
    EntryWrite "Mailbox_close__update_mailbox_sides_0" Mailbox_close__update_mailbox_sides_0 [.bool false, .none, .str mb, .str side] s := by
  refine ⟨by simp [GenSql.all, List.lookup], rfl, (s.db.closeSide mb side none), .none, by simp [stmtSem, Sys.modDb, ofOptStr], ?_⟩
  exact (close_update_side s.db mb side none).pos
    (by simp [bindArgs, evalArg, Mailbox_close__update_mailbox_sides_0, List.lookup, SV.toCell, ofOptStr])

theorem e_close_update_some (s : Sys) (mb side mood : String) :
    EntryWrite "Mailbox_close__update_mailbox_sides_0" Mailbox_close__update_mailbox_sides_0 [.bool false, .str mood, .str mb, .str side] s := by
  refine ⟨by simp [GenSql.all, List.lookup], rfl, (s.db.closeSide mb side (some mood)), .none, by simp [stmtSem, Sys.modDb, ofOptStr], ?_⟩
  exact (close_update_side s.db mb side (some mood)).pos
    (by simp [bindArgs, evalArg, Mailbox_close__update_mailbox_sides_0, List.lookup, SV.toCell, ofOptStr])

theorem e_close_select_sides (s : Sys) (mb : String) :
    EntryAll "Mailbox_close__select_mailbox_sides_1" Mailbox_close__select_mailbox_sides_1 [.str mb] s := by
  refine ⟨by simp [GenSql.all, List.lookup], rfl, ((s.db.mbSidesOf mb).map .mbs), by simp [stmtSem], ?_⟩
  have h := (close_select_sides s.db mb).result
  have hb : bindArgs Mailbox_close__select_mailbox_sides_1 [("self._mailbox_id", .text mb)] = [.text mb] := by
    simp [bindArgs, evalArg, Mailbox_close__select_mailbox_sides_1, List.lookup]
  rw [hb] at h
  simp only [List.map, SV.toCell, h, List.map_map]
  congr 1

theorem e_close_select_nameplates (s : Sys) (app mb : String) :
    EntryAll "Mailbox_close__select_nameplates_0" Mailbox_close__select_nameplates_0 [.str app, .str mb] s := by
  refine ⟨by simp [GenSql.all, List.lookup], rfl, ((s.db.nameplatesOfMailbox app mb).map .np), by simp [stmtSem], ?_⟩
  have h := (close_select_nameplates s.db app mb).result
  have hb : bindArgs Mailbox_close__select_nameplates_0 [("self._app_id", .text app), ("self._mailbox_id", .text mb)] = [.text app, .text mb] := by
    simp [bindArgs, evalArg, Mailbox_close__select_nameplates_0, List.lookup]
  rw [hb] at h
  simp only [List.map, SV.toCell, h, List.map_map]
  congr 1

theorem e_close_select_nameplate_sides (s : Sys) (npid : Nat) :
    EntryAll "Mailbox_close__select_nameplate_sides_0" Mailbox_close__select_nameplate_sides_0 [.int npid] s := by
  refine ⟨by simp [GenSql.all, List.lookup], rfl, ((s.db.npSidesOf npid).map .nps), by simp [stmtSem], ?_⟩
  have h := (close_select_nameplate_sides s.db npid).result
  have hb : bindArgs Mailbox_close__select_nameplate_sides_0 [("np_row['id']", .int npid)] = [.int npid] := by
    simp [bindArgs, evalArg, Mailbox_close__select_nameplate_sides_0, List.lookup]
  rw [hb] at h
  simp only [List.map, SV.toCell, h, List.map_map]
  congr 1

theorem e_close_delete_nameplate_sides (s : Sys) (app mb : String) :
    EntryWrite "Mailbox_close__delete_nameplate_sides_0" Mailbox_close__delete_nameplate_sides_0 [.str app, .str mb] s := by
  refine ⟨by simp [GenSql.all, List.lookup], rfl, (s.db.delNpSidesOfMailbox app mb), .none, by simp [stmtSem, Sys.modDb], ?_⟩
  exact (close_delete_nameplate_sides s.db app mb).pos
    (by simp [bindArgs, evalArg, Mailbox_close__delete_nameplate_sides_0, List.lookup, SV.toCell])

theorem e_close_delete_nameplates (s : Sys) (app mb : String) :
    EntryWrite "Mailbox_close__delete_nameplates_0" Mailbox_close__delete_nameplates_0 [.str app, .str mb] s := by
  refine ⟨by simp [GenSql.all, List.lookup], rfl, (s.db.delNameplatesOfMailbox app mb), .none, by simp [stmtSem, Sys.modDb], ?_⟩
  exact (close_delete_nameplates s.db app mb).pos
    (by simp [bindArgs, evalArg, Mailbox_close__delete_nameplates_0, List.lookup, SV.toCell])

theorem e_close_delete_messages (s : Sys) (mb : String) :
    EntryWrite "Mailbox_close__delete_messages_0" Mailbox_close__delete_messages_0 [.str mb] s := by
  refine ⟨by simp [GenSql.all, List.lookup], rfl, (s.db.delMessagesOf mb), .none, by simp [stmtSem, Sys.modDb], ?_⟩
  exact (close_delete_messages s.db mb).pos
    (by simp [bindArgs, evalArg, Mailbox_close__delete_messages_0, List.lookup, SV.toCell])

theorem e_close_delete_mailbox_sides (s : Sys) (mb : String) :
    EntryWrite "Mailbox_close__delete_mailbox_sides_0" Mailbox_close__delete_mailbox_sides_0 [.str mb] s := by
  refine ⟨by simp [GenSql.all, List.lookup], rfl, (s.db.delMbSidesOf mb), .none, by simp [stmtSem, Sys.modDb], ?_⟩
  exact (close_delete_mailbox_sides s.db mb).pos
    (by simp [bindArgs, evalArg, Mailbox_close__delete_mailbox_sides_0, List.lookup, SV.toCell])

theorem e_close_delete_mailbox (s : Sys) (mb : String) :
    EntryWrite "Mailbox_close__delete_mailboxes_0" Mailbox_close__delete_mailboxes_0 [.str mb] s := by
  refine ⟨by simp [GenSql.all, List.lookup], rfl, (s.db.delMailbox mb), .none, by simp [stmtSem, Sys.modDb], ?_⟩
  exact (close_delete_mailbox s.db mb).pos
    (by simp [bindArgs, evalArg, Mailbox_close__delete_mailboxes_0, List.lookup, SV.toCell])

/-! ### the usage database -/

/-- `UsageWriteIs` on positional cells -/
structure UsageWritePos (st : Stmt) (ps : List Cell) (u u' : Usage) : Prop where
  isWrite : st.kind ≠ .select
  onDb : st.db = .usage
  nameplates : u'.tables "nameplates" = usageAfter st ps u "nameplates"
  mailboxes : u'.tables "mailboxes" = usageAfter st ps u "mailboxes"
  current : u'.tables "current" = usageAfter st ps u "current"
  clients : u'.tables "client_versions" = usageAfter st ps u "client_versions"

theorem UsageWriteIs.pos {st : Stmt} {env : List (String × Cell)} {u u' : Usage} (h : UsageWriteIs st env u u')
    {ps : List Cell} (hb : bindArgs st env = ps) : UsageWritePos st ps u u' := by
  subst hb
  exact ⟨h.isWrite, h.onDb, h.nameplates, h.mailboxes, h.current, h.clients⟩

structure EntryUWrite (name : String) (st : Stmt) (args : List SV) (s : Sys) : Prop where
  named : GenSql.all.lookup name = some st
  nargs : st.args.length = args.length
  sem : ∃ u', stmtSem s name args = .ok { s with udb := u' } .none ∧ UsageWritePos st (args.map SV.toCell) s.udb u'

def waitSV : Option Time → SV
  | none => .none
  | some w => .int w

theorem e_store_nameplate (s : Sys) (app : String) (started total : Time) (waiting : Option Time) (result : String) :
    EntryUWrite "AppNamespace__summarize_nameplate_and_store__insert_nameplates_0"
      AppNamespace__summarize_nameplate_and_store__insert_nameplates_0
      [.str app, .int started, .int total, waitSV waiting, .str result] s := by
  refine ⟨by simp [GenSql.all, List.lookup], rfl,
    { s.udb with nameplates := s.udb.nameplates ++ [⟨app, started, waiting, total, result⟩] },
    by cases waiting <;> simp [stmtSem, Sys.modUdb, waitSV], ?_⟩
  exact (store_nameplate_usage_insert s.udb app started waiting total result).pos
    (by cases waiting <;>
        simp [bindArgs, evalArg, AppNamespace__summarize_nameplate_and_store__insert_nameplates_0, List.lookup, SV.toCell,
          waitSV, ofOptTime])

theorem e_store_mailbox (s : Sys) (app : String) (forNp : Bool) (started total : Time) (waiting : Option Time)
    (result : String) :
    EntryUWrite "AppNamespace__summarize_mailbox_and_store__insert_mailboxes_0"
      AppNamespace__summarize_mailbox_and_store__insert_mailboxes_0
      [.str app, .bool forNp, .int started, .int total, waitSV waiting, .str result] s := by
  refine ⟨by simp [GenSql.all, List.lookup], rfl,
    { s.udb with mailboxes := s.udb.mailboxes ++ [⟨app, forNp, started, total, waiting, result⟩] },
    by cases waiting <;> simp [stmtSem, Sys.modUdb, waitSV], ?_⟩
  exact (store_mailbox_usage_insert s.udb app forNp started total waiting result).pos
    (by cases waiting <;>
        simp [bindArgs, evalArg, AppNamespace__summarize_mailbox_and_store__insert_mailboxes_0, List.lookup, SV.toCell,
          waitSV, ofOptTime])

theorem e_log_client_version (s : Sys) (app side : String) (t : Time) (impl version : Option String) :
    EntryUWrite "AppNamespace_log_client_version__insert_client_versions_0"
      AppNamespace_log_client_version__insert_client_versions_0
      [.str app, .str side, .int t, optStrSV impl, optStrSV version] s := by
  refine ⟨by simp [GenSql.all, List.lookup], rfl,
    { s.udb with clients := s.udb.clients ++ [⟨app, side, t, impl, version⟩] },
    by simp [stmtSem, logClientStmt, Sys.modUdb], ?_⟩
  exact (log_client_version_insert s.udb app side t impl version).pos
    (by cases impl <;> cases version <;>
        simp [bindArgs, evalArg, AppNamespace_log_client_version__insert_client_versions_0, List.lookup, SV.toCell,
          optStrSV, ofOptStr])

theorem e_get_messages (s : Sys) (app mb : String) :
    EntryAll "Mailbox_get_messages__select_messages_0" Mailbox_get_messages__select_messages_0 [.str app, .str mb] s := by
  refine ⟨by simp [GenSql.all, List.lookup], rfl,
    ((s.db.messagesOf app mb).mergeSort (fun a b => decide (a.rx ≤ b.rx))).map .msg,
    by simp [stmtSem, getMessagesStmt], ?_⟩
  have h := (get_messages_select s.db app mb).result
  have hb : bindArgs Mailbox_get_messages__select_messages_0 [("self._app_id", .text app), ("self._mailbox_id", .text mb)]
      = [.text app, .text mb] := by
    simp [bindArgs, evalArg, Mailbox_get_messages__select_messages_0, List.lookup]
  rw [hb] at h
  simp only [List.map, SV.toCell, h, List.map_map]
  congr 1

theorem e_dump_delete (s : Sys) :
    EntryUWrite "Server_dump_stats__delete_current_0" Server_dump_stats__delete_current_0 [] s := by
  refine ⟨by simp [GenSql.all, List.lookup], rfl, { s.udb with current := [] },
    by simp [stmtSem, dumpDeleteStmt, Sys.modUdb], ?_⟩
  exact (dump_stats_delete s.udb).pos (by simp [bindArgs, Server_dump_stats__delete_current_0])

def optNatSV : Option Nat → SV
  | none => .none
  | some b => .int b

theorem e_dump_insert (s : Sys) (rebooted now : Time) (blur : Option Nat) (conns : Nat) :
    EntryUWrite "Server_dump_stats__insert_current_0" Server_dump_stats__insert_current_0
      [.int rebooted, .int now, optNatSV blur, .int conns] s := by
  refine ⟨by simp [GenSql.all, List.lookup], rfl,
    { s.udb with current := s.udb.current ++ [⟨rebooted, now, blur, conns⟩] },
    by cases blur <;> simp [stmtSem, dumpInsertStmt, optNatOfSV, optNatSV, Sys.modUdb], ?_⟩
  exact (dump_stats_insert s.udb rebooted now blur conns).pos
    (by cases blur <;>
        simp [bindArgs, evalArg, Server_dump_stats__insert_current_0, List.lookup, SV.toCell, optNatSV, ofOptNat])

theorem e_all_apps_nameplates (s : Sys) :
    EntryAll "Server_get_all_apps__select_nameplates_0" Server_get_all_apps__select_nameplates_0 [] s := by
  refine ⟨by simp [GenSql.all, List.lookup], rfl, (s.db.nameplates.map (·.app)).eraseDups.map .app,
    by simp [stmtSem, allAppsStmt], ?_⟩
  have h := (all_apps_nameplates s.db).result
  have hb : bindArgs Server_get_all_apps__select_nameplates_0 [] = [] := by simp [bindArgs, Server_get_all_apps__select_nameplates_0]
  rw [hb] at h
  simp only [List.map, h, List.map_map]
  congr 1

theorem e_all_apps_mailboxes (s : Sys) :
    EntryAll "Server_get_all_apps__select_mailboxes_0" Server_get_all_apps__select_mailboxes_0 [] s := by
  refine ⟨by simp [GenSql.all, List.lookup], rfl, (s.db.mailboxes.map (·.app)).eraseDups.map .app,
    by simp [stmtSem, allAppsStmt], ?_⟩
  have h := (all_apps_mailboxes s.db).result
  have hb : bindArgs Server_get_all_apps__select_mailboxes_0 [] = [] := by simp [bindArgs, Server_get_all_apps__select_mailboxes_0]
  rw [hb] at h
  simp only [List.map, h, List.map_map]
  congr 1

theorem e_all_apps_messages (s : Sys) :
    EntryAll "Server_get_all_apps__select_messages_0" Server_get_all_apps__select_messages_0 [] s := by
  refine ⟨by simp [GenSql.all, List.lookup], rfl, (s.db.messages.map (·.app)).eraseDups.map .app,
    by simp [stmtSem, allAppsStmt], ?_⟩
  have h := (all_apps_messages s.db).result
  have hb : bindArgs Server_get_all_apps__select_messages_0 [] = [] := by simp [bindArgs, Server_get_all_apps__select_messages_0]
  rw [hb] at h
  simp only [List.map, h, List.map_map]
  congr 1

theorem e_names (s : Sys) (app : String) :
    EntryAll "AppNamespace__get_nameplate_ids__select_nameplates_0" AppNamespace__get_nameplate_ids__select_nameplates_0
      [.str app] s := by
  refine ⟨by simp [GenSql.all, List.lookup], rfl, (s.db.namesOfApp app).map .name, by simp [stmtSem, namesStmt], ?_⟩
  have h := (get_nameplate_ids_select s.db app).result
  have hb : bindArgs AppNamespace__get_nameplate_ids__select_nameplates_0 [("self._app_id", .text app)] = [.text app] := by
    simp [bindArgs, evalArg, AppNamespace__get_nameplate_ids__select_nameplates_0, List.lookup]
  rw [hb] at h
  simp only [List.map, SV.toCell, h, List.map_map]
  congr 1

/-! ### coverage -/

/-- the statement names that have an entry theorem above -/
def tiedNames : List String := [
  "Mailbox_open__select_mailbox_sides_0", "Mailbox_open__insert_mailbox_sides_0", "Mailbox__touch__update_mailboxes_0",
  "Mailbox__add_message__insert_messages_0", "AppNamespace__add_mailbox__select_mailboxes_0",
  "AppNamespace__add_mailbox__insert_mailboxes_0", "AppNamespace_open_mailbox__select_mailbox_sides_0",
  "AppNamespace_claim_nameplate__select_nameplates_0", "AppNamespace_claim_nameplate__insert_nameplates_0",
  "AppNamespace_claim_nameplate__select_nameplate_sides_0", "AppNamespace_claim_nameplate__insert_nameplate_sides_0",
  "AppNamespace_claim_nameplate__select_nameplate_sides_1", "AppNamespace_release_nameplate__select_nameplates_0",
  "AppNamespace_release_nameplate__select_nameplate_sides_0", "AppNamespace_release_nameplate__update_nameplate_sides_0",
  "AppNamespace_release_nameplate__select_nameplate_sides_1", "AppNamespace_release_nameplate__delete_nameplate_sides_0",
  "AppNamespace_release_nameplate__delete_nameplates_0",
  "Mailbox_close__select_mailboxes_0", "Mailbox_close__select_mailbox_sides_0", "Mailbox_close__update_mailbox_sides_0",
  "Mailbox_close__select_mailbox_sides_1", "Mailbox_close__select_nameplates_0", "Mailbox_close__select_nameplate_sides_0",
  "Mailbox_close__delete_nameplate_sides_0", "Mailbox_close__delete_nameplates_0", "Mailbox_close__delete_messages_0",
  "Mailbox_close__delete_mailbox_sides_0", "Mailbox_close__delete_mailboxes_0",
  "AppNamespace__summarize_nameplate_and_store__insert_nameplates_0",
  "AppNamespace__summarize_mailbox_and_store__insert_mailboxes_0",
  "AppNamespace_log_client_version__insert_client_versions_0", "Mailbox_get_messages__select_messages_0",
  "Server_dump_stats__delete_current_0", "Server_dump_stats__insert_current_0",
  "Server_get_all_apps__select_nameplates_0", "Server_get_all_apps__select_mailboxes_0",
  "Server_get_all_apps__select_messages_0", "AppNamespace__get_nameplate_ids__select_nameplates_0"]

end Wormhole.Tie
