/-
  The methods of server.py, regenerated: every statement name the translated bodies use has an entry theorem
  (Tie/SrvStmts.lean), and every body equals the model's function (Tie/Srv.lean).
-/
import Wormhole.Tie.Srv
import Wormhole.Tie.SrvStmts
import Wormhole.Tie.SrvWs
import Wormhole.Tie.SrvSumm
import Wormhole.Tie.SrvTop
import Wormhole.Tie.SrvSweep
import Wormhole.Tie.Alloc
import Wormhole.Tie.AllocProps

namespace Wormhole.Tie
open Wormhole Wormhole.PySrv

/-- every SQL statement a translated method executes is one of the tied entries of the statement table -/
theorem bodies_use_tied_statements :
    (GenSrv.table.flatMap (fun m => XS.stmtsL m.2.body)).all (fun n => n ∈ tiedNames) = true := by decide

/-- … and is a statement of the regenerated GeneratedSql.lean -/
theorem tied_names_are_generated : tiedNames.all (fun n => (GenSql.all.lookup n).isSome) = true := by
  simp [tiedNames, GenSql.all, List.lookup]

end Wormhole.Tie
