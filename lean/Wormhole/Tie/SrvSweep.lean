/-
  The outer loop of the sweep, regenerated: `Server.get_all_apps` (three `SELECT DISTINCT app_id` scans merged in a Python
  set) and `Server.prune_all_apps` (`for app_id in sorted(self.get_all_apps()): self.get_app(app_id).prune(now, old)`)
  are the model's `Sys.allApps` / `Sys.pruneApps`: the apps visited are exactly those with a row in `nameplates`,
  `mailboxes` or `messages` - read from the DATABASE, not from the registry of namespaces -, each once, in `≤` order,
  and an exception out of one app's `prune` ends the loop.  `AppNamespace.prune` itself is the primitive `Sys.prune`
  (its Python sets of ids make the order of its deletions and usage rows implementation-defined; the differential
  check compares the sweep's effect on every run).  With Tie/Tap.lean (`expire()` = `Sys.expire`) and `dump_stats_eq`
  the periodic timer's path is regenerated down to `prune`.
-/
import Wormhole.Tie.Srv

set_option linter.unusedSimpArgs false

namespace Wormhole.PySrv
open Wormhole Wormhole.GenSrv

theorem nodup_eraseDups : ∀ (l : List String), l.eraseDups.Nodup
  | [] => by simp
  | a :: as => by
    have hlen : (as.filter (fun b => !b == a)).length < as.length + 1 :=
      Nat.lt_succ_of_le (List.length_filter_le _ as)
    rw [List.eraseDups_cons, List.nodup_cons]
    refine ⟨?_, nodup_eraseDups _⟩
    simp [List.mem_eraseDups, List.mem_filter]
termination_by l => l.length

/-- `sorted(set)` depends on the ELEMENTS only -/
theorem sortedSet_congr (l₁ l₂ : List String) (h : ∀ x, x ∈ l₁ ↔ x ∈ l₂) : sortedSet l₁ = sortedSet l₂ := by
  unfold sortedSet
  have hle_trans : ∀ (a b c : String), decide (a ≤ b) = true → decide (b ≤ c) = true → decide (a ≤ c) = true := by
    intro a b c h1 h2; simp at *; exact String.le_trans h1 h2
  have hle_total : ∀ (a b : String), (decide (a ≤ b) || decide (b ≤ a)) = true := by
    intro a b; simp; exact String.le_total a b
  have s1 := List.pairwise_mergeSort (le := fun a b : String => decide (a ≤ b)) hle_trans hle_total l₁.eraseDups
  have s2 := List.pairwise_mergeSort (le := fun a b : String => decide (a ≤ b)) hle_trans hle_total l₂.eraseDups
  have p1 := List.mergeSort_perm l₁.eraseDups (fun a b : String => decide (a ≤ b))
  have p2 := List.mergeSort_perm l₂.eraseDups (fun a b : String => decide (a ≤ b))
  have n1 : (l₁.eraseDups.mergeSort (fun a b => decide (a ≤ b))).Nodup := p1.nodup_iff.mpr (nodup_eraseDups _)
  have n2 : (l₂.eraseDups.mergeSort (fun a b => decide (a ≤ b))).Nodup := p2.nodup_iff.mpr (nodup_eraseDups _)
  have hp : (l₁.eraseDups.mergeSort (fun a b => decide (a ≤ b))).Perm (l₂.eraseDups.mergeSort (fun a b => decide (a ≤ b))) := by
    rw [List.perm_ext_iff_of_nodup n1 n2]
    intro a
    simp [List.mem_mergeSort, List.mem_eraseDups, h]
  exact List.Perm.eq_of_pairwise (le := fun a b : String => a ≤ b) (fun a b _ _ h1 h2 => String.le_antisymm h1 h2)
    (by simpa using s1) (by simpa using s2) hp

theorem stmtSem_all_np (s : Sys) (args : List SV) :
    stmtSem s "Server_get_all_apps__select_nameplates_0" args = allAppsStmt s (s.db.nameplates.map (·.app)) args := by
  simp [stmtSem]
theorem stmtSem_all_mb (s : Sys) (args : List SV) :
    stmtSem s "Server_get_all_apps__select_mailboxes_0" args = allAppsStmt s (s.db.mailboxes.map (·.app)) args := by
  simp [stmtSem]
theorem stmtSem_all_msg (s : Sys) (args : List SV) :
    stmtSem s "Server_get_all_apps__select_messages_0" args = allAppsStmt s (s.db.messages.map (·.app)) args := by
  simp [stmtSem]

def addLoopBody : List XS := [.setAdd "apps" (.field (.var "row") "app_id")]

/-- one of the three loops: every fetched app id is added to the set -/
theorem add_loop_eq (c : Callee) (ctx : Ctx) (s : Sys) (l : List String) :
    ∀ (env : Env) (acc : List String), env.lookup "apps" = some (.strs acc) →
      ∃ env', (l.map RowV.app).foldl (loopStep c ctx addLoopBody "row") (.normal ⟨s, env⟩) = .normal ⟨s, env'⟩ ∧
        env'.lookup "apps" = some (.strs (acc ++ l)) := by
  induction l with
  | nil => intro env acc h; exact ⟨env, rfl, by simpa using h⟩
  | cons a rest ih =>
    intro env acc h
    have hstep : loopStep c ctx addLoopBody "row" (.normal ⟨s, env⟩) (.app a)
        = .normal ⟨s, setVar (setVar env "row" (.row (.app a))) "apps" (.strs (acc ++ [a]))⟩ := by
      simp [loopStep, loopStepWith, addLoopBody, execL, execS, eval, List.lookup, lookup_setVar_ne, lookup_setVar_eq, h,
        rowField, RowV.toRow, Sql.Row.get, SV.ofCell]
    simp only [List.map, List.foldl]
    rw [hstep]
    obtain ⟨env', h1, h2⟩ := ih _ (acc ++ [a]) (lookup_setVar_eq _ _ _)
    exact ⟨env', h1, by simpa [List.append_assoc] using h2⟩

/-- what `get_all_apps()` has put into its set -/
def rawApps (s : Sys) : List String :=
  (s.db.nameplates.map (·.app)).eraseDups ++ (s.db.mailboxes.map (·.app)).eraseDups ++ (s.db.messages.map (·.app)).eraseDups

theorem get_all_apps_eq (c : Callee) (ctx : Ctx) (s : Sys) :
    runMethod c Server_get_all_apps ctx [] s = .ok s (.strs (rawApps s)) := by
  unfold runMethod
  have hb : Server_get_all_apps.body = [.setNew "apps",
      .forExec "row" "Server_get_all_apps__select_nameplates_0" [] addLoopBody,
      .forExec "row" "Server_get_all_apps__select_mailboxes_0" [] addLoopBody,
      .forExec "row" "Server_get_all_apps__select_messages_0" [] addLoopBody,
      .ret (.var "apps")] := rfl
  have hp : Server_get_all_apps.params = [] := rfl
  rw [hb, hp]
  obtain ⟨e1, h1, k1⟩ := add_loop_eq c { ctx with params := [] } s (s.db.nameplates.map (·.app)).eraseDups
    (setVar [] "apps" (.strs [])) [] (lookup_setVar_eq _ _ _)
  obtain ⟨e2, h2, k2⟩ := add_loop_eq c { ctx with params := [] } s (s.db.mailboxes.map (·.app)).eraseDups e1 _ k1
  obtain ⟨e3, h3, k3⟩ := add_loop_eq c { ctx with params := [] } s (s.db.messages.map (·.app)).eraseDups e2 _ k2
  simp only [loopStep] at h1 h2 h3
  simp [execL, execS, eval, stmtSem_all_np, stmtSem_all_mb, stmtSem_all_msg, allAppsStmt, List.lookup, h1, h2, h3, k3,
    finish, rawApps]

theorem sortedSet_rawApps (s : Sys) : sortedSet (rawApps s) = s.allApps := by
  have h := sortedSet_congr (rawApps s)
    (s.db.nameplates.map (·.app) ++ s.db.mailboxes.map (·.app) ++ s.db.messages.map (·.app))
    (by intro x; simp [rawApps, List.mem_eraseDups])
  rw [h]; rfl

/-! ### prune_all_apps -/

def calleeSweep : Callee := fun meth ctx args s =>
  if meth = "Server.get_all_apps" then runMethod callee0 Server_get_all_apps ctx args s
  else if meth = "AppNamespace.prune" then
    (match args with
     | [.int now, .int old] =>
       (match s.prune ctx.app now old with
        | (s1, true) => .ok s1 (.bool true)          -- `in_use` only steers the registry of namespaces
        | (s1, false) => .raised s1 "IndexError")
     | _ => .raised s "TypeError")
  else .raised s "NoSuchMethod"

def sweepLoopBody : List XS :=
  [.assign "app" (.appObj (.var "app_id")),
   .call (some "in_use") "AppNamespace.prune" (some (.var "app")) [.param "now", .param "old"]]

def ofPruneApps : Sys × Bool → ExecRes
  | (s1, true) => .ok s1 .none
  | (s1, false) => .raised s1 "IndexError"

theorem sweep_loop_eq (ctx : Ctx) (now old : Time)
    (hn : ctx.params.lookup "now" = some (.int now)) (ho : ctx.params.lookup "old" = some (.int old)) (l : List String) :
    ∀ (s : Sys) (env : Env),
      finish (l.foldl (loopStepStr (execL calleeSweep ctx sweepLoopBody) "app_id") (.normal ⟨s, env⟩))
        = ofPruneApps (s.pruneApps now old l) := by
  induction l with
  | nil => intro s env; simp [finish, Sys.pruneApps, ofPruneApps]
  | cons a rest ih =>
    intro s env
    simp only [List.foldl, Sys.pruneApps]
    rcases hp : s.prune a now old with ⟨s1, ok⟩
    cases ok with
    | false =>
      have hstep : loopStepStr (execL calleeSweep ctx sweepLoopBody) "app_id" (.normal ⟨s, env⟩) a = .exc s1 "IndexError" := by
        simp [loopStepStr, sweepLoopBody, execL, execS, eval, List.lookup, lookup_setVar_ne, lookup_setVar_eq, calleeSweep,
          calleeCtx, hn, ho, hp]
      rw [hstep]
      have hexc : ∀ (l : List String) (s : Sys) (cls : String),
          l.foldl (loopStepStr (execL calleeSweep ctx sweepLoopBody) "app_id") (.exc s cls) = .exc s cls := by
        intro l; induction l with
        | nil => intro _ _; rfl
        | cons b bs ihb => intro s cls; simpa [List.foldl, loopStepStr] using ihb s cls
      rw [hexc]
      simp [finish, ofPruneApps]
    | true =>
      have hstep : ∃ env', loopStepStr (execL calleeSweep ctx sweepLoopBody) "app_id" (.normal ⟨s, env⟩) a
          = .normal ⟨s1, env'⟩ := by
        refine ⟨setVar (setVar (setVar env "app_id" (.str a)) "app" (.appRef a)) "in_use" (.bool true), ?_⟩
        simp [loopStepStr, sweepLoopBody, execL, execS, eval, List.lookup, lookup_setVar_ne, lookup_setVar_eq, calleeSweep,
          calleeCtx, hn, ho, hp, bindInto]
      obtain ⟨env', hs⟩ := hstep
      rw [hs]
      exact ih s1 env'

/-- `prune_all_apps(now, old)` IS `Sys.pruneApps … Sys.allApps` -/
theorem prune_all_apps_eq (ctx : Ctx) (now old : Time) (s : Sys) :
    runMethod calleeSweep Server_prune_all_apps ctx [.int now, .int old] s
      = ofPruneApps (s.pruneApps now old s.allApps) := by
  unfold runMethod
  have hb : Server_prune_all_apps.body = [.forSortedCall "app_id" "Server.get_all_apps" [] sweepLoopBody] := rfl
  have hp : Server_prune_all_apps.params = ["now", "old"] := rfl
  rw [hb, hp]
  have hg := get_all_apps_eq callee0 { ctx with params := [("now", SV.int now), ("old", SV.int old)] } s
  simp only [execL, execS, List.map, calleeSweep, if_true, List.zip, List.zipWith]
  rw [hg]
  simp only [sortedSet_rawApps]
  have := sweep_loop_eq { ctx with params := [("now", SV.int now), ("old", SV.int old)] } now old
    (by simp [List.lookup]) (by simp [List.lookup]) s.allApps s []
  generalize List.foldl _ _ _ = r at this ⊢
  cases r <;> simpa [finish] using this

end Wormhole.PySrv
