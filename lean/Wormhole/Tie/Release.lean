/-
  server.py `AppNamespace.release_nameplate`.
-/
import Wormhole.Tie.Defs

namespace Wormhole.Tie
open Wormhole Wormhole.Sql Wormhole.GenSql

theorem release_select_nameplate (d : Chan) (app name : String) :
    SelectIs AppNamespace_release_nameplate__select_nameplates_0 .chan [("self._app_id", .text app), ("name", .text name)] d.tables
      ((d.nameplates.filter (fun r => r.app = app ∧ r.name = name)).map Nameplate.toRow) := by
  tie [AppNamespace_release_nameplate__select_nameplates_0]

theorem release_select_side (d : Chan) (npid : Nat) (side : String) :
    SelectIs AppNamespace_release_nameplate__select_nameplate_sides_0 .chan [("npid", .int npid), ("side", .text side)] d.tables
      ((d.npSides.filter (fun r => r.npid = npid ∧ r.side = side)).map NpSide.toRow) := by
  tie [AppNamespace_release_nameplate__select_nameplate_sides_0]

/-- the UPDATE is `unclaim npid side` -/
theorem release_update_side (d : Chan) (npid : Nat) (side : String) :
    ChanWriteIs AppNamespace_release_nameplate__update_nameplate_sides_0
      [("npid", .int npid), ("side", .text side)] d (d.unclaim npid side) := by
  tie [AppNamespace_release_nameplate__update_nameplate_sides_0, Chan.unclaim]

theorem release_select_sides (d : Chan) (npid : Nat) :
    SelectIs AppNamespace_release_nameplate__select_nameplate_sides_1 .chan [("npid", .int npid)] d.tables
      ((d.npSidesOf npid).map NpSide.toRow) := by
  tie [AppNamespace_release_nameplate__select_nameplate_sides_1, Chan.npSidesOf]

theorem release_delete_sides (d : Chan) (npid : Nat) :
    ChanWriteIs AppNamespace_release_nameplate__delete_nameplate_sides_0 [("npid", .int npid)] d (d.delNpSidesOf npid) := by
  tie [AppNamespace_release_nameplate__delete_nameplate_sides_0, Chan.delNpSidesOf]

theorem release_delete_nameplate (d : Chan) (npid : Nat) :
    ChanWriteIs AppNamespace_release_nameplate__delete_nameplates_0 [("npid", .int npid)] d (d.delNameplate npid) := by
  tie [AppNamespace_release_nameplate__delete_nameplates_0, Chan.delNameplate]

end Wormhole.Tie
