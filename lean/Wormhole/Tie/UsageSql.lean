/-
  server.py: the statements on the usage database (`log_client_version`,
  `_summarize_nameplate_and_store`, `_summarize_mailbox_and_store`, `dump_stats`).
-/
import Wormhole.Tie.Defs

namespace Wormhole.Tie
open Wormhole Wormhole.Sql Wormhole.GenSql

/-- `log_client_version`: the row appended by `Core.logClientVersion` (`server_rx` is the
    already-blurred local variable of that function) -/
theorem log_client_version_insert (u : Usage) (app side : String) (t : Time) (impl version : Option String) :
    UsageWriteIs AppNamespace_log_client_version__insert_client_versions_0
      [("self._app_id", .text app), ("side", .text side), ("server_rx", .int t), ("implementation", ofOptStr impl),
       ("version", ofOptStr version)] u
      { u with clients := u.clients ++ [⟨app, side, t, impl, version⟩] } := by
  constructor <;> tie_simp [AppNamespace_log_client_version__insert_client_versions_0]
  constructor
  · cases impl <;> simp
  · cases version <;> simp

/-- `_summarize_nameplate_and_store`: the row appended by `Core.storeNameplateUsage` -/
theorem store_nameplate_usage_insert (u : Usage) (app : String) (started : Time) (waiting : Option Time) (total : Time)
    (result : String) :
    UsageWriteIs AppNamespace__summarize_nameplate_and_store__insert_nameplates_0
      [("self._app_id", .text app), ("u.started", .int started), ("u.total_time", .int total),
       ("u.waiting_time", ofOptTime waiting), ("u.result", .text result)] u
      { u with nameplates := u.nameplates ++ [⟨app, started, waiting, total, result⟩] } := by
  tie [AppNamespace__summarize_nameplate_and_store__insert_nameplates_0]

/-- `_summarize_mailbox_and_store`: the row appended by `Core.storeMailboxUsage` -/
theorem store_mailbox_usage_insert (u : Usage) (app : String) (forNp : Bool) (started total : Time) (waiting : Option Time)
    (result : String) :
    UsageWriteIs AppNamespace__summarize_mailbox_and_store__insert_mailboxes_0
      [("self._app_id", .text app), ("for_nameplate", .bool forNp), ("u.started", .int started), ("u.total_time", .int total),
       ("u.waiting_time", ofOptTime waiting), ("u.result", .text result)] u
      { u with mailboxes := u.mailboxes ++ [⟨app, forNp, started, total, waiting, result⟩] } := by
  tie [AppNamespace__summarize_mailbox_and_store__insert_mailboxes_0]

/-- `dump_stats`: `DELETE FROM current` empties the status table … -/
theorem dump_stats_delete (u : Usage) :
    UsageWriteIs Server_dump_stats__delete_current_0 [] u { u with current := [] } := by
  tie [Server_dump_stats__delete_current_0]

/-- … and the INSERT writes the one status row of `Core.dumpStats` -/
theorem dump_stats_insert (u : Usage) (rebooted now : Time) (blur : Option Nat) (conns : Nat) :
    UsageWriteIs Server_dump_stats__insert_current_0
      [("rebooted", .int rebooted), ("now", .int now), ("self._blur_usage", ofOptNat blur), ("connections", .int conns)] u
      { u with current := u.current ++ [⟨rebooted, now, blur, conns⟩] } := by
  tie [Server_dump_stats__insert_current_0]

end Wormhole.Tie
