/-
  server.py `Mailbox.get_messages`, `Mailbox._add_message`.
-/
import Wormhole.Tie.Defs

namespace Wormhole.Tie
open Wormhole Wormhole.Sql Wormhole.GenSql

/-- `get_messages`: the stored messages of `(app, mb)` in `server_rx` order (stable), i.e. what
    `Ws.lean` replays: `(messagesOf app mb).mergeSort (rx ≤ rx)` -/
theorem get_messages_select (d : Chan) (app mb : String) :
    SelectIs Mailbox_get_messages__select_messages_0 .chan [("self._app_id", .text app), ("self._mailbox_id", .text mb)] d.tables
      (((d.messagesOf app mb).mergeSort (fun a b => decide (a.rx ≤ b.rx))).map Message.toRow) := by
  constructor
  · rfl
  · rfl
  · simp [argsBound, Mailbox_get_messages__select_messages_0]
  · rw [List.map_mergeSort (s := fun a b => decide ((Row.get a "server_rx").toInt ≤ (Row.get b "server_rx").toInt))]
    · tie_simp [Mailbox_get_messages__select_messages_0, Chan.messagesOf]
    · intro a _ b _
      simp [Message.toRow, Row.get, List.lookup, Cell.toInt]

/-- `_add_message`: the INSERT is `insMessage` of the row with the client's scalars coerced by the
    columns' TEXT affinity (`Val.toText`): the arguments bound are the scalars AS RECEIVED -/
theorem add_message_insert (d : Chan) (app mb side : String) (phase body id : Val) (t : Time) :
    ChanWriteIs Mailbox__add_message__insert_messages_0
      [("self._app_id", .text app), ("self._mailbox_id", .text mb), ("sm.side", .text side), ("sm.phase", ofVal phase),
       ("sm.body", ofVal body), ("sm.server_rx", .int t), ("sm.msg_id", ofVal id)] d
      (d.insMessage ⟨app, mb, side, phase.toText, body.toText, t, id.toText⟩) := by
  constructor <;> tie_simp [Mailbox__add_message__insert_messages_0, Chan.insMessage]
  refine ⟨?_, ?_, ?_⟩
  · cases phase <;> simp [ofVal, Val.toText]
  · cases body <;> simp [ofVal, Val.toText]
  · cases id <;> simp [ofVal, Val.toText]

end Wormhole.Tie
