/-
  C04's statements about `_find_available_nameplate_id`, restated about `Generated.genFindAvailable` - the Lean definition
  harness/translate.py writes from the current source on every run - via `findAvailable_eq_generated`.
-/
import Wormhole.Tie.Alloc
import Wormhole.Props.C04

namespace Wormhole.Tie
open Wormhole Wormhole.Generated Wormhole.Sys Wormhole.C04

/-- the translated source returns a free name of the shortest length that has one (full statement: `C04_findAvailable_valid`) -/
theorem generated_valid {claimed : List String} {pick : Nat} {draws : List Nat} {n : String}
    (hdraws : DrawsInRange draws) (h : genFindAvailable claimed pick draws = some n) :
    ∃ k : Nat, n = toString k ∧ 1 ≤ k ∧ n ∉ claimed ∧ n.toNat? = some k ∧
      n.toList.head? ≠ some '0' ∧ (∀ c ∈ n.toList, c.isDigit = true) ∧
      (Free claimed 1 → 1 ≤ k ∧ k ≤ 9 ∧ n.length = 1) ∧
      (¬ Free claimed 1 → Free claimed 2 → 10 ≤ k ∧ k ≤ 99 ∧ n.length = 2) ∧
      (¬ Free claimed 1 → ¬ Free claimed 2 → Free claimed 3 → 100 ≤ k ∧ k ≤ 999 ∧ n.length = 3) ∧
      (¬ Free claimed 1 → ¬ Free claimed 2 → ¬ Free claimed 3 →
          FirstFreeDraw claimed draws k ∧ allocLo ≤ k ∧ k < allocHi ∧ 4 ≤ n.length ∧ n.length ≤ 6) :=
  C04_findAvailable_valid hdraws ((findAvailable_eq_generated claimed pick draws).trans h)

/-- the translated source raises (`none`) exactly when 1..999 and every padded draw are taken -/
theorem generated_exhausted (claimed : List String) (pick : Nat) (draws : List Nat) :
    genFindAvailable claimed pick draws = none ↔
      (∀ k, 1 ≤ k → k ≤ 999 → toString k ∈ claimed) ∧
      (∀ i, i < allocTries → toString (drawAt draws i) ∈ claimed) := by
  rw [← findAvailable_eq_generated]; exact C04_exhausted claimed pick draws

/-- the answer of the translated source depends on the SET of held names only -/
theorem generated_congr {c1 c2 : List String} (h : ∀ x, x ∈ c1 ↔ x ∈ c2) (pick : Nat) (draws : List Nat) :
    genFindAvailable c1 pick draws = genFindAvailable c2 pick draws := by
  rw [← findAvailable_eq_generated, ← findAvailable_eq_generated]; exact C04_congr h pick draws

/-- non-vacuity: with "1".."9" held the translated source answers a two-digit name -/
example : genFindAvailable ["1", "2", "3", "4", "5", "6", "7", "8", "9"] 0 [] = some "10" := by decide +kernel

end Wormhole.Tie
