/-
  The classification and the time arithmetic of the usage summaries of the CURRENT server.py (GeneratedSumm.lean,
  regenerated on every run) are the model's `summarizeNameplate` / `summarizeMailbox` (Core.lean) - the functions
  `Props/C15.lean` (classification, times) and `Props/C16.lean` (blur) reason about - for every list of side rows, every
  deletion time, both values of `pruned` and every blur interval.
-/
import Wormhole.GeneratedSumm

set_option linter.unusedSimpArgs false

namespace Wormhole.Tie
open Wormhole Wormhole.PySum

theorem nameplate_summary_eq (rows : List SRow) (dt : Int) (pruned : Bool) (blur : Option Int)
    (hb : ∀ b, blur = some b → b ≠ 0) :
    run GenSumm.nameplate ⟨rows, dt, pruned, blur⟩
      = (summarizeNameplate (blurFn blur) (rows.map (·.added)) dt pruned).map ofSummary := by
  obtain ⟨ts, hts⟩ : ∃ ts, sortInts (rows.map (·.added)) = ts := ⟨_, rfl⟩
  have hts' : sortTimes (rows.map (·.added)) = ts := hts
  unfold summarizeNameplate
  rw [hts']
  have hb0 : ∀ b, blur = some b → b ≠ 0 := hb
  rcases ts with _ | ⟨a, _ | ⟨b', _ | ⟨c, rest⟩⟩⟩
  · rcases blur with _ | b <;> cases pruned <;>
      simp [run, GenSumm.nameplate, execL, execS, eval, evalFields, truthy, hts, List.lookup, ofSummary, blurFn]
  · rcases blur with _ | b
    · cases pruned <;>
        simp [run, GenSumm.nameplate, execL, execS, eval, evalFields, truthy, hts, List.lookup, ofSummary, blurFn]
    · have := hb0 b rfl
      cases pruned <;>
        simp [run, GenSumm.nameplate, execL, execS, eval, evalFields, truthy, hts, List.lookup, ofSummary, blurFn, this]
  · rcases blur with _ | b
    · cases pruned <;>
        simp [run, GenSumm.nameplate, execL, execS, eval, evalFields, truthy, hts, List.lookup, ofSummary, blurFn]
    · have := hb0 b rfl
      cases pruned <;>
        simp [run, GenSumm.nameplate, execL, execS, eval, evalFields, truthy, hts, List.lookup, ofSummary, blurFn, this]
  · have h1 : (1 : Int) < ↑rest.length + 1 + 1 + 1 := by omega
    have h2 : ¬ ((↑rest.length : Int) + 1 + 1 + 1 = 2) := by omega
    have h3 : (2 : Int) < ↑rest.length + 1 + 1 + 1 := by omega
    have h4 : 2 < rest.length + 1 + 1 + 1 := by omega
    have h5 : ¬ (rest.length + 1 + 1 + 1 = 2) := by omega
    rcases blur with _ | b
    · cases pruned <;>
        simp [run, GenSumm.nameplate, execL, execS, eval, evalFields, truthy, hts, List.lookup, ofSummary, blurFn, h1, h2, h3, h4, h5]
    · have := hb0 b rfl
      cases pruned <;>
        simp [run, GenSumm.nameplate, execL, execS, eval, evalFields, truthy, hts, List.lookup, ofSummary, blurFn, this, h1, h2, h3,
          h4, h5]

/-- `"m" in [row["mood"] for row in side_rows if row.get("mood")]` is `any side has mood m`, for a non-empty `m` -/
theorem mood_in (sides : List MbSide) (m : String) (hm : m ≠ "") :
    ((sides.map (fun r => r.mood)).filter
        (fun x => match x with | some s => decide (s ≠ "") | none => false)).contains (some m)
      = sides.any (fun r => decide (r.mood = some m)) := by
  rw [Bool.eq_iff_iff]
  simp only [List.contains_iff_mem, List.mem_filter, List.mem_map, List.any_eq_true, decide_eq_true_eq]
  constructor
  · rintro ⟨⟨r, hr, hx⟩, _⟩
    exact ⟨r, hr, hx⟩
  · rintro ⟨r, hr, hx⟩
    exact ⟨⟨r, hr, hx⟩, by simpa using hm⟩

set_option maxHeartbeats 4000000 in
theorem mailbox_summary_eq (sides : List MbSide) (dt : Int) (pruned : Bool) (blur : Option Int)
    (hb : ∀ b, blur = some b → b ≠ 0) :
    run GenSumm.mailbox ⟨sides.map (fun r => ⟨r.added, r.mood⟩), dt, pruned, blur⟩
      = some (ofSummary (summarizeMailbox (blurFn blur) sides dt pruned)) := by
  obtain ⟨ts, hts⟩ : ∃ ts, sortInts (sides.map (fun r => r.added)) = ts := ⟨_, rfl⟩
  have hts' : sortTimes (sides.map (·.added)) = ts := hts
  unfold summarizeMailbox
  simp only [hts']
  have hb0 : ∀ b, blur = some b → b ≠ 0 := hb
  by_cases hl : ∃ a, a ∈ sides ∧ a.mood = some "lonely" <;>
  by_cases he : ∃ a, a ∈ sides ∧ a.mood = some "errory" <;>
  by_cases hs : ∃ a, a ∈ sides ∧ a.mood = some "scary" <;>
  (rcases ts with _ | ⟨a, _ | ⟨b', _ | ⟨c, rest⟩⟩⟩
   · rcases blur with _ | b
     · cases pruned <;>
         simp [run, GenSumm.mailbox, execL, execS, eval, evalFields, truthy, List.map_map, Function.comp_def, hts, hl, he, hs,
           List.lookup, ofSummary, blurFn]
     · have := hb0 b rfl
       cases pruned <;>
         simp [run, GenSumm.mailbox, execL, execS, eval, evalFields, truthy, List.map_map, Function.comp_def, hts, hl, he, hs,
           List.lookup, ofSummary, blurFn, this]
   · rcases blur with _ | b
     · cases pruned <;>
         simp [run, GenSumm.mailbox, execL, execS, eval, evalFields, truthy, List.map_map, Function.comp_def, hts, hl, he, hs,
           List.lookup, ofSummary, blurFn]
     · have := hb0 b rfl
       cases pruned <;>
         simp [run, GenSumm.mailbox, execL, execS, eval, evalFields, truthy, List.map_map, Function.comp_def, hts, hl, he, hs,
           List.lookup, ofSummary, blurFn, this]
   · rcases blur with _ | b
     · cases pruned <;>
         simp [run, GenSumm.mailbox, execL, execS, eval, evalFields, truthy, List.map_map, Function.comp_def, hts, hl, he, hs,
           List.lookup, ofSummary, blurFn]
     · have := hb0 b rfl
       cases pruned <;>
         simp [run, GenSumm.mailbox, execL, execS, eval, evalFields, truthy, List.map_map, Function.comp_def, hts, hl, he, hs,
           List.lookup, ofSummary, blurFn, this]
   · have h1 : (1 : Int) < ↑rest.length + 1 + 1 + 1 := by omega
     have h2 : ¬ ((↑rest.length : Int) + 1 + 1 + 1 = 0) := by omega
     have h2' : ¬ ((↑rest.length : Int) + 1 + 1 + 1 = 1) := by omega
     have h3 : (2 : Int) < ↑rest.length + 1 + 1 + 1 := by omega
     have h4 : 2 < rest.length + 1 + 1 + 1 := by omega
     rcases blur with _ | b
     · cases pruned <;>
         simp [run, GenSumm.mailbox, execL, execS, eval, evalFields, truthy, List.map_map, Function.comp_def, hts, hl, he, hs,
           List.lookup, ofSummary, blurFn, h1, h2, h2', h3, h4]
     · have := hb0 b rfl
       cases pruned <;>
         simp [run, GenSumm.mailbox, execL, execS, eval, evalFields, truthy, List.map_map, Function.comp_def, hts, hl, he, hs,
           List.lookup, ofSummary, blurFn, this, h1, h2, h2', h3, h4])

/-- non-vacuity of the hypothesis (a blur interval in effect is never 0): two sides, one scary, blur 7 s = 56 ticks -/
example :
    run GenSumm.mailbox ⟨[(⟨"m", true, "a", 100, some "happy"⟩ : MbSide), ⟨"m", true, "b", 60, some "scary"⟩].map
        (fun r => ⟨r.added, r.mood⟩), 200, false, some 56⟩
      = some (ofSummary (summarizeMailbox (blurFn (some 56))
          [⟨"m", true, "a", 100, some "happy"⟩, ⟨"m", true, "b", 60, some "scary"⟩] 200 false)) :=
  mailbox_summary_eq _ 200 false (some 56) (by intro b h; cases h; decide)

end Wormhole.Tie
