/-
  `AppNamespace._find_available_nameplate_id`, regenerated: harness/translate.py (alloc_body) turns the function into
  `Generated.genFindAvailable`, one Lean construct per Python statement; the model's `findAvailable` (the function every C04
  theorem is about) is proved equal to it for every claimed set, every resolution of `random.choice` and every draw sequence.
-/
import Wormhole.Core

namespace Wormhole.Tie
open Wormhole Wormhole.Generated Wormhole.Sys

theorem filterMap_toString (claimed : List String) (l : List Nat) :
    l.filterMap (fun k => if ¬ toString k ∈ claimed then some (toString k) else none)
      = (l.filter (fun k => ¬ toString k ∈ claimed)).map toString := by
  induction l with
  | nil => rfl
  | cons a l ih =>
    by_cases h : toString a ∈ claimed <;>
      simp only [List.filterMap_cons, List.filter_cons, h, not_true_eq_false, not_false_eq_true, if_true, if_false,
        decide_true, decide_false, ih, List.map_cons] <;> rfl

theorem findShort_eq_findSome (claimed : List String) (pick : Nat) (sizes : List Nat) :
    (findShort claimed pick sizes).map toString
      = sizes.findSome? (fun size =>
          let av := (availableOfSize claimed size).map toString
          av[pick % av.length]?) := by
  induction sizes with
  | nil => rfl
  | cons a l ih =>
    simp only [findShort, List.findSome?_cons, List.length_map, List.getElem?_map]
    cases h : (availableOfSize claimed a)[pick % (availableOfSize claimed a).length]? with
    | none => simpa using ih
    | some k => simp

theorem tries_eq_findSome (claimed : List String) (draws : List Nat) (n : Nat) :
    (((List.range n).map (drawAt draws)).find? (fun k => ¬ toString k ∈ claimed)).map toString
      = (List.range n).findSome? (fun i =>
          if ¬ toString (draws.getD i (allocLo + i)) ∈ claimed then some (toString (draws.getD i (allocLo + i))) else none) := by
  generalize List.range n = l
  induction l with
  | nil => rfl
  | cons a l ih =>
    by_cases h : toString (draws.getD a (allocLo + a)) ∈ claimed <;>
      simp only [List.map_cons, List.find?_cons, List.findSome?_cons, drawAt, h, not_true_eq_false, not_false_eq_true,
        if_true, if_false, decide_true, decide_false, Option.map_some] <;> first | exact ih | rfl

theorem or_or_congr {α} {a a' b b' : Option α} (h1 : a = a') (h2 : b = b') :
    a.or (b.or none) = a'.or (b'.or none) := by subst h1 h2; rfl

/-- the model's search is the translation of the current source -/
theorem findAvailable_eq_generated (claimed : List String) (pick : Nat) (draws : List Nat) :
    findAvailable claimed pick draws = genFindAvailable claimed pick draws := by
  have h1 := findShort_eq_findSome claimed pick (List.range' allocSizeLo (allocSizeHi - allocSizeLo))
  have h2 := tries_eq_findSome claimed draws allocTries
  unfold genFindAvailable
  simp only [filterMap_toString]
  refine Eq.trans ?_ (or_or_congr h1 h2)
  unfold findAvailable
  cases findShort claimed pick _ <;> simp
  cases List.find? _ _ <;> simp

end Wormhole.Tie
