/-
  A small relational semantics for the SQL statements that server.py embeds, so that the tie
  between the model's primitives (Store.lean) and the statements of the CURRENT source can be a
  theorem instead of a doc comment.

  `harness/translate_sql.py` parses every `db.execute(sql, args)` of server.py into a `Stmt`
  (GeneratedSql.lean, regenerated on every run).  This file gives such a statement a meaning over
  tables of generic rows (`execSelect`, `execWrite`), maps the model's typed tables to generic
  rows (`Chan.tables`, `Usage.tables`) and interprets the Python argument expressions
  (`bindArgs`).  `Wormhole/Tie/*.lean` then prove `primitive = meaning of the generated statement`.

  What is *assumed* here (the trusted reading of SQLite, kept as small as possible):
  * `col = ?` is true iff both operands are non-NULL and equal (three-valued logic collapsed to
    the two outcomes a WHERE clause distinguishes);
  * rows are kept in rowid (insertion) order; `ORDER BY c` is a stable sort on an integer column
    (SQLite promises no order among equal keys; the harness compares replayed batches as multisets);
  * a column declared VARCHAR/TEXT has TEXT affinity: an integer stored into it comes back as its
    decimal text (finding K-id-coercion lives here); other declared types store what they get;
  * a column left out of an INSERT is NULL, except an AUTOINCREMENT key, which takes the counter;
  * `SELECT DISTINCT` keeps the first occurrence of every row.
  No Mathlib; everything is executable.
-/
import Wormhole.Basic

namespace Wormhole
namespace Sql

/-- a stored or bound value -/
inductive Cell where
  | null
  | int (i : Int)
  | text (s : String)
  | bool (b : Bool)
  deriving DecidableEq, Repr, Inhabited

/-- a generic row: column name ↦ value, in declared column order -/
abbrev Row := List (String × Cell)

def Row.get (r : Row) (c : String) : Cell := (r.lookup c).getD .null

/-- SQL `a = b` as a WHERE clause sees it -/
def Cell.sqlEq (a b : Cell) : Bool := decide (a ≠ .null) && decide (b ≠ .null) && decide (a = b)

inductive Kind where
  | select | insert | update | delete
  deriving DecidableEq, Repr

inductive Which where
  | chan | usage
  deriving DecidableEq, Repr

/-- one conjunct of a WHERE clause; `p` = index of the `?` it binds (text order) -/
inductive Cond where
  | eq (col : String) (p : Nat)
  /-- `col IN (SELECT subCol FROM subTable WHERE c₁=? AND …)` -/
  | inSel (col subCol subTable : String) (wh : List (String × Nat))
  deriving DecidableEq, Repr

structure Stmt where
  kind : Kind
  db : Which
  table : String
  distinct : Bool
  /-- SELECT: projected columns (`["*"]` = all); INSERT: the named columns -/
  cols : List String
  /-- INSERT: parameter index of every named column -/
  vals : List Nat
  /-- UPDATE: `SET col = ?` -/
  sets : List (String × Nat)
  wh : List Cond
  /-- `ORDER BY col ASC(true)/DESC(false)` -/
  order : Option (String × Bool)
  /-- the Python expressions of the argument tuple (`ast.unparse`) -/
  args : List String
  deriving DecidableEq, Repr

abbrev Tables := String → List Row

def param (ps : List Cell) (i : Nat) : Cell := ps.getD i .null

def simpleMatch (ps : List Cell) (wh : List (String × Nat)) (r : Row) : Bool :=
  wh.all (fun cp => (r.get cp.1).sqlEq (param ps cp.2))

def Cond.eval (tb : Tables) (ps : List Cell) (r : Row) : Cond → Bool
  | .eq c p => (r.get c).sqlEq (param ps p)
  | .inSel c sc st wh => ((tb st).filter (simpleMatch ps wh)).any (fun r' => (r.get c).sqlEq (r'.get sc))

def rowMatches (tb : Tables) (ps : List Cell) (wh : List Cond) (r : Row) : Bool :=
  wh.all (fun c => c.eval tb ps r)

def Cell.toInt : Cell → Int
  | .int i => i
  | _ => 0

/-- the rows a SELECT returns -/
def execSelect (st : Stmt) (ps : List Cell) (tb : Tables) : List Row :=
  let rows := (tb st.table).filter (rowMatches tb ps st.wh)
  let rows := match st.order with
    | none => rows
    | some (c, true) => rows.mergeSort (fun a b => decide ((a.get c).toInt ≤ (b.get c).toInt))
    | some (c, false) => rows.mergeSort (fun a b => decide ((b.get c).toInt ≤ (a.get c).toInt))
  let rows := if st.cols = ["*"] then rows else rows.map (fun r => st.cols.map (fun c => (c, r.get c)))
  if st.distinct then rows.eraseDups else rows

/-- column affinity by declared type -/
def affinity (ty : String) (v : Cell) : Cell :=
  if ty = "VARCHAR" ∨ ty = "TEXT" then
    match v with
    | .int i => .text (toString i)
    | v => v
  else v

/-- the row an INSERT builds, over the declared columns `(name, type, autoincrement)` -/
def insertRow (st : Stmt) (ps : List Cell) (schema : List (String × String × Bool)) (seq : Nat) : Row :=
  schema.map (fun c =>
    (c.1, match (st.cols.zip st.vals).lookup c.1 with
          | some p => affinity c.2.1 (param ps p)
          | none => if c.2.2 then .int seq else .null))

def updateRow (st : Stmt) (ps : List Cell) (r : Row) : Row :=
  r.map (fun cv => match st.sets.lookup cv.1 with
                   | some p => (cv.1, param ps p)
                   | none => cv)

/-- the rows of `st.table` after an INSERT / UPDATE / DELETE (every other table is unchanged) -/
def execWrite (st : Stmt) (ps : List Cell) (schema : List (String × String × Bool)) (seq : Nat)
    (tb : Tables) : List Row :=
  match st.kind with
  | .insert => tb st.table ++ [insertRow st ps schema seq]
  | .update => (tb st.table).map (fun r => if rowMatches tb ps st.wh r then updateRow st ps r else r)
  | .delete => (tb st.table).filter (fun r => !rowMatches tb ps st.wh r)
  | .select => tb st.table

/-- the declared columns of a table -/
def schemaOf (cols : List (String × List (String × String × Bool))) (t : String) :
    List (String × String × Bool) := (cols.lookup t).getD []

/-! ### Python argument expressions -/

/-- the value of one argument expression: the literals `True` / `False` / `None`, otherwise the
    binding written next to the theorem -/
def evalArg (env : List (String × Cell)) (e : String) : Cell :=
  if e = "True" then .bool true
  else if e = "False" then .bool false
  else if e = "None" then .null
  else (env.lookup e).getD .null

def bindArgs (st : Stmt) (env : List (String × Cell)) : List Cell := st.args.map (evalArg env)

/-- every argument expression is a literal or bound (otherwise a theorem would silently bind NULL) -/
def argsBound (st : Stmt) (env : List (String × Cell)) : Bool :=
  st.args.all (fun e => e = "True" || e = "False" || e = "None" || (env.lookup e).isSome)

/-! ### The model's typed tables as generic rows -/

def ofVal : Val → Cell
  | .null => .null
  | .str s => .text s
  | .int i => .int i

def ofOptStr : Option String → Cell
  | some s => .text s
  | none => .null

def ofOptTime : Option Time → Cell
  | some t => .int t
  | none => .null

def ofOptNat : Option Nat → Cell
  | some n => .int n
  | none => .null

end Sql

open Sql

def Nameplate.toRow (r : Nameplate) : Row :=
  [("id", .int r.id), ("app_id", .text r.app), ("name", .text r.name), ("mailbox_id", .text r.mailbox),
   ("request_id", .null)]

def NpSide.toRow (r : NpSide) : Row :=
  [("nameplates_id", .int r.npid), ("claimed", .bool r.claimed), ("side", .text r.side), ("added", .int r.added)]

def MailboxRow.toRow (r : MailboxRow) : Row :=
  [("app_id", .text r.app), ("id", .text r.id), ("updated", .int r.updated), ("for_nameplate", .bool r.forNp)]

def MbSide.toRow (r : MbSide) : Row :=
  [("mailbox_id", .text r.mailbox), ("opened", .bool r.opened), ("side", .text r.side), ("added", .int r.added),
   ("mood", ofOptStr r.mood)]

def Message.toRow (r : Message) : Row :=
  [("app_id", .text r.app), ("mailbox_id", .text r.mailbox), ("side", .text r.side), ("phase", ofVal r.phase),
   ("body", ofVal r.body), ("server_rx", .int r.rx), ("msg_id", ofVal r.msgId)]

def UNameplate.toRow (r : UNameplate) : Row :=
  [("app_id", .text r.app), ("started", .int r.started), ("waiting_time", ofOptTime r.waiting),
   ("total_time", .int r.total), ("result", .text r.result)]

def UMailbox.toRow (r : UMailbox) : Row :=
  [("app_id", .text r.app), ("for_nameplate", .bool r.forNp), ("started", .int r.started),
   ("total_time", .int r.total), ("waiting_time", ofOptTime r.waiting), ("result", .text r.result)]

def UCurrent.toRow (r : UCurrent) : Row :=
  [("rebooted", .int r.rebooted), ("updated", .int r.updated), ("blur_time", ofOptNat r.blur),
   ("connections_websocket", .int r.conns)]

def UClient.toRow (r : UClient) : Row :=
  [("app_id", .text r.app), ("side", .text r.side), ("connect_time", .int r.time),
   ("implementation", ofOptStr r.impl), ("version", ofOptStr r.version)]

/-- the channel database as generic tables -/
def Chan.tables (d : Chan) : Tables := fun t =>
  if t = "nameplates" then d.nameplates.map Nameplate.toRow
  else if t = "nameplate_sides" then d.npSides.map NpSide.toRow
  else if t = "mailboxes" then d.mailboxes.map MailboxRow.toRow
  else if t = "mailbox_sides" then d.mbSides.map MbSide.toRow
  else if t = "messages" then d.messages.map Message.toRow
  else []

/-- the usage database as generic tables -/
def Usage.tables (d : Usage) : Tables := fun t =>
  if t = "nameplates" then d.nameplates.map UNameplate.toRow
  else if t = "mailboxes" then d.mailboxes.map UMailbox.toRow
  else if t = "current" then d.current.map UCurrent.toRow
  else if t = "client_versions" then d.clients.map UClient.toRow
  else []

end Wormhole
