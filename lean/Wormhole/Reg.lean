/-
  The REGISTRY model: the same server, but with the Python objects the object-free model
  `Sys` leaves out.

    Server._apps            : dict app_id     -> AppNamespace      `RSys.apps` (+ heap `RSys.nss`)
    AppNamespace._mailboxes : dict mailbox_id -> Mailbox           `Ns.boxes`  (+ heap `RSys.mbs`)
    Mailbox._listeners      : dict handle     -> (send_f, stop_f)  `MbObj.listeners`
    WebSocketServer._mailbox: the Mailbox OBJECT                   `RConn.mailbox : Option Nat` (its oid)

  Objects are identified by an `oid` handed out from `nextOid`; `nss` and `mbs` are the heaps
  (an object stays there when it is dropped from its dict: somebody may still hold a reference),
  the dicts are association lists in insertion order (= Python dict order).  Everything that
  only touches the two databases is done by the functions of Core.lean on `RSys.core`, a
  `Sys` whose `conns` component is not used (it stays `[]`).

  A reference that does not resolve in its heap cannot exist in Python; the model answers it
  with the event `internal none "DanglingReference"` (`RSys.dangling`), which `Sys` never
  emits -- so the refinement theorem (Props/Reg.lean) in particular says it never happens.

  `Variant` selects the code BEFORE two repairs, for the negative results:
    `cachedNs` : the connection keeps the AppNamespace object it got at bind time (before 977dbc8);
    `stopNoop` : the stop callback of `handle_open` does nothing (before 26fcad5).
  `Variant.fixed` (both off) is the repaired tree; `rstep` runs it.

  No Mathlib; everything here is executable.
-/
import Wormhole.Ws

namespace Wormhole
open Generated
open Sys (OpenRes ClaimRes findAvailable)

/-- an `AppNamespace` object -/
structure Ns where
  oid : Nat
  /-- `_app_id` -/
  app : String
  /-- `_mailboxes`: mailbox id ↦ oid of the `Mailbox` object, in insertion order -/
  boxes : List (String × Nat) := []
  deriving DecidableEq, Repr, Inhabited

/-- a `Mailbox` object -/
structure MbObj where
  oid : Nat
  /-- `_app`: the AppNamespace object that created it -/
  nsOid : Nat
  /-- `_app_id` -/
  app : String
  /-- `_mailbox_id` -/
  mailboxId : String
  /-- `_listeners`: the handles (connection ids), in insertion order -/
  listeners : List Nat := []
  deriving DecidableEq, Repr, Inhabited

/-- The per-connection state of `WebSocketServer`; `mailbox` is the Mailbox OBJECT. -/
structure RConn where
  id : Nat
  app : Option String := none          -- _app_id
  /-- only with `Variant.cachedNs`: `_app`, the AppNamespace object obtained at bind time -/
  ns : Option Nat := none
  side : Option String := none         -- _side
  didAllocate : Bool := false
  listening : Bool := false
  didClaim : Bool := false
  nameplateId : Option String := none
  didRelease : Bool := false
  mailbox : Option Nat := none         -- _mailbox: oid of the held Mailbox object
  mailboxId : Option String := none    -- _mailbox_id
  didClose : Bool := false
  deriving DecidableEq, Repr, Inhabited

structure Variant where
  cachedNs : Bool := false
  stopNoop : Bool := false
  deriving DecidableEq, Repr, Inhabited

/-- the repaired tree -/
def Variant.fixed : Variant := {}
/-- the tree before 977dbc8 -/
def Variant.cached : Variant := { cachedNs := true }
/-- the tree before 26fcad5 (and after 977dbc8) -/
def Variant.noStop : Variant := { stopNoop := true }

structure RSys where
  /-- cfg, db, disk, udb, udisk, rebooted, out, snaps (`core.conns` is not used) -/
  core : Sys := {}
  conns : List RConn := []
  /-- `Server._apps` -/
  apps : List (String × Nat) := []
  /-- heap of AppNamespace objects -/
  nss : List Ns := []
  /-- heap of Mailbox objects -/
  mbs : List MbObj := []
  nextOid : Nat := 0
  deriving Repr, Inhabited

/-- dict lookup in an association list -/
def alookup (l : List (String × Nat)) (k : String) : Option Nat :=
  (l.find? (fun p => p.1 = k)).map (·.2)

namespace RSys

/-! ### plumbing -/

def onCore (r : RSys) (f : Sys → Sys) : RSys := { r with core := f r.core }

def emit (r : RSys) (e : Event) : RSys := r.onCore (·.emit e)
def send (r : RSys) (c : Nat) (f : Frame) : RSys := r.onCore (·.send c f)
def sendError (r : RSys) (c : Nat) (text : String) : RSys := r.onCore (·.sendError c text)
def internalErr (r : RSys) (c : Nat) (cls : String) : RSys := r.onCore (·.internalErr c cls)

/-- a reference did not resolve (impossible in Python) -/
def dangling (r : RSys) : RSys := r.emit (.internal none "DanglingReference")

def findConn (r : RSys) (c : Nat) : Option RConn := r.conns.find? (fun x => x.id = c)

def updConn (r : RSys) (c : Nat) (f : RConn → RConn) : RSys :=
  { r with conns := r.conns.map (fun x => if x.id = c then f x else x) }

/-- dereference an AppNamespace -/
def findNs (r : RSys) (n : Nat) : Option Ns := r.nss.find? (fun k => k.oid = n)
/-- dereference a Mailbox -/
def findMb (r : RSys) (o : Nat) : Option MbObj := r.mbs.find? (fun k => k.oid = o)

def updNs (r : RSys) (n : Nat) (f : Ns → Ns) : RSys :=
  { r with nss := r.nss.map (fun k => if k.oid = n then f k else k) }
def updMb (r : RSys) (o : Nat) (f : MbObj → MbObj) : RSys :=
  { r with mbs := r.mbs.map (fun k => if k.oid = o then f k else k) }

/-! ### the abstraction: forget the registry -/

/-- a connection of `Sys`: the held object becomes its `_mailbox_id` -/
def absConn (mbs : List MbObj) (x : RConn) : Conn :=
  { id := x.id, app := x.app, side := x.side, didAllocate := x.didAllocate, listening := x.listening,
    didClaim := x.didClaim, nameplateId := x.nameplateId, didRelease := x.didRelease,
    mailbox := x.mailbox.bind (fun o => (mbs.find? (fun k => k.oid = o)).map (·.mailboxId)),
    mailboxId := x.mailboxId, didClose := x.didClose }

def abs (r : RSys) : Sys := { r.core with conns := r.conns.map (absConn r.mbs) }

/-! ### Server -/

/-- `Server.get_app(app_id)`: the registered namespace, created on demand -/
def getApp (r : RSys) (app : String) : RSys × Nat :=
  match alookup r.apps app with
  | some n => (r, n)
  | none =>
    ({ r with apps := r.apps ++ [(app, r.nextOid)], nss := r.nss ++ [{ oid := r.nextOid, app := app }],
              nextOid := r.nextOid + 1 }, r.nextOid)

/-- `self._app` of a connection bound to `app`: on the repaired tree the property
    `self.factory.server.get_app(self._app_id)`, before 977dbc8 the attribute set by `handle_bind` -/
def appOf (v : Variant) (r : RSys) (x : RConn) (app : String) : RSys × Nat :=
  if v.cachedNs then
    match x.ns with
    | some n => (r, n)
    | none => r.getApp app     -- not reached: `handle_bind` sets both fields
  else r.getApp app

/-! ### Mailbox -/

/-- `Mailbox.add_listener(handle, …)` (`self._listeners[handle] = …`) -/
def addListener (r : RSys) (o c : Nat) : RSys :=
  r.updMb o (fun k => { k with listeners := if c ∈ k.listeners then k.listeners else k.listeners ++ [c] })

/-- `Mailbox.remove_listener(handle)` (`self._listeners.pop(handle, None)`) -/
def removeListener (r : RSys) (o c : Nat) : RSys :=
  r.updMb o (fun k => { k with listeners := k.listeners.filter (fun d => ¬ d = c) })

/-- the stop callback `_stop` of connection `c` -/
def stop (v : Variant) (r : RSys) (c : Nat) : RSys :=
  if v.stopNoop then r else r.updConn c (fun y => { y with mailbox := none, listening := false })

/-- `if not mailbox_id in self._mailboxes: self._mailboxes[mailbox_id] = Mailbox(self, …, self._app_id, mailbox_id)`
    and `mailbox = self._mailboxes[mailbox_id]`, in the AppNamespace object `ns` -/
def ensureMailbox (r : RSys) (ns : Ns) (mb : String) : RSys × Nat :=
  match alookup ns.boxes mb with
  | some o => (r, o)
  | none =>
    (({ r with mbs := r.mbs ++ [{ oid := r.nextOid, nsOid := ns.oid, app := ns.app, mailboxId := mb }],
               nextOid := r.nextOid + 1 } : RSys).updNs ns.oid
        (fun k => { k with boxes := k.boxes ++ [(mb, r.nextOid)] }), r.nextOid)

/-- `AppNamespace.open_mailbox(mailbox_id, side, when)` on the AppNamespace object `n`;
    the third component is the returned Mailbox object -/
def openMailbox (r : RSys) (n : Nat) (mb side : String) (t : Time) : RSys × OpenRes × Nat :=
  match r.findNs n with
  | none => (r.dangling, .integrity, 0)
  | some ns =>
    -- self._add_mailbox(mailbox_id, False, side, when)
    match r.core.addMailbox ns.app mb false t with
    | none => (r, .integrity, 0)
    | some c1 =>
      let p := ({ r with core := c1 } : RSys).ensureMailbox ns mb
      match p.1.findMb p.2 with
      | none => (p.1.dangling, .integrity, p.2)
      | some obj =>
        -- mailbox.open(side, when); db.commit()
        let r3 := p.1.onCore (fun s => (s.mailboxOpen obj.mailboxId side t).commit)
        if (r3.core.db.mbSidesOf mb).length > 2 then (r3, .crowded, p.2) else (r3, .ok, p.2)

/-- the end of `Mailbox.close`, on the Mailbox object `obj`:
    `for (send_f, stop_f) in self._listeners.values(): stop_f()`; `self._listeners = {}`;
    `self._app.free_mailbox(self._mailbox_id)` -/
def shutObject (v : Variant) (r : RSys) (obj : MbObj) : RSys :=
  ((obj.listeners.foldl (fun r c => r.stop v c) r).updMb obj.oid (fun k => { k with listeners := [] })).updNs
    obj.nsOid (fun k => { k with boxes := k.boxes.filter (fun p => ¬ p.1 = obj.mailboxId) })

/-- `Mailbox.close(side, mood, when)` on the Mailbox object `o`; `false` = an exception escaped -/
def mailboxClose (v : Variant) (r : RSys) (o : Nat) (side : String) (mood : Option String) (t : Time) :
    RSys × Bool :=
  match r.findMb o with
  | none => (r.dangling, true)
  | some obj =>
    match r.core.db.findMailbox obj.app obj.mailboxId with
    | none => (r, true)
    | some row =>
      match r.core.db.findMbSide obj.mailboxId side with
      | none => (r, true)
      | some _ =>
        let r1 := r.onCore (fun s => (s.modDb (·.closeSide obj.mailboxId side mood)).commit)
        let sideRows := r1.core.db.mbSidesOf obj.mailboxId
        if sideRows.any (·.opened) then (r1, true)
        else
          -- `self._app` of the Mailbox (for the summaries and `free_mailbox`)
          match r1.findNs obj.nsOid with
          | none => (r1.dangling, true)
          | some ns =>
            let q : Sys × Bool :=
              if r1.core.cfg.usage then
                r1.core.storeNameplatesOfMailbox ns.app t (r1.core.db.nameplatesOfMailbox obj.app obj.mailboxId)
              else (r1.core, true)
            let r2 : RSys := { r1 with core := q.1 }
            if !q.2 then (r2, false)
            else
              let r4 := r2.onCore (fun s2 =>
                let s3 := s2.modDb (fun d =>
                  ((((d.delNpSidesOfMailbox obj.app obj.mailboxId).delNameplatesOfMailbox obj.app
                    obj.mailboxId).delMessagesOf obj.mailboxId).delMbSidesOf obj.mailboxId).delMailbox
                    obj.mailboxId)
                let s4 := if s3.cfg.usage then
                    (s3.storeMailboxUsage ns.app row.forNp sideRows t false).ucommit else s3
                s4.commit)
              (r4.shutObject v obj, true)

/-! ### AppNamespace -/

/-- the end of `claim_nameplate`: `db.commit(); self.open_mailbox(mailbox_id, side, when)`, the crowding check -/
def claimCont (r1 : RSys) (n : Nat) (npid : Nat) (mb side : String) (t : Time) : RSys × ClaimRes :=
  match (r1.onCore (·.commit)).openMailbox n mb side t with
  | (r3, .integrity, _) => (r3, .integrity)
  | (r3, .crowded, _) => (r3, .crowded)
  | (r3, .ok, _) => if (r3.core.db.npSidesOf npid).length > 2 then (r3, .crowded) else (r3, .ok mb)

/-- the part of `claim_nameplate` after the nameplate row is known (`n` = `self`) -/
def claimTail (r : RSys) (n : Nat) (npid : Nat) (mb side : String) (t : Time) : RSys × ClaimRes :=
  match r.core.db.findNpSide npid side with
  | none => (r.onCore (·.modDb (·.insNpSide ⟨npid, true, side, t⟩))).claimCont n npid mb side t
  | some row => if row.claimed then r.claimCont n npid mb side t else (r, .reclaimed)

/-- `claim_nameplate(name, side, when)` on the AppNamespace object `n` -/
def claimNameplate (r : RSys) (n : Nat) (name side : String) (t : Time) (fresh : String) : RSys × ClaimRes :=
  match r.findNs n with
  | none => (r.dangling, .integrity)
  | some ns =>
    match r.core.db.findNameplate ns.app name with
    | none =>
      match r.core.addMailbox ns.app fresh true t with
      | none => (r, .integrity)
      | some c1 =>
        ({ r with core := c1.modDb (·.insNameplate ns.app name fresh) } : RSys).claimTail n c1.db.nextNp fresh side t
    | some row => r.claimTail n row.id row.mailbox side t

/-- the touch loop of `prune`:
    `for mailbox in self._mailboxes.values(): if mailbox.has_listeners(): mailbox._touch(now)` -/
def touchLoop (r : RSys) (now : Time) : List (String × Nat) → RSys
  | [] => r
  | p :: rest =>
    match r.findMb p.2 with
    | none => touchLoop r.dangling now rest
    | some obj =>
      touchLoop (if obj.listeners ≠ [] then r.onCore (·.modDb (·.touch obj.mailboxId now)) else r) now rest

end RSys

/-- `AppNamespace.prune` once `old_mailboxes` / `old_nameplates` are computed -/
def Sys.pruneLoops (s1 : Sys) (app : String) (now : Time) (oldMb : List MailboxRow) (oldNp : List Nameplate) :
    Sys × Bool :=
  match s1.pruneNameplates app now oldNp with
  | (s2, false) => (s2, false)
  | (s2, true) =>
    let s3 := s2.pruneMailboxes app now oldMb
    if oldNp ≠ [] ∨ oldMb ≠ [] then
      let s4 := s3.commit
      (if s4.cfg.usage then s4.ucommit else s4, true)
    else (s3, true)

/-- `AppNamespace.prune` after the touch loop and its commit: database only.  (The text of
    `Sys.prune` from `s1` on; `Sys.prune_eq_tail` in Inv/RegFrame.lean.) -/
def Sys.pruneTail (s1 : Sys) (app : String) (now old : Time) : Sys × Bool :=
  let oldMb := (s1.db.mailboxesOfApp app).filter (fun r => ¬ r.updated > old)
  let oldNp := (s1.db.nameplatesOfApp app).filter (fun r => r.mailbox ∈ oldMb.map (·.id))
  s1.pruneLoops app now oldMb oldNp

namespace RSys

/-- `AppNamespace.prune(now, old)` on the AppNamespace object `n`;
    second component `false` = an exception escaped, third = `in_use` -/
def prune (r : RSys) (n : Nat) (now old : Time) : RSys × Bool × Bool :=
  match r.findNs n with
  | none => (r.dangling, true, true)
  | some ns =>
    let r1 := (r.touchLoop now ns.boxes).onCore (·.commit)
    let q := r1.core.pruneTail ns.app now old
    -- in_use = bool(self._mailboxes)   (`prune` does not change `_mailboxes`)
    ({ r1 with core := q.1 }, q.2, !ns.boxes.isEmpty)

/-- the loop of `prune_all_apps`:
    `app = self.get_app(app_id); in_use = app.prune(now, old); if not in_use: del self._apps[app_id]` -/
def pruneApps (r : RSys) (now old : Time) : List String → RSys × Bool
  | [] => (r, true)
  | app :: rest =>
    match (r.getApp app).1.prune (r.getApp app).2 now old with
    | (r1, false, _) => (r1, false)
    | (r1, true, inUse) =>
      pruneApps (if inUse then r1 else { r1 with apps := r1.apps.filter (fun p => ¬ p.1 = app) }) now old rest

/-- `AppNamespace.count_listeners` -/
def nsCount (r : RSys) (ns : Ns) : Nat :=
  (ns.boxes.map (fun p => match r.findMb p.2 with | some k => k.listeners.length | none => 0)).sum

/-- `sum(app.count_listeners() for app in self._apps.values())` -/
def countListeners (r : RSys) : Nat :=
  (r.apps.map (fun p => match r.findNs p.2 with | some ns => r.nsCount ns | none => 0)).sum

/-- `Server.dump_stats` -/
def dumpStats (r : RSys) (now : Time) : RSys :=
  if r.core.cfg.usage then
    r.onCore (fun s => (s.modUdb (fun d => { d with current :=
      [⟨s.rebooted, now, s.cfg.blur, r.countListeners⟩] })).ucommit)
  else r

/-- one firing of `expire()` -/
def expire (r : RSys) (now : Time) (fault : Bool) : RSys :=
  let old := now - expirationTicks
  let r0 := r.emit (.fired now old)
  let r1 :=
    if fault then r0.emit (.internal none "OperationalError")
    else match r0.pruneApps now old (r0.core.allApps) with
      | (r1, true) => r1
      | (r1, false) => r1.emit (.internal none "IndexError")
  r1.dumpStats now

/-! ### server_websocket.py -/

def handleBind (v : Variant) (r : RSys) (x : RConn) (t : Time) (app side impl version : Option String) : RSys :=
  -- `if self._app or self._side:` (the property is evaluated first)
  let r := match x.app with
    | some a => (r.appOf v x a).1
    | none => r
  if x.app.isSome ∨ (x.side.isSome ∧ x.side ≠ some "") then r.sendError x.id "already bound"
  else match app with
  | none => r.sendError x.id "bind requires 'appid'"
  | some a =>
    match side with
    | none => r.sendError x.id "bind requires 'side'"
    | some sd =>
      if v.cachedNs then
        -- self._app = self.factory.server.get_app(msg["appid"]); self._side = msg["side"]
        ((r.getApp a).1.updConn x.id (fun y => { y with app := some a, ns := some (r.getApp a).2, side := some sd })).onCore
          (·.logClientVersion a sd t impl version)
      else
        -- self._app_id = msg["appid"]; self._side = msg["side"]; self._app.log_client_version(…)
        ((r.updConn x.id (fun y => { y with app := some a, side := some sd })).getApp a).1.onCore
          (·.logClientVersion a sd t impl version)

def handleList (v : Variant) (r : RSys) (x : RConn) (app : String) : RSys :=
  match (r.appOf v x app).1.findNs (r.appOf v x app).2 with
  | none => (r.appOf v x app).1.dangling
  | some ns =>
    (r.appOf v x app).1.onCore (fun s =>
      s.send x.id (.nameplates
        (if s.cfg.allowList then (s.db.namesOfApp ns.app).mergeSort (fun a b => decide (a ≤ b)) else [])))

def handleAllocate (v : Variant) (r : RSys) (x : RConn) (app side : String) (t : Time) (pick : Nat)
    (draws : List Nat) (fresh : String) : RSys :=
  if x.didAllocate then r.sendError x.id "you already allocated one, don't be greedy"
  else
    let p := r.appOf v x app
    match p.1.findNs p.2 with
    | none => p.1.dangling
    | some ns =>
      match findAvailable (p.1.core.db.namesOfApp ns.app) pick draws with
      | none => p.1.internalErr x.id "ValueError"
      | some name =>
        match p.1.claimNameplate p.2 name side t fresh with
        | (r1, .ok _) => (r1.updConn x.id (fun y => { y with didAllocate := true })).send x.id (.allocated name)
        | (r1, .crowded) => r1.internalErr x.id "CrowdedError"
        | (r1, .reclaimed) => r1.internalErr x.id "ReclaimedError"
        | (r1, .integrity) => r1.internalErr x.id "IntegrityError"

def handleClaim (v : Variant) (r : RSys) (x : RConn) (app side : String) (t : Time) (nameplate : Option String)
    (fresh : String) : RSys :=
  match nameplate with
  | none => r.sendError x.id "claim requires 'nameplate'"
  | some name =>
    if x.didClaim then r.sendError x.id "only one claim per connection"
    else
      let r0 := r.updConn x.id (fun y => { y with didClaim := true, nameplateId := some name })
      let p := r0.appOf v x app
      match p.1.claimNameplate p.2 name side t fresh with
      | (r1, .ok mb) => r1.send x.id (.claimed mb)
      | (r1, .crowded) => r1.sendError x.id "crowded"
      | (r1, .reclaimed) => r1.sendError x.id "reclaimed"
      | (r1, .integrity) => r1.internalErr x.id "IntegrityError"

def handleRelease (v : Variant) (r : RSys) (x : RConn) (app side : String) (t : Time) (nameplate : Option String) :
    RSys :=
  if x.didRelease then r.sendError x.id "only one release per connection"
  else
    let go (name : String) : RSys :=
      let r0 := r.updConn x.id (fun y => { y with didRelease := true })
      let p := r0.appOf v x app
      match p.1.findNs p.2 with
      | none => p.1.dangling
      | some ns =>
        match p.1.core.releaseNameplate ns.app name side t with
        | (c1, true) => ({ p.1 with core := c1 } : RSys).send x.id .released
        | (c1, false) => ({ p.1 with core := c1 } : RSys).internalErr x.id "IndexError"
    match nameplate, x.nameplateId with
    | some n, some held =>
      if n ≠ held then r.sendError x.id "release and claim must use same nameplate" else go n
    | some n, none => go n
    | none, some held => go held
    | none, none => r.sendError x.id "release without nameplate must follow claim"

def handleOpen (v : Variant) (r : RSys) (x : RConn) (app side : String) (t : Time) (mailbox : Option String) : RSys :=
  if x.mailbox.isSome then r.sendError x.id "only one open per connection"
  else match mailbox with
  | none => r.sendError x.id "open requires 'mailbox'"
  | some mb =>
    let r0 := r.updConn x.id (fun y => { y with mailboxId := some mb })
    let p := r0.appOf v x app
    match p.1.openMailbox p.2 mb side t with
    | (r1, .crowded, _) => r1.sendError x.id "crowded"
    | (r1, .integrity, _) => r1.internalErr x.id "IntegrityError"
    | (r1, .ok, o) =>
      -- self._mailbox = …; self._listening = True; self._mailbox.add_listener(self, _send, _stop)
      let r2 := (r1.updConn x.id (fun y => { y with mailbox := some o, listening := true })).addListener o x.id
      -- `add_listener` returns `self.get_messages()`
      match r2.findMb o with
      | none => r2.dangling
      | some obj => r2.onCore (·.replay x.id obj.app obj.mailboxId)

/-- `Mailbox.broadcast_message`: one frame per listener, in dict order -/
def broadcast (r : RSys) (ls : List Nat) (f : Frame) : RSys := ls.foldl (fun r c => r.send c f) r

def handleAdd (r : RSys) (x : RConn) (side : String) (t : Time) (id : Val) (phase body : Option Val) : RSys :=
  match x.mailbox with
  | none => r.sendError x.id "must open mailbox before adding"
  | some o =>
    match phase with
    | none => r.sendError x.id "missing 'phase'"
    | some ph =>
      match body with
      | none => r.sendError x.id "missing 'body'"
      | some bd =>
        -- self._mailbox.add_message(sm)
        match r.findMb o with
        | none => r.dangling
        | some obj =>
          (r.onCore (·.addMessage obj.app obj.mailboxId side ph bd t id)).broadcast obj.listeners
            (.message side ph bd t id)

def handleClose (v : Variant) (r : RSys) (x : RConn) (app side : String) (t : Time) (mailbox : Option String)
    (mood : Option String) : RSys :=
  if x.didClose then r.sendError x.id "only one close per connection"
  else
    let go (mb : String) : RSys :=
      -- `if not self._mailbox: self._mailbox = self._app.open_mailbox(...)`
      let opened : RSys × OpenRes × Nat :=
        match x.mailbox with
        | some h => (r, .ok, h)
        | none =>
          let p := r.appOf v x app
          match p.1.openMailbox p.2 mb side t with
          | (r1, res, o) => (r1.updConn x.id (fun y => if res = .ok then { y with mailbox := some o } else y), res, o)
      match opened with
      | (r1, .crowded, _) => r1.sendError x.id "crowded"
      | (r1, .integrity, _) => r1.internalErr x.id "IntegrityError"
      | (r1, .ok, h) =>
        -- if self._listening: self._mailbox.remove_listener(self); self._listening = False
        -- self._did_close = True
        let r2 := ((if x.listening then r1.removeListener h x.id else r1)).updConn x.id
          (fun y => { y with listening := false, didClose := true })
        match r2.mailboxClose v h side mood t with
        | (r3, false) => r3.internalErr x.id "IndexError"
        | (r3, true) => (r3.updConn x.id (fun y => { y with mailbox := none })).send x.id .closed
    match mailbox, x.mailboxId with
    | some m, some held =>
      if m ≠ held then r.sendError x.id "open and close must use same mailbox" else go m
    | some m, none => go m
    | none, some held => go held
    | none, none => r.sendError x.id "close without mailbox must follow open"

/-- `onMessage` -/
def onMessage (v : Variant) (r : RSys) (c : Nat) (t : Time) (id : Val) (cmd : Cmd) : RSys :=
  match r.findConn c with
  | none => r
  | some x =>
    match cmd with
    | .noType => r.sendError c "missing 'type'"
    | cmd =>
      let r := r.send c (.ack id)
      match cmd with
      | .ping pv => r.onCore (·.handlePing c pv)
      | .bind a sd i vv => r.handleBind v x t a sd i vv
      | cmd =>
        match x.app with
        | none => r.sendError c "must bind first"
        | some app =>
          -- `if not self._app:` evaluates the property
          let r := (r.appOf v x app).1
          let side := x.side.getD ""
          match cmd with
          | .list => r.handleList v x app
          | .allocate pick draws fresh => r.handleAllocate v x app side t pick draws fresh
          | .claim n fresh => r.handleClaim v x app side t n fresh
          | .release n => r.handleRelease v x app side t n
          | .open_ m => r.handleOpen v x app side t m
          | .add ph bd => r.handleAdd x side t id ph bd
          | .close m mood => r.handleClose v x app side t m mood
          | _ => r.sendError c "unknown type"

/-- `onOpen` -/
def connect (r : RSys) (c : Nat) : RSys :=
  ({ r with conns := r.conns ++ [({ id := c } : RConn)] } : RSys).send c (.welcome r.core.cfg.welcome)

/-- `onClose`: `if self._mailbox and self._listening: self._mailbox.remove_listener(self)`;
    the connection object is gone afterwards -/
def dropConn (r : RSys) (c : Nat) : RSys :=
  match r.findConn c with
  | none => r
  | some x =>
    let r1 := match x.mailbox with
      | some o => if x.listening then r.removeListener o c else r
      | none => r
    { r1 with conns := r1.conns.filter (fun y => ¬ y.id = c) }

/-- a new process on the files: no objects -/
def fresh (r : RSys) (core : Sys) : RSys :=
  { core := core, conns := [], apps := [], nss := [], mbs := [], nextOid := r.nextOid }

def restart (r : RSys) (t : Time) : RSys := r.fresh (r.core.restart t)

def crashTo (r : RSys) (p : Chan × Usage) : RSys := r.fresh (r.core.crashTo p)

def stepPlain (v : Variant) (r : RSys) : Op → RSys
  | .connect c => r.connect c
  | .recv c t id cmd => r.onMessage v c t id cmd
  | .drop c => r.dropConn c
  | .sweep now fault => r.expire now fault
  | .restart t => r.restart t
  | .crashIn _ _ => r

/-- one operation of variant `v`; `core.out` and `core.snaps` are those of this step only -/
def stepV (v : Variant) (r : RSys) (op : Op) : RSys :=
  let r0 := r.onCore (fun s => { s with out := [], snaps := [] })
  match op with
  | .crashIn k op' =>
    let r1 := r0.stepPlain v op'
    match k, r1.core.snaps[k - 1]? with
    | 0, _ => (r0.crashTo (r0.core.disk, r0.core.udisk)).onCore (fun s => { s with out := [] })
    | _, some p => (r1.crashTo p).onCore (fun s => { s with out := Sys.cutAtCommit k r1.core.out })
    | _, none => r1.crashTo (r1.core.disk, r1.core.udisk)
  | op => r0.stepPlain v op

def runV (v : Variant) (r : RSys) : List Op → RSys × List Event
  | [] => (r, [])
  | op :: rest =>
    let r1 := r.stepV v op
    let (r2, tr) := runV v r1 rest
    (r2, r1.core.out ++ tr)

end RSys

/-- one operation of the server WITH its object registry (repaired tree) -/
def rstep (r : RSys) (op : Op) : RSys := r.stepV .fixed op
/-- a history; the trace is the concatenation of the steps' events -/
def rrun (r : RSys) (ops : List Op) : RSys × List Event := r.runV .fixed ops

/-- the server before repair 977dbc8: a connection keeps the namespace object it got at bind time -/
def rstepCached (r : RSys) (op : Op) : RSys := r.stepV .cached op
def rrunCached (r : RSys) (ops : List Op) : RSys × List Event := r.runV .cached ops

/-- the server before repair 26fcad5: the stop callback does nothing -/
def rstepNoStop (r : RSys) (op : Op) : RSys := r.stepV .noStop op
def rrunNoStop (r : RSys) (ops : List Op) : RSys × List Event := r.runV .noStop ops

end Wormhole
