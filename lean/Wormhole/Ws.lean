/-
  server_websocket.py: `onOpen`, `onMessage` with its handlers, `onClose`; and the
  operations a history is made of (connect, receive, drop, sweep, restart, crash).
-/
import Wormhole.Core

namespace Wormhole

/-- A received JSON object, classified the way `onMessage` and the handlers look at it.
    `none` in a field = the key is absent.  Extra keys are ignored by the code and are not
    represented. -/
inductive Cmd where
  | noType
  | unknown
  | ping (v : Option Val)
  | bind (app side : Option String) (impl version : Option String)
  | list
  | allocate (pick : Nat) (draws : List Nat) (fresh : String)
  | claim (nameplate : Option String) (fresh : String)
  | release (nameplate : Option String)
  | open_ (mailbox : Option String)
  | add (phase body : Option Val)
  | close (mailbox : Option String) (mood : Option String)
  deriving DecidableEq, Repr, Inhabited

inductive Op where
  | connect (c : Nat)
  /-- a message arrives on connection `c` at time `t`; `id` = `msg.get("id")` -/
  | recv (c : Nat) (t : Time) (id : Val) (cmd : Cmd)
  | drop (c : Nat)
  | sweep (now : Time) (fault : Bool)
  /-- the process is stopped and started again on the same files at time `t` -/
  | restart (t : Time)
  /-- the process dies right after the `k`-th effective commit of `op` (`k ≥ 1`; if `op`
      commits fewer times, right after `op`) -/
  | crashIn (k : Nat) (op : Op)
  deriving Repr, Inhabited

namespace Sys

/-- `raise Error(text)` caught in `onMessage` -/
def sendError (s : Sys) (c : Nat) (text : String) : Sys := s.send c (.error text)

def internalErr (s : Sys) (c : Nat) (cls : String) : Sys := s.emit (.internal (some c) cls)

def handlePing (s : Sys) (c : Nat) (v : Option Val) : Sys :=
  match v with
  | none => s.sendError c "ping requires 'ping'"
  | some v => s.send c (.pong v)

def handleBind (s : Sys) (x : Conn) (t : Time) (app side impl version : Option String) : Sys :=
  if x.app.isSome ∨ (x.side.isSome ∧ x.side ≠ some "") then s.sendError x.id "already bound"
  else match app with
  | none => s.sendError x.id "bind requires 'appid'"
  | some a =>
    match side with
    | none => s.sendError x.id "bind requires 'side'"
    | some sd =>
      (s.updConn x.id (fun y => { y with app := some a, side := some sd })).logClientVersion a sd t impl version

def handleList (s : Sys) (x : Conn) (app : String) : Sys :=
  let ids := if s.cfg.allowList then (s.db.namesOfApp app).mergeSort (fun a b => decide (a ≤ b)) else []
  s.send x.id (.nameplates ids)

def handleAllocate (s : Sys) (x : Conn) (app side : String) (t : Time) (pick : Nat) (draws : List Nat)
    (fresh : String) : Sys :=
  if x.didAllocate then s.sendError x.id "you already allocated one, don't be greedy"
  else match findAvailable (s.db.namesOfApp app) pick draws with
  | none => s.internalErr x.id "ValueError"
  | some name =>
    match s.claimNameplate app name side t fresh with
    | (s1, .ok _) => (s1.updConn x.id (fun y => { y with didAllocate := true })).send x.id (.allocated name)
    | (s1, .crowded) => s1.internalErr x.id "CrowdedError"
    | (s1, .reclaimed) => s1.internalErr x.id "ReclaimedError"
    | (s1, .integrity) => s1.internalErr x.id "IntegrityError"

def handleClaim (s : Sys) (x : Conn) (app side : String) (t : Time) (nameplate : Option String)
    (fresh : String) : Sys :=
  match nameplate with
  | none => s.sendError x.id "claim requires 'nameplate'"
  | some name =>
    if x.didClaim then s.sendError x.id "only one claim per connection"
    else
      let s0 := s.updConn x.id (fun y => { y with didClaim := true, nameplateId := some name })
      match s0.claimNameplate app name side t fresh with
      | (s1, .ok mb) => s1.send x.id (.claimed mb)
      | (s1, .crowded) => s1.sendError x.id "crowded"
      | (s1, .reclaimed) => s1.sendError x.id "reclaimed"
      | (s1, .integrity) => s1.internalErr x.id "IntegrityError"

def handleRelease (s : Sys) (x : Conn) (app side : String) (t : Time) (nameplate : Option String) : Sys :=
  if x.didRelease then s.sendError x.id "only one release per connection"
  else
    let go (name : String) : Sys :=
      let s0 := s.updConn x.id (fun y => { y with didRelease := true })
      match s0.releaseNameplate app name side t with
      | (s1, true) => s1.send x.id .released
      | (s1, false) => s1.internalErr x.id "IndexError"
    match nameplate, x.nameplateId with
    | some n, some held =>
      if n ≠ held then s.sendError x.id "release and claim must use same nameplate" else go n
    | some n, none => go n
    | none, some held => go held
    | none, none => s.sendError x.id "release without nameplate must follow claim"

/-- the replay of `handle_open`: `get_messages()` ordered by `server_rx` -/
def replay (s : Sys) (c : Nat) (app mb : String) : Sys :=
  ((s.db.messagesOf app mb).mergeSort (fun a b => decide (a.rx ≤ b.rx))).foldl
    (fun s m => s.send c (.message m.side m.phase m.body m.rx m.msgId)) s

def handleOpen (s : Sys) (x : Conn) (app side : String) (t : Time) (mailbox : Option String) : Sys :=
  if x.mailbox.isSome then s.sendError x.id "only one open per connection"
  else match mailbox with
  | none => s.sendError x.id "open requires 'mailbox'"
  | some mb =>
    let s0 := s.updConn x.id (fun y => { y with mailboxId := some mb })
    match s0.openMailbox app mb side t with
    | (s1, .crowded) => s1.sendError x.id "crowded"
    | (s1, .integrity) => s1.internalErr x.id "IntegrityError"
    | (s1, .ok) =>
      (s1.updConn x.id (fun y => { y with mailbox := some mb, listening := true })).replay x.id app mb

/-- `broadcast_message`: one frame per listener -/
def broadcast (s : Sys) (app mb : String) (f : Frame) : Sys :=
  (s.listeners app mb).foldl (fun s c => s.send c f) s

def handleAdd (s : Sys) (x : Conn) (app side : String) (t : Time) (id : Val) (phase body : Option Val) : Sys :=
  match x.mailbox with
  | none => s.sendError x.id "must open mailbox before adding"
  | some mb =>
    match phase with
    | none => s.sendError x.id "missing 'phase'"
    | some ph =>
      match body with
      | none => s.sendError x.id "missing 'body'"
      | some bd =>
        (s.addMessage app mb side ph bd t id).broadcast app mb (.message side ph bd t id)

def handleClose (s : Sys) (x : Conn) (app side : String) (t : Time) (mailbox : Option String)
    (mood : Option String) : Sys :=
  if x.didClose then s.sendError x.id "only one close per connection"
  else
    let go (mb : String) : Sys :=
      -- `if not self._mailbox: self._mailbox = open_mailbox(...)`
      let opened : Sys × OpenRes × String :=
        match x.mailbox with
        | some h => (s, .ok, h)
        | none =>
          match s.openMailbox app mb side t with
          | (s1, r) => (s1.updConn x.id (fun y => if r = .ok then { y with mailbox := some mb } else y), r, mb)
      match opened with
      | (s1, .crowded, _) => s1.sendError x.id "crowded"
      | (s1, .integrity, _) => s1.internalErr x.id "IntegrityError"
      | (s1, .ok, h) =>
        let s2 := s1.updConn x.id (fun y => { y with listening := false, didClose := true })
        match s2.mailboxClose app h side mood t with
        | (s3, false) => s3.internalErr x.id "IndexError"
        | (s3, true) => (s3.updConn x.id (fun y => { y with mailbox := none })).send x.id .closed
    match mailbox, x.mailboxId with
    | some m, some held =>
      if m ≠ held then s.sendError x.id "open and close must use same mailbox" else go m
    | some m, none => go m
    | none, some held => go held
    | none, none => s.sendError x.id "close without mailbox must follow open"

/-- `onMessage` -/
def onMessage (s : Sys) (c : Nat) (t : Time) (id : Val) (cmd : Cmd) : Sys :=
  match s.findConn c with
  | none => s
  | some x =>
    match cmd with
    | .noType => s.sendError c "missing 'type'"
    | cmd =>
      let s := s.send c (.ack id)
      match cmd with
      | .ping v => s.handlePing c v
      | .bind a sd i v => s.handleBind x t a sd i v
      | cmd =>
        match x.app with
        | none => s.sendError c "must bind first"
        | some app =>
          let side := x.side.getD ""
          match cmd with
          | .list => s.handleList x app
          | .allocate pick draws fresh => s.handleAllocate x app side t pick draws fresh
          | .claim n fresh => s.handleClaim x app side t n fresh
          | .release n => s.handleRelease x app side t n
          | .open_ m => s.handleOpen x app side t m
          | .add ph bd => s.handleAdd x app side t id ph bd
          | .close m mood => s.handleClose x app side t m mood
          | _ => s.sendError c "unknown type"

/-- `onOpen` -/
def connect (s : Sys) (c : Nat) : Sys :=
  ({ s with conns := s.conns ++ [({ id := c } : Conn)] } : Sys).send c (.welcome s.cfg.welcome)

/-- `onClose` (the listener is removed with the connection record) -/
def dropConn (s : Sys) (c : Nat) : Sys :=
  { s with conns := s.conns.filter (fun x => ¬ x.id = c) }

/-- stop and start again on the files -/
def restart (s : Sys) (t : Time) : Sys :=
  { s with db := s.disk, udb := s.udisk, conns := [], rebooted := t }

/-- the state left by a kill: the files as of snapshot `p`, no process state -/
def crashTo (s : Sys) (p : Chan × Usage) : Sys :=
  { s with db := p.1, disk := p.1, udb := p.2, udisk := p.2, conns := [] }

/-- the events of `out` up to and including the `k`-th commit -/
def cutAtCommit : Nat → List Event → List Event
  | 0, _ => []
  | _, [] => []
  | k + 1, .commit w :: rest => .commit w :: cutAtCommit k rest
  | k + 1, e :: rest => e :: cutAtCommit (k + 1) rest

def stepPlain (s : Sys) : Op → Sys
  | .connect c => s.connect c
  | .recv c t id cmd => s.onMessage c t id cmd
  | .drop c => s.dropConn c
  | .sweep now fault => s.expire now fault
  | .restart t => s.restart t
  | .crashIn _ _ => s

/-- one operation; `out` and `snaps` are those of this step only -/
def step (s : Sys) (op : Op) : Sys :=
  let s0 := { s with out := [], snaps := [] }
  match op with
  | .crashIn k op' =>
    let s1 := s0.stepPlain op'
    match k, s1.snaps[k - 1]? with
    | 0, _ => { (s0.crashTo (s0.disk, s0.udisk)) with out := [] }
    | _, some p => { (s1.crashTo p) with out := cutAtCommit k s1.out }
    | _, none => s1.crashTo (s1.disk, s1.udisk)
  | op => s0.stepPlain op

/-- a history from a state; the trace is the concatenation of the steps' events -/
def run (s : Sys) : List Op → Sys × List Event
  | [] => (s, [])
  | op :: rest =>
    let s1 := s.step op
    let (s2, tr) := run s1 rest
    (s2, s1.out ++ tr)

end Sys
end Wormhole
