/-
  A little functional language for the two pure functions of server.py that classify a retired nameplate / mailbox
  (`_summarize_nameplate_usage`, `_summarize_mailbox`), and its meaning.  `harness/translate_summ.py` regenerates the two
  bodies in this language on every run (GeneratedSumm.lean); `Tie/Summ.lean` proves them equal to `summarizeNameplate` /
  `summarizeMailbox` of Core.lean.

  Times are integers (ticks): Python's float `-`, `*`, `//` on the multiples of 1/8 s the harness uses are exact and equal
  to integer arithmetic on ticks (the standing assumption about time of the whole model); `self._blur_usage` reads as the
  blur interval in ticks, or `None` when no blur is in effect (`--blur-usage` absent or 0: both falsy).
  `e[i]` on a list that is too short raises `IndexError` (outcome `none`).  No Mathlib; executable.
-/
import Wormhole.Core

namespace Wormhole
namespace PySum

inductive SV where
  | none
  | int (i : Int)
  | str (s : String)
  | bool (b : Bool)
  | ints (l : List Int)
  | strs (l : List (Option String))
  deriving Repr, DecidableEq

inductive SE where
  | none_
  | int (i : Int)
  | str (s : String)
  | var (v : String)
  | param (p : String)                -- delete_time, pruned
  | blur                              -- self._blur_usage
  | sortedField (f : String)          -- sorted([row[f] for row in side_rows])
  | fieldList (f : String)            -- [row[f] for row in side_rows]
  | fieldIfTruthy (f : String)        -- [row[f] for row in side_rows if row.get(f)]
  | index (e : SE) (i : Nat)
  | len (e : SE)
  | sub (a b : SE) | mul (a b : SE) | floordiv (a b : SE)
  | gt (a b : SE) | eq (a b : SE)
  | inList (s : String) (e : SE)      -- "s" in e
  | ite (c t e : SE)                  -- t if c else e
  deriving Repr

inductive SS where
  | assign (v : String) (e : SE)
  | if_ (c : SE) (t e : List SS)
  | ret (fields : List (String × SE))
  deriving Repr

/-- one side row as the two functions see it: `row["added"]`, `row["mood"]` -/
structure SRow where
  added : Int
  mood : Option String

structure Inp where
  rows : List SRow
  deleteTime : Int
  pruned : Bool
  /-- the blur interval in ticks, when blurring is in effect -/
  blur : Option Int

def truthy : SV → Bool
  | .none => false
  | .int i => i ≠ 0
  | .str s => s ≠ ""
  | .bool b => b
  | .ints l => !l.isEmpty
  | .strs l => !l.isEmpty

def sortInts (l : List Int) : List Int := l.mergeSort (fun a b => decide (a ≤ b))

/-- `none` = an exception (`IndexError`, or an operation on values of the wrong kind) -/
def eval (inp : Inp) (env : List (String × SV)) : SE → Option SV
  | .none_ => some .none
  | .int i => some (.int i)
  | .str s => some (.str s)
  | .var v => env.lookup v
  | .param p => if p = "delete_time" then some (.int inp.deleteTime) else if p = "pruned" then some (.bool inp.pruned) else none
  | .blur => some (match inp.blur with | some b => .int b | Option.none => .none)
  | .sortedField f => if f = "added" then some (.ints (sortInts (inp.rows.map (·.added)))) else none
  | .fieldList f => if f = "mood" then some (.strs (inp.rows.map (·.mood))) else
      if f = "added" then some (.ints (inp.rows.map (·.added))) else none
  | .fieldIfTruthy f =>
      if f = "mood" then some (.strs ((inp.rows.map (·.mood)).filter (fun m => match m with | some s => s ≠ "" | Option.none => false)))
      else none
  | .index e i => match eval inp env e with
      | some (.ints l) => (l[i]?).map .int
      | _ => none
  | .len e => match eval inp env e with
      | some (.ints l) => some (.int l.length)
      | some (.strs l) => some (.int l.length)
      | _ => none
  | .sub a b => match eval inp env a, eval inp env b with
      | some (.int x), some (.int y) => some (.int (x - y))
      | _, _ => none
  | .mul a b => match eval inp env a, eval inp env b with
      | some (.int x), some (.int y) => some (.int (x * y))
      | _, _ => none
  | .floordiv a b => match eval inp env a, eval inp env b with
      | some (.int x), some (.int y) => if y = 0 then none else some (.int (x / y))
      | _, _ => none
  | .gt a b => match eval inp env a, eval inp env b with
      | some (.int x), some (.int y) => some (.bool (decide (x > y)))
      | _, _ => none
  | .eq a b => match eval inp env a, eval inp env b with
      | some x, some y => some (.bool (decide (x = y)))
      | _, _ => none
  | .inList s e => match eval inp env e with
      | some (.strs l) => some (.bool (l.contains (some s)))
      | _ => none
  | .ite c t e => match eval inp env c with
      | some v => if truthy v then eval inp env t else eval inp env e
      | Option.none => none

/-- the state of a run: the locals, and the returned record once `return` was reached -/
structure St where
  env : List (String × SV)
  ret : Option (List (String × SV))
  failed : Bool

def evalFields (inp : Inp) (env : List (String × SV)) : List (String × SE) → Option (List (String × SV))
  | [] => some []
  | (k, e) :: rest => match eval inp env e, evalFields inp env rest with
      | some v, some r => some ((k, v) :: r)
      | _, _ => none

mutual
  def execS (inp : Inp) (st : St) : SS → St
    | .assign v e => match eval inp st.env e with
        | some x => { st with env := (v, x) :: st.env }
        | Option.none => { st with failed := true }
    | .if_ c t e => match eval inp st.env c with
        | some x => if truthy x then execL inp st t else execL inp st e
        | Option.none => { st with failed := true }
    | .ret fields => match evalFields inp st.env fields with
        | some r => { st with ret := some r }
        | Option.none => { st with failed := true }
  def execL (inp : Inp) (st : St) : List SS → St
    | [] => st
    | p :: rest =>
      let st1 := execS inp st p
      if st1.failed || st1.ret.isSome then st1 else execL inp st1 rest
end

/-- the `Usage(started=…, waiting_time=…, total_time=…, result=…)` a body returns; `none` = it raised -/
def run (body : List SS) (inp : Inp) : Option (List (String × SV)) :=
  let st := execL inp { env := [], ret := Option.none, failed := false } body
  if st.failed then Option.none else st.ret

/-- the model's `Summary` as the keyword arguments of `Usage(…)` -/
def ofSummary (u : Summary) : List (String × SV) :=
  [("started", .int u.started), ("waiting_time", match u.waiting with | some w => .int w | Option.none => .none),
   ("total_time", .int u.total), ("result", .str u.result)]

/-- how `Sys.blurTime` applies a blur interval -/
def blurFn (b : Option Int) (t : Time) : Time := match b with | some B => B * (t / B) | Option.none => t

end PySum
end Wormhole
