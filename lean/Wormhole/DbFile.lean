/-
  Model of `database.py`: database *files* in a directory, creation, opening, upgrade.
  (Properties C19 and C20; the theorems are in `Props/C19.lean`, `Props/C20.lean`.)

  * A directory is a finite map `Path → Content`.  `Content` is either bytes that are not a
    database (`junk`; the zero-length file `junk []` is special: SQLite opens it as a database
    without any object), a truncated database file (`trunc`, what a half-finished
    `shutil.copy` leaves), or an SQLite database abstracted to
    (schema objects, rows of `version`, uninterpreted payload rows per table, foreign-key flag).
  * Every entry point of `database.py` is a LIST OF ATOMIC STEPS.  A machine state holds the
    directory (= everything that is durable), the open connection with the working copy of an
    open transaction (volatile), the Python local `version`, and the steps still to run.
    Control steps (`os.path.exists`, the `version < target` test, the upgrade loop,
    `get_schema`, `get_upgrader`) splice the steps of the chosen branch in front of the rest.
  * A crash after `k` steps is `runN k`: the directory of that state is what survives; the
    connection, an uncommitted transaction and the Python locals are lost.
  * Errors the code raises are explicit outcomes (`Status.failed e`), never defaulted.
  * The schema scripts come from `Wormhole.Generated` (regenerated from the SQL files on
    every run): one step per statement.

  What is assumed by the step semantics (trusted, see DESIGN.md §7): `os.rename` is atomic,
  `mkstemp` returns a fresh name, a statement in autocommit mode and a COMMIT are atomic and
  durable (SQLite rollback journal), an uncommitted transaction leaves the file as it was
  (the `-journal` side file is not modelled), `executescript` commits a pending transaction
  first and then runs the statements as written, `sqlite3.connect` reads nothing before the
  first statement that needs the schema (`PRAGMA foreign_key_check`).

  No Mathlib, executable definitions only.
-/
import Wormhole.Generated

namespace Wormhole.DbFile

abbrev Path := String

/-- a statement as produced by the translator: (kind, object, normalised text) -/
abbrev Stmt := String × String × String

def kind (s : Stmt) : String := s.1
def obj (s : Stmt) : String := s.2.1
def txt (s : Stmt) : String := s.2.2

/-- a value found in the `version` column -/
inductive VerVal where
  | int (i : Int)
  | null
  | text (s : String)
  deriving DecidableEq, Repr, Inhabited

/-- an uninterpreted payload row (the harness passes a digest of the table's rows) -/
abbrev Row := String

/-- an SQLite database file, abstracted -/
structure Db where
  /-- `sqlite_master`: the objects in creation order -/
  objects : List Stmt
  /-- rows of the `version` table in rowid order (meaningful when that table exists) -/
  version : List VerVal
  /-- rows of every other table -/
  payload : List (String × List Row)
  /-- `PRAGMA foreign_key_check` would report a problem -/
  fkBad : Bool
  deriving DecidableEq, Repr, Inhabited

def emptyDb : Db := { objects := [], version := [], payload := [], fkBad := false }

inductive Content where
  /-- bytes that are not a database; `junk []` is the zero-length file -/
  | junk (bytes : List UInt8)
  /-- a non-empty proper prefix of the bytes of a database file -/
  | trunc (of : Db)
  | db (d : Db)
  deriving DecidableEq, Repr, Inhabited

/-- what SQLite sees when it reads the file: a zero-length file is an empty database,
    other junk and truncated files are rejected ("file is not a database" / "malformed") -/
def Content.asDb : Content → Option Db
  | .junk [] => some emptyDb
  | .junk (_ :: _) => none
  | .trunc _ => none
  | .db d => some d

/-- an intermediate state of copying the file: about half of the bytes written -/
def Content.halfOf : Content → Content
  | .junk b => .junk (b.take (b.length / 2))
  | .trunc d => .trunc d
  | .db d => .trunc d

/-! ## Directories -/

def lookupP (p : Path) : List (Path × Content) → Option Content
  | [] => none
  | (q, c) :: r => if q = p then some c else lookupP p r

def eraseP (p : Path) : List (Path × Content) → List (Path × Content)
  | [] => []
  | (q, c) :: r => if q = p then eraseP p r else (q, c) :: eraseP p r

structure Dir where
  entries : List (Path × Content)
  deriving DecidableEq, Repr, Inhabited

def Dir.get (d : Dir) (p : Path) : Option Content := lookupP p d.entries
def Dir.erase (d : Dir) (p : Path) : Dir := ⟨eraseP p d.entries⟩
def Dir.set (d : Dir) (p : Path) (c : Content) : Dir := ⟨(p, c) :: eraseP p d.entries⟩
def Dir.has (d : Dir) (p : Path) : Bool := (d.get p).isSome

/-! ## SQL statements on the abstract database -/

inductive Err where
  /-- `database.DBError` -/
  | dbError
  /-- `sqlite3.OperationalError` escaping `_get_db` (no such table, table already exists …) -/
  | operationalError
  /-- `sqlite3.DatabaseError` outside `_open_db_connection` -/
  | databaseError
  /-- `TypeError` (`None["version"]`, `None < 2`, `'x' < 2`) -/
  | typeError
  | alreadyExists
  | doesntExist
  /-- `get_schema` found no resource file -/
  | resourceMissing
  /-- a statement kind the translator does not produce -/
  | unsupportedSql
  /-- the environment broke an assumption of the model (mkstemp name not fresh, file vanished
      under the process, step list exhausted): never reached in the theorems -/
  | envViolation
  deriving DecidableEq, Repr, Inhabited

def hasObj (d : Db) (name : String) : Bool := d.objects.any (fun o => obj o = name)
def hasTable (d : Db) (name : String) : Bool :=
  d.objects.any (fun o => kind o = "table" ∧ obj o = name)

def digitVal (c : Char) : Option Nat :=
  if c = '0' then some 0 else if c = '1' then some 1 else if c = '2' then some 2
  else if c = '3' then some 3 else if c = '4' then some 4 else if c = '5' then some 5
  else if c = '6' then some 6 else if c = '7' then some 7 else if c = '8' then some 8
  else if c = '9' then some 9 else none

def parseNatAux : List Char → Nat → Option Nat
  | [], acc => some acc
  | c :: r, acc => match digitVal c with
    | some v => parseNatAux r (acc * 10 + v)
    | none => none

/-- the decimal literal of an `insert` statement (the translator only allows `\d+`) -/
def parseNat (s : String) : Option Nat :=
  match s.toList with
  | [] => none
  | l => parseNatAux l 0

def isCreate (s : Stmt) : Bool := kind s = "table" ∨ kind s = "index"

/-- one SQL statement of a script applied to a database -/
def applyStmt (s : Stmt) (d : Db) : Except Err Db :=
  if isCreate s then
    -- tables and indexes share one name space in sqlite_master
    if hasObj d (obj s) then .error .operationalError
    else .ok { d with objects := d.objects ++ [s] }
  else if kind s = "deleteall" then
    if hasTable d (obj s) then
      if obj s = "version" then .ok { d with version := [] }
      else .ok { d with payload := d.payload.filter (fun e => ¬ e.1 = obj s) }
    else .error .operationalError
  else if kind s = "insert" then
    if hasTable d (obj s) then
      if obj s = "version" then
        match parseNat (txt s) with
        | some n => .ok { d with version := d.version ++ [.int n] }
        | none => .error .unsupportedSql
      else .ok { d with payload := d.payload ++ [(obj s, ["insert:" ++ txt s])] }
    else .error .operationalError
  else .error .unsupportedSql

/-- a script applied statement by statement (the pure content of `executescript`) -/
def runScript : List Stmt → Db → Except Err Db
  | [], d => .ok d
  | s :: r, d => match applyStmt s d with
    | .ok d' => runScript r d'
    | .error e => .error e

/-! ## The machine -/

structure Cfg where
  name : String
  target : Nat
  /-- `get_schema(name, target)`: `none` when the resource file does not exist -/
  schema : Option (List Stmt)
  /-- `get_upgrader(name, v)`: `none` when there is no such file (→ `ValueError` → `DBError`) -/
  upgrader : Int → Option (List Stmt)

structure Ctx where
  cfg : Cfg
  dbfile : Path
  /-- the name `mkstemp` returns in this run -/
  tmp : Path

inductive Step where
  -- control: `os.path.exists(dbfile)` in the three kinds of entry point
  | existsGetDb | existsCreateOnly | existsOpenOnly
  | mkstemp | closeFd
  | connect (main : Bool) | pragmaFkOn | fkCheck
  /-- `get_schema` + splice one `stmt` per schema statement -/
  | getSchema
  /-- one statement of a script: autocommit when no transaction is open, otherwise part of it -/
  | stmt (s : Stmt)
  | begin_
  /-- `INSERT INTO version (version) VALUES (target)` -/
  | insertVersion
  /-- the SQL statement `COMMIT` (an error when no transaction is open) -/
  | commit
  /-- `db.commit()`: COMMIT when a transaction is open, nothing otherwise -/
  | pyCommit
  | closeDb | rename
  | selectVersion
  /-- `if version < target_version: shutil.copy(...)` -/
  | cmpBackup
  | copyOpen | copyHalf | copyEnd
  /-- `while version < target_version` -/
  | loopHead
  /-- `get_upgrader` + splice `BEGIN; …; COMMIT;`, `db.commit()`, `version = version+1` -/
  | lookupUpgrader
  | bump
  /-- `if version != target_version: raise DBError` / `return db` -/
  | finalCheck
  | ret
  deriving DecidableEq, Repr, Inhabited

inductive Status where
  | running | ok | failed (e : Err)
  deriving DecidableEq, Repr, Inhabited

structure Conn where
  path : Path
  /-- working copy of the open transaction; lost in a crash -/
  tx : Option Db
  deriving DecidableEq, Repr, Inhabited

structure M where
  /-- durable -/
  dir : Dir
  /-- volatile from here on -/
  conn : Option Conn
  ver : Option VerVal
  todo : List Step
  status : Status
  deriving DecidableEq, Repr, Inhabited

/-! ### The procedures of `database.py` as step lists -/

/-- `_open_db_connection(path)` -/
def openConn (main : Bool) : List Step := [.connect main, .pragmaFkOn, .fkCheck]

/-- `_initialize_db_schema`: `getSchema` splices the schema statements (autocommit) after
    itself; then the implicit BEGIN of the Python driver, the INSERT, `db.commit()` -/
def initSchema : List Step := [.getSchema, .begin_, .insertVersion, .pyCommit]

/-- `_atomic_create_and_initialize_db` -/
def atomicCreate : List Step :=
  [.mkstemp, .closeFd] ++ openConn false ++ initSchema ++ [.closeDb, .rename] ++ openConn true

/-- the rest of `_get_db` once `db` is open -/
def getDbTail : List Step := [.selectVersion, .cmpBackup]

/-- `shutil.copy(dbfile, backup_fn)` in three observable stages -/
def copySteps : List Step := [.copyOpen, .copyHalf, .copyEnd]

/-- one turn of the upgrade loop for the script `up` -/
def upgradeTurn (up : List Stmt) : List Step :=
  [.begin_] ++ up.map .stmt ++ [.commit, .pyCommit, .bump, .loopHead]

inductive Entry where
  /-- `_get_db` = `create_or_upgrade_*_db` -/
  | getDb
  /-- `create_channel_db` / `create_usage_db` -/
  | createOnly
  /-- `open_existing_db` -/
  | openOnly
  deriving DecidableEq, Repr, Inhabited

def Entry.steps : Entry → List Step
  | .getDb => [.existsGetDb]
  | .createOnly => [.existsCreateOnly]
  | .openOnly => [.existsOpenOnly]

def start (e : Entry) (d : Dir) : M :=
  { dir := d, conn := none, ver := none, todo := e.steps, status := .running }

def backupPath (dbfile : Path) (v : Int) : Path := dbfile ++ "-backup-v" ++ toString v

/-! ### Step semantics -/

def M.fail (m : M) (e : Err) : M := { m with status := .failed e, todo := [], conn := none }

/-- the database the connection sees (its transaction's working copy, else the file) -/
def M.curDb (m : M) : Except Err Db :=
  match m.conn with
  | none => .error .envViolation
  | some c =>
    match c.tx with
    | some w => .ok w
    | none =>
      match m.dir.get c.path with
      | none => .error .envViolation
      | some content =>
        match content.asDb with
        | none => .error .databaseError
        | some d => .ok d

/-- write through the connection: into the transaction if one is open, else durable at once -/
def M.writeDb (m : M) (d : Db) : M :=
  match m.conn with
  | none => m.fail .envViolation
  | some c =>
    match c.tx with
    | some _ => { m with conn := some { c with tx := some d } }
    | none => { m with dir := m.dir.set c.path (.db d) }

def M.doCommit (m : M) (c : Conn) (w : Db) : M :=
  { m with dir := m.dir.set c.path (.db w), conn := some { c with tx := none } }

/-- execute step `s` in state `m` (whose `todo` no longer contains `s`) -/
def exec (cx : Ctx) (s : Step) (m : M) : M :=
  match s with
  | .existsGetDb =>
    if m.dir.has cx.dbfile then { m with todo := openConn true ++ getDbTail ++ m.todo }
    else { m with todo := atomicCreate ++ getDbTail ++ m.todo }
  | .existsCreateOnly =>
    if m.dir.has cx.dbfile then m.fail .alreadyExists
    else { m with todo := atomicCreate ++ [.ret] ++ m.todo }
  | .existsOpenOnly =>
    if m.dir.has cx.dbfile then { m with todo := openConn true ++ [.ret] ++ m.todo }
    else m.fail .doesntExist
  | .mkstemp =>
    if m.dir.has cx.tmp then m.fail .envViolation
    else { m with dir := m.dir.set cx.tmp (.junk []) }
  | .closeFd => m
  | .connect main =>
    let p := if main then cx.dbfile else cx.tmp
    -- sqlite3_open creates a zero-length file when there is none
    let dir := if m.dir.has p then m.dir else m.dir.set p (.junk [])
    { m with dir := dir, conn := some { path := p, tx := none } }
  | .pragmaFkOn =>
    match m.conn with
    | none => m.fail .envViolation
    | some _ => m
  | .fkCheck =>
    -- first statement that reads the file; errors are mapped to DBError
    match m.curDb with
    | .error .databaseError => m.fail .dbError
    | .error e => m.fail e
    | .ok d => if d.fkBad then m.fail .dbError else m
  | .getSchema =>
    match cx.cfg.schema with
    | none => m.fail .resourceMissing
    | some sch => { m with todo := sch.map .stmt ++ m.todo }
  | .stmt s =>
    match m.curDb with
    | .error e => m.fail e
    | .ok d =>
      match applyStmt s d with
      | .error e => m.fail e
      | .ok d' => m.writeDb d'
  | .begin_ =>
    match m.conn with
    | none => m.fail .envViolation
    | some c =>
      match c.tx with
      | some _ => m.fail .operationalError
      | none =>
        match m.curDb with
        | .error e => m.fail e
        | .ok d => { m with conn := some { c with tx := some d } }
  | .insertVersion =>
    match m.curDb with
    | .error e => m.fail e
    | .ok d =>
      if hasTable d "version" then
        m.writeDb { d with version := d.version ++ [.int cx.cfg.target] }
      else m.fail .operationalError
  | .commit =>
    match m.conn with
    | none => m.fail .envViolation
    | some c =>
      match c.tx with
      | none => m.fail .operationalError
      | some w => m.doCommit c w
  | .pyCommit =>
    match m.conn with
    | none => m.fail .envViolation
    | some c =>
      match c.tx with
      | none => m
      | some w => m.doCommit c w
  | .closeDb => { m with conn := none }
  | .rename =>
    match m.dir.get cx.tmp with
    | none => m.fail .envViolation
    | some c => { m with dir := (m.dir.erase cx.tmp).set cx.dbfile c }
  | .selectVersion =>
    match m.curDb with
    | .error e => m.fail e
    | .ok d =>
      if hasTable d "version" then
        match d.version with
        | [] => m.fail .typeError            -- fetchone() is None
        | v :: _ => { m with ver := some v }
      else m.fail .operationalError          -- no such table: version
  | .cmpBackup =>
    match m.ver with
    | some (.int i) =>
      if i < (cx.cfg.target : Int) then { m with todo := copySteps ++ [.loopHead] ++ m.todo }
      else { m with todo := [.loopHead] ++ m.todo }
    | some _ => m.fail .typeError            -- None < 2, 'x' < 2
    | none => m.fail .envViolation
  | .copyOpen =>
    match m.ver, m.dir.get cx.dbfile with
    | some (.int i), some _ => { m with dir := m.dir.set (backupPath cx.dbfile i) (.junk []) }
    | _, _ => m.fail .envViolation
  | .copyHalf =>
    match m.ver, m.dir.get cx.dbfile with
    | some (.int i), some c => { m with dir := m.dir.set (backupPath cx.dbfile i) c.halfOf }
    | _, _ => m.fail .envViolation
  | .copyEnd =>
    match m.ver, m.dir.get cx.dbfile with
    | some (.int i), some c => { m with dir := m.dir.set (backupPath cx.dbfile i) c }
    | _, _ => m.fail .envViolation
  | .loopHead =>
    match m.ver with
    | some (.int i) =>
      if i < (cx.cfg.target : Int) then { m with todo := [.lookupUpgrader] ++ m.todo }
      else { m with todo := [.finalCheck] ++ m.todo }
    | _ => m.fail .envViolation
  | .lookupUpgrader =>
    match m.ver with
    | some (.int i) =>
      match cx.cfg.upgrader (i + 1) with
      | none => m.fail .dbError
      | some up => { m with todo := upgradeTurn up ++ m.todo }
    | _ => m.fail .envViolation
  | .bump =>
    match m.ver with
    | some (.int i) => { m with ver := some (.int (i + 1)) }
    | _ => m.fail .envViolation
  | .finalCheck =>
    match m.ver with
    | some (.int i) =>
      if i = (cx.cfg.target : Int) then { m with status := .ok, todo := [] }
      else m.fail .dbError
    | _ => m.fail .envViolation
  | .ret => { m with status := .ok, todo := [] }

/-- one step of the machine; a halted machine stays as it is -/
def step1 (cx : Ctx) (m : M) : M :=
  match m.status with
  | .running =>
    match m.todo with
    | [] => m.fail .envViolation
    | s :: r => exec cx s { m with todo := r }
  | _ => m

/-- the state after `k` steps; `(runN cx k m).dir` is the directory a crash at that point
    leaves behind -/
def runN (cx : Ctx) : Nat → M → M
  | 0, m => m
  | k + 1, m => runN cx k (step1 cx m)

/-! ## Instantiation with the generated scripts -/

def schemaFile (name : String) (v : Nat) : String := name ++ "-v" ++ toString v ++ ".sql"
def upgraderFile (name : String) (v : Int) : String :=
  "upgrade-" ++ name ++ "-to-v" ++ toString v ++ ".sql"

def findScript (fn : String) : List (String × List Stmt) → Option (List Stmt)
  | [] => none
  | (n, s) :: r => if n = fn then some s else findScript fn r

/-- `get_schema` / `get_upgrader` look the file up among the scripts of the current tree -/
def cfgOf (name : String) (target : Nat) : Cfg :=
  { name := name, target := target,
    schema := findScript (schemaFile name target) Generated.scripts,
    upgrader := fun v => findScript (upgraderFile name v) Generated.scripts }

def channelCfg : Cfg := cfgOf "channel" Generated.channelTarget
def usageCfg : Cfg := cfgOf "usage" Generated.usageTarget

/-- what a freshly created database of this configuration is -/
def complete (cfg : Cfg) (sch : List Stmt) : Db :=
  { objects := sch, version := [.int cfg.target], payload := [], fkBad := false }

/-- a schema script the creation procedure can run: only CREATE statements, pairwise distinct
    object names, and a `version` table -/
def scriptOk (sch : List Stmt) : Bool :=
  sch.all isCreate ∧ (sch.map obj).Pairwise (fun a b => ¬ a = b) ∧
  sch.any (fun o => kind o = "table" ∧ obj o = "version")

/-- data-changing statements of the script touch only the `version` table -/
def dmlOnlyVersion (up : List Stmt) : Bool :=
  up.all (fun s => isCreate s ∨ ((kind s = "deleteall" ∨ kind s = "insert") ∧ obj s = "version"))

/-- set equality of object lists -/
def sameObjs (a b : List Stmt) : Bool := a.all (fun o => o ∈ b) ∧ b.all (fun o => o ∈ a)

/-! ## Observation (driver, harness): labels of the steps a tracer of the real code can see -/

def showStmt (s : Stmt) : String := kind s ++ "|" ++ obj s ++ "|" ++ txt s

/-- label of the head step of `m`, `none` for steps without an observable call -/
def stepLabel (cx : Ctx) (m : M) : Option String :=
  match m.status, m.todo with
  | .running, s :: _ =>
    match s with
    | .existsGetDb | .existsCreateOnly | .existsOpenOnly => some "exists"
    | .mkstemp => some "mkstemp"
    | .closeFd => some "osclose"
    | .connect true => some "connect:main"
    | .connect false => some "connect:tmp"
    | .pragmaFkOn => some "sql:pragma_fk_on"
    | .fkCheck => some "sql:pragma_fk_check"
    | .stmt s => some ("sql:" ++ showStmt s)
    | .begin_ => some "sql:begin"
    | .insertVersion => some ("sql:insert|version|" ++ toString cx.cfg.target)
    | .commit => some "sql:commit"
    | .pyCommit =>
      match m.conn with
      | some { tx := some _, .. } => some "sql:commit"
      | _ => none
    | .closeDb => some "dbclose"
    | .rename => some "rename"
    | .selectVersion => some "sql:select_version"
    | .copyOpen => some "copy:open"
    | .copyHalf => some "copy:half"
    | .copyEnd => some "copy:end"
    | .getSchema | .cmpBackup | .loopHead | .lookupUpgrader | .bump | .finalCheck | .ret => none
  | _, _ => none

/-- run to the end (at most `fuel` steps), recording every executed step: its label and the
    state after it -/
def trace (cx : Ctx) : Nat → M → List (Option String × M)
  | 0, _ => []
  | fuel + 1, m =>
    match m.status with
    | .running =>
      let m' := step1 cx m
      (stepLabel cx m, m') :: trace cx fuel m'
    | _ => []

/-- run until the machine halts (at most `fuel` steps) -/
def runFuel (cx : Ctx) : Nat → M → M
  | 0, m => m
  | fuel + 1, m =>
    match m.status with
    | .running => runFuel cx fuel (step1 cx m)
    | _ => m

end Wormhole.DbFile
