/-
  The validation layer of server_websocket.py as data, and its meaning.

  `harness/translate_ws.py` turns the checks that `onMessage` and the `handle_*` functions perform
  before their first effect into lists of guards (GeneratedWs.lean, regenerated on every run).  This
  file says what such a list means on a connection record (`Conn`, the attributes of the
  `WebSocketServer` object) and a received JSON object (`JObj`), following Python:

  * `"k" in msg`, `msg["k"]` on the dict `json.loads` built (`jget`: the last occurrence of a key wins);
  * truthiness: `None`, `False`, `""`, `0` and empty containers are falsy, everything else is truthy;
    `self._app` is the `AppNamespace` object of a bound connection (truthy) or `None`;
    `self._mailbox` is a `Mailbox` object (truthy) or `None`;
  * `a or b` is `a` if `a` is truthy, else `b`;
  * `==` / `!=` between a JSON string and a Python string compares the text; values of different kinds
    are unequal.
  No Mathlib; executable.
-/
import Wormhole.Decode

namespace Wormhole
namespace WsGuards

/-- an expression of a check -/
inductive GE where
  | attr (a : String)          -- self.<a>
  | item (k : String)          -- msg["k"]
  | lit (s : String)           -- a string constant
  | or_ (a b : GE)
  deriving Repr, DecidableEq

inductive Cond where
  | has (k : String)           -- "k" in msg
  | notHas (k : String)        -- "k" not in msg
  | truthy (e : GE)
  | falsy (e : GE)
  | isNone (e : GE)
  | notNone (e : GE)
  | ne (a b : GE)
  | eq (a b : GE)
  deriving Repr, DecidableEq

/-- `if <all conds>: raise Error(text)` -/
structure Guard where
  conds : List Cond
  text : String
  deriving Repr, DecidableEq

/-- one statement of `onMessage`'s try block -/
inductive Item where
  | guard (g : Guard)
  | ack
  | dispatch (ty : String) (handler : String)
  deriving Repr, DecidableEq

/-- a Python value as far as the checks can tell values apart -/
inductive PV where
  | none
  | bool (b : Bool)
  | str (s : String)
  | obj                        -- an object that is always truthy (AppNamespace, Mailbox)
  | json (v : JVal)            -- a value of the received object that is not a string
  deriving Repr, DecidableEq

def ofOptStr : Option String → PV
  | some s => .str s
  | Option.none => .none

/-- `msg[k]` (a JSON string is a Python string) -/
def ofJson : JVal → PV
  | .str s => .str s
  | .null => .none
  | .bool b => .bool b
  | v => .json v

/-- the attributes of the `WebSocketServer` object; an unknown name reads as `None` -/
def attrOf (x : Conn) (a : String) : PV :=
  if a = "_app" then (if x.app.isSome then .obj else .none)
  else if a = "_app_id" then ofOptStr x.app
  else if a = "_side" then ofOptStr x.side
  else if a = "_did_allocate" then .bool x.didAllocate
  else if a = "_listening" then .bool x.listening
  else if a = "_did_claim" then .bool x.didClaim
  else if a = "_nameplate_id" then ofOptStr x.nameplateId
  else if a = "_did_release" then .bool x.didRelease
  else if a = "_mailbox" then (if x.mailbox.isSome then .obj else .none)
  else if a = "_mailbox_id" then ofOptStr x.mailboxId
  else if a = "_did_close" then .bool x.didClose
  else .none

def isTruthy : PV → Bool
  | .none => false
  | .bool b => b
  | .str s => s ≠ ""
  | .obj => true
  | .json (.num i) => i ≠ 0
  | .json _ => true           -- arrays / objects / floats: `pair` and `other` stand for non-empty values only in checks

def GE.eval (x : Conn) (o : JObj) : GE → PV
  | .attr a => attrOf x a
  | .item k => match jget o k with | some v => ofJson v | Option.none => .none
  | .lit s => .str s
  | .or_ a b => if isTruthy (a.eval x o) then a.eval x o else b.eval x o

def Cond.holds (x : Conn) (o : JObj) : Cond → Bool
  | .has k => (jget o k).isSome
  | .notHas k => (jget o k).isNone
  | .truthy e => isTruthy (e.eval x o)
  | .falsy e => !isTruthy (e.eval x o)
  | .isNone e => e.eval x o = .none
  | .notNone e => e.eval x o ≠ .none
  | .ne a b => a.eval x o ≠ b.eval x o
  | .eq a b => a.eval x o = b.eval x o

def Guard.fires (x : Conn) (o : JObj) (g : Guard) : Bool := g.conds.all (·.holds x o)

/-- the first guard that fires -/
def firstGuard (x : Conn) (o : JObj) : List Guard → Option String
  | [] => none
  | g :: rest => if g.fires x o then some g.text else firstGuard x o rest

/-- `mtype == "<ty>"` for `mtype = msg["type"]` -/
def typeIs (o : JObj) (ty : String) : Bool := jget o "type" = some (.str ty)

/-- the error text with which the validation layer refuses object `o` on connection `x`, if it does:
    walk `onMessage`'s statements; a dispatch that matches hands over to the handler's guards -/
def reject (handlers : List (String × List Guard)) (x : Conn) (o : JObj) : List Item → Option String
  | [] => none
  | .guard g :: rest => if g.fires x o then some g.text else reject handlers x o rest
  | .ack :: rest => reject handlers x o rest
  | .dispatch ty h :: rest =>
    if typeIs o ty then firstGuard x o ((handlers.lookup h).getD []) else reject handlers x o rest

/-- is the `ack` sent before the refusal / the dispatch?  (the first item that decides comes after `.ack`) -/
def acked (handlers : List (String × List Guard)) (x : Conn) (o : JObj) : List Item → Bool
  | [] => false
  | .guard g :: rest => if g.fires x o then false else acked handlers x o rest
  | .ack :: _ => true
  | .dispatch ty _ :: rest => if typeIs o ty then false else acked handlers x o rest

end WsGuards
end Wormhole
