/-
  Well-formed histories and reachable states.

  The environment assumptions of the theorems live here, and only here:
  * connection ids are fresh at `connect` (Autobahn creates a new protocol object);
  * times never go back (`recv`, `sweep`, `restart` carry the server clock);
  * the id returned by `generate_mailbox_id()` (`fresh`) has never been seen before, in any
    role -- the model's rendering of "64 random bits do not collide and cannot be guessed";
  * a `crashIn` wraps a plain operation.
  `GSys` adds the two ghost components these conditions talk about (the latest time and
  the mailbox ids seen so far); they never influence `Sys.step`.
-/
import Wormhole.Inv.Defs

namespace Wormhole

/-- the time an operation carries -/
def Op.time? : Op → Option Time
  | .recv _ t _ _ => some t
  | .sweep now _ => some now
  | .restart t => some t
  | .crashIn _ op => op.time?
  | _ => none

/-- mailbox ids an operation mentions (generated or client-chosen) -/
def Cmd.mailboxIds : Cmd → List String
  | .allocate _ _ fresh => [fresh]
  | .claim _ fresh => [fresh]
  | .open_ (some m) => [m]
  | .close (some m) _ => [m]
  | _ => []

def Op.mailboxIds : Op → List String
  | .recv _ _ _ cmd => cmd.mailboxIds
  | .crashIn _ op => op.mailboxIds
  | _ => []

/-- the id `generate_mailbox_id()` would return in this operation, if it may be asked -/
def Op.fresh? : Op → Option String
  | .recv _ _ _ (.allocate _ _ fresh) => some fresh
  | .recv _ _ _ (.claim _ fresh) => some fresh
  | .crashIn _ op => op.fresh?
  | _ => none

structure GSys where
  sys : Sys
  /-- latest time seen -/
  clock : Time
  /-- every mailbox id mentioned so far -/
  used : List String

namespace GSys

def init (cfg : Cfg) (rb : Time) : GSys := ⟨{ cfg := cfg, rebooted := rb }, rb, []⟩

def step (g : GSys) (op : Op) : GSys :=
  ⟨g.sys.step op, (match op.time? with | some t => t | none => g.clock), g.used ++ op.mailboxIds⟩

/-- well-formedness of one operation in a ghost state -/
structure WFOp (g : GSys) (op : Op) : Prop where
  /-- a new connection gets an id no live connection has -/
  connFresh : ∀ c, op = .connect c → ∀ x ∈ g.sys.conns, x.id ≠ c
  /-- time does not go back -/
  mono : ∀ t, op.time? = some t → g.clock ≤ t
  /-- generated mailbox ids are new -/
  idFresh : ∀ f, op.fresh? = some f → f ∉ g.used
  /-- `crashIn` wraps a plain operation and never a connect of a used id -/
  crashPlain : ∀ k op', op = .crashIn k op' → op'.isCrash = false ∧
    (∀ c, op' = .connect c → ∀ x ∈ g.sys.conns, x.id ≠ c)

def run (g : GSys) : List Op → GSys
  | [] => g
  | op :: rest => (g.step op).run rest

/-- every operation of the list is well-formed in the state it is applied to -/
def WF (g : GSys) : List Op → Prop
  | [] => True
  | op :: rest => g.WFOp op ∧ (g.step op).WF rest

/-- states reachable by well-formed histories (crashes allowed) -/
inductive Reach : GSys → Prop
  | init (cfg : Cfg) (rb : Time) : Reach (GSys.init cfg rb)
  | step {g : GSys} (op : Op) : Reach g → g.WFOp op → Reach (g.step op)

/-- states reachable by well-formed crash-free histories -/
inductive ReachCF : GSys → Prop
  | init (cfg : Cfg) (rb : Time) : ReachCF (GSys.init cfg rb)
  | step {g : GSys} (op : Op) : ReachCF g → g.WFOp op → op.isCrash = false → ReachCF (g.step op)

theorem ReachCF.reach {g : GSys} (h : ReachCF g) : Reach g := by
  induction h with
  | init cfg rb => exact .init cfg rb
  | step op _ hw _ ih => exact .step op ih hw

theorem reach_run {g : GSys} (hg : Reach g) : ∀ (ops : List Op), g.WF ops → Reach (g.run ops) := by
  intro ops
  induction ops generalizing g with
  | nil => intro _; exact hg
  | cons op rest ih => intro h; exact ih (.step op hg h.1) h.2

theorem run_sys (g : GSys) (ops : List Op) : (g.run ops).sys = (g.sys.run ops).1 := by
  induction ops generalizing g with
  | nil => rfl
  | cons op rest ih => simp [run, Sys.run, ih, step]

end GSys
end Wormhole
