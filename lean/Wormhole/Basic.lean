/-
  Basic types of the model: JSON scalars as stored by SQLite, rows of the five
  channel tables (db-schemas/channel-v1.sql) and of the usage tables
  (db-schemas/usage-v2.sql).  No Mathlib; everything here is executable.

  Time is an integer number of *ticks* (the harness uses 8 ticks per second, so that
  every time Python sees is a dyadic float and float arithmetic is exact); the
  theorems never use the value 8.
-/
namespace Wormhole

abbrev Time := Int

/-- A JSON scalar as far as the server stores or echoes it. -/
inductive Val where
  | null
  | str (s : String)
  | int (i : Int)
  deriving DecidableEq, Repr, Inhabited

/-- What a column with TEXT affinity (declared VARCHAR) gives back for a stored value:
    integers come back as their decimal rendering (finding K-id-coercion). -/
def Val.toText : Val → Val
  | .int i => .str (toString i)
  | v => v

/-- `nameplates` -/
structure Nameplate where
  id : Nat
  app : String
  name : String
  mailbox : String
  deriving DecidableEq, Repr, Inhabited

/-- `nameplate_sides` -/
structure NpSide where
  npid : Nat
  claimed : Bool
  side : String
  added : Time
  deriving DecidableEq, Repr, Inhabited

/-- `mailboxes` -/
structure MailboxRow where
  app : String
  id : String
  updated : Time
  forNp : Bool
  deriving DecidableEq, Repr, Inhabited

/-- `mailbox_sides` -/
structure MbSide where
  mailbox : String
  opened : Bool
  side : String
  added : Time
  mood : Option String
  deriving DecidableEq, Repr, Inhabited

/-- `messages` -/
structure Message where
  app : String
  mailbox : String
  side : String
  phase : Val
  body : Val
  rx : Time
  msgId : Val
  deriving DecidableEq, Repr, Inhabited

/-- The channel database: five tables (rows in rowid order) and the AUTOINCREMENT
    counter of `nameplates.id`. -/
structure Chan where
  nameplates : List Nameplate := []
  npSides : List NpSide := []
  mailboxes : List MailboxRow := []
  mbSides : List MbSide := []
  messages : List Message := []
  nextNp : Nat := 1
  deriving DecidableEq, Repr, Inhabited

/-- usage `nameplates` -/
structure UNameplate where
  app : String
  started : Time
  waiting : Option Time
  total : Time
  result : String
  deriving DecidableEq, Repr, Inhabited

/-- usage `mailboxes` -/
structure UMailbox where
  app : String
  forNp : Bool
  started : Time
  total : Time
  waiting : Option Time
  result : String
  deriving DecidableEq, Repr, Inhabited

/-- usage `current` -/
structure UCurrent where
  rebooted : Time
  updated : Time
  blur : Option Nat
  conns : Nat
  deriving DecidableEq, Repr, Inhabited

/-- usage `client_versions` -/
structure UClient where
  app : String
  side : String
  time : Time
  impl : Option String
  version : Option String
  deriving DecidableEq, Repr, Inhabited

structure Usage where
  nameplates : List UNameplate := []
  mailboxes : List UMailbox := []
  current : List UCurrent := []
  clients : List UClient := []
  deriving DecidableEq, Repr, Inhabited

end Wormhole
