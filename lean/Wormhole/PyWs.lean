/-
  A small imperative language for the bodies of the `handle_*` methods of server_websocket.py, and its
  meaning on the model's state.

  `harness/translate_wsbody.py` turns the body of every handler that consists of the statement forms below
  into a `List PS` (GeneratedWsBody.lean, regenerated on every run; a handler that uses anything else -
  nested functions, loops, comprehensions - is emitted as `none` and stays tied by differential execution
  only).  `exec` runs such a body on a `Sys` for connection `c` and received object `msg`:

  * attributes of `self` are the fields of the connection's `Conn` record, read from and written to the
    CURRENT state (the object is live: `Mailbox.close` may reset `_mailbox` of other connections);
  * `raise Error(text)` ends the handler with `.error text`; an exception of class `cls` raised by a called
    method ends it with `.exc cls` unless an enclosing `try` has a handler for `cls`;
  * a call `self._app.m(…)` / `self._mailbox.m(…)` means the model's function for that method of server.py
    (`callMethod`: the one table that says which Core function a method name is, and in which order its
    arguments come); the random choices of the step (`pick`, `draws`, `fresh`) are inputs.
  No Mathlib; executable.
-/
import Wormhole.Decode

namespace Wormhole
namespace PyWs

/-- values of locals, attributes and arguments -/
inductive PV where
  | none
  | bool (b : Bool)
  | str (s : String)
  /-- an `AppNamespace` (the registered one of the connection's app) -/
  | app
  /-- a `Mailbox` object, by its mailbox id -/
  | handle (mb : String)
  /-- the connection object itself (`self` passed as a listener handle) -/
  | self
  /-- the receive time `server_rx` -/
  | time
  /-- a value of the received object that is not a string / null / bool -/
  | json (v : JVal)
  /-- a list / set of strings -/
  | strs (l : List String)
  /-- `[{k: x} for x in l]` -/
  | dicts (k : String) (l : List String)
  /-- a nested function of the handler, by name -/
  | fn (name : String)
  deriving Repr, DecidableEq

inductive PE where
  | none_ | true_ | false_
  | str (s : String)
  | self_
  | rx                                   -- server_rx
  | attr (a : String)                    -- self.<a>
  | local_ (v : String)
  | item (k : String)                    -- msg["k"]
  | get (k : String)                     -- msg.get("k")
  | getPair (k : String)                 -- msg.get("k", (None, None))
  | has (k : String)                     -- "k" in msg
  | not_ (e : PE)
  | or_ (a b : PE)
  | isNone (e : PE)
  | notNone (e : PE)
  | ne (a b : PE)
  | eq (a b : PE)
  | sorted (e : PE)                      -- sorted(e)
  | dictEach (k : String) (e : PE)       -- [{"k": v} for v in e]
  | fn (name : String)                   -- a nested function, by name
  deriving Repr, DecidableEq

inductive PS where
  | raise_ (text : String)
  | if_ (c : PE) (t e : List PS)
  | setAttr (a : String) (e : PE)
  | setLocal (v : String) (e : PE)
  | assert_
  | send (ty : String) (kw : List (String × PE))
  /-- `[target =] self.<recv>.<meth>(args)`; `into` = `(true, a)` for `self.a = …`, `(false, v)` for a local -/
  | call (into : Option (Bool × String)) (recv meth : String) (args : List PE)
  /-- `try: body except Cls: raise Error(text) …` (the only kind of handler the file has) -/
  | try_ (body : List PS) (handlers : List (String × String))
  /-- `def name(param): self.send(ty, k=param.<field>, …)` -/
  | defSend (name param ty : String) (kw : List (String × String))
  /-- `def name(): self.<a> = <e>; …` -/
  | defStop (name : String) (resets : List (String × PE))
  /-- `for var in self.<recv>.<meth>(args): fn(var)` -/
  | forCall (var recv meth : String) (args : List PE) (fn : String)
  deriving Repr

inductive Outcome where
  | running
  | error (text : String)
  | exc (cls : String)
  deriving Repr, DecidableEq

/-- the inputs of one step that are not part of the state -/
structure Ctx where
  c : Nat
  t : Time
  msg : JObj
  pick : Nat
  draws : List Nat
  fresh : String

/-- a nested function of a handler -/
inductive Closure where
  | send (param ty : String) (kw : List (String × String))
  | stop (resets : List (String × PE))
  deriving Repr, DecidableEq

structure St where
  s : Sys
  env : List (String × PV)
  out : Outcome
  fns : List (String × Closure) := []

def ofOptStr : Option String → PV
  | some s => .str s
  | Option.none => .none

def ofJson : JVal → PV
  | .str s => .str s
  | .null => .none
  | .bool b => .bool b
  | v => .json v

def getAttr (x : Conn) (a : String) : PV :=
  if a = "_app" then (if x.app.isSome then .app else .none)
  else if a = "_app_id" then ofOptStr x.app
  else if a = "_side" then ofOptStr x.side
  else if a = "_did_allocate" then .bool x.didAllocate
  else if a = "_listening" then .bool x.listening
  else if a = "_did_claim" then .bool x.didClaim
  else if a = "_nameplate_id" then ofOptStr x.nameplateId
  else if a = "_did_release" then .bool x.didRelease
  else if a = "_mailbox" then (match x.mailbox with | some m => .handle m | Option.none => .none)
  else if a = "_mailbox_id" then ofOptStr x.mailboxId
  else if a = "_did_close" then .bool x.didClose
  else .none

def PV.toOptStr : PV → Option String
  | .str s => some s
  | _ => Option.none

def PV.toBool : PV → Bool
  | .bool b => b
  | _ => false

def PV.toHandle : PV → Option String
  | .handle m => some m
  | _ => Option.none

/-- `self.<a> = v` (an unknown attribute name is ignored: the model's record has no such field) -/
def setAttr (x : Conn) (a : String) (v : PV) : Conn :=
  if a = "_app_id" then { x with app := v.toOptStr }
  else if a = "_side" then { x with side := v.toOptStr }
  else if a = "_did_allocate" then { x with didAllocate := v.toBool }
  else if a = "_listening" then { x with listening := v.toBool }
  else if a = "_did_claim" then { x with didClaim := v.toBool }
  else if a = "_nameplate_id" then { x with nameplateId := v.toOptStr }
  else if a = "_did_release" then { x with didRelease := v.toBool }
  else if a = "_mailbox" then { x with mailbox := v.toHandle }
  else if a = "_mailbox_id" then { x with mailboxId := v.toOptStr }
  else if a = "_did_close" then { x with didClose := v.toBool }
  else x

def isTruthy : PV → Bool
  | .none => false
  | .bool b => b
  | .str s => s ≠ ""
  | .json (.num i) => i ≠ 0
  | .strs l => !l.isEmpty
  | .dicts _ l => !l.isEmpty
  | _ => true

/-- `msg["k"]` / `msg.get("k")` (an absent key reads as `None`; `msg["k"]` is only evaluated after a presence check) -/
def getPV (o : JObj) (k : String) : PV :=
  match jget o k with
  | some v => ofJson v
  | Option.none => .none

def eval (x : Conn) (ctx : Ctx) (env : List (String × PV)) : PE → PV
  | .none_ => .none
  | .true_ => .bool true
  | .false_ => .bool false
  | .str s => .str s
  | .self_ => .self
  | .rx => .time
  | .attr a => getAttr x a
  | .local_ v => (env.lookup v).getD .none
  | .item k => getPV ctx.msg k
  | .get k => getPV ctx.msg k
  | .getPair k => match jget ctx.msg k with | some v => .json v | Option.none => .json (.pair .null .null)
  | .has k => .bool (jget ctx.msg k).isSome
  | .not_ e => .bool (!isTruthy (eval x ctx env e))
  | .or_ a b => if isTruthy (eval x ctx env a) then eval x ctx env a else eval x ctx env b
  | .isNone e => .bool (eval x ctx env e = .none)
  | .notNone e => .bool (eval x ctx env e ≠ .none)
  | .ne a b => .bool (eval x ctx env a ≠ eval x ctx env b)
  | .eq a b => .bool (eval x ctx env a = eval x ctx env b)
  | .sorted e => match eval x ctx env e with
    | .strs l => .strs (l.mergeSort (fun a b => decide (a ≤ b)))
    | v => v
  | .dictEach k e => match eval x ctx env e with
    | .strs l => .dicts k l
    | v => v
  | .fn name => .fn name

/-- the frame `self.send(ty, **kw)` hands to the transport -/
def mkFrame (ty : String) (kw : List (String × PV)) : Option Frame :=
  if ty = "pong" then
    match kw.lookup "pong" with
    | some (.str s) => some (.pong (.str s))
    | some .none => some (.pong .null)
    | some (.json (.num i)) => some (.pong (.int i))
    | _ => Option.none
  else if ty = "allocated" then (match kw.lookup "nameplate" with | some (.str n) => some (.allocated n) | _ => Option.none)
  else if ty = "claimed" then (match kw.lookup "mailbox" with | some (.str m) => some (.claimed m) | _ => Option.none)
  else if ty = "nameplates" then
    (match kw.lookup "nameplates" with | some (.dicts "id" l) => some (.nameplates l) | _ => Option.none)
  else if ty = "released" then some .released
  else if ty = "closed" then some .closed
  else Option.none

/-- what a called method returns / raises: `(state, returned value)` or an exception class -/
inductive CallRes where
  | ret (s : Sys) (v : PV)
  | raised (s : Sys) (cls : String)

/-- `client_version[0]`, `client_version[1]` as `log_client_version` reads them -/
def cvOf : PV → Option (Option String × Option String)
  | .json v => fieldCv (some v)
  | _ => Option.none

def callLogClientVersion (s : Sys) (ctx : Ctx) (app : String) : List PV → CallRes
  | [.time, .str side, cv] =>
    match cvOf cv with
    | some iv => .ret (s.logClientVersion app side ctx.t iv.1 iv.2) .none
    | Option.none => .raised s "TypeError"
  | _ => .raised s "TypeError"

def claimRes (name : String) (forAllocate : Bool) : Sys × Sys.ClaimRes → CallRes
  | (s1, .ok mb) => .ret s1 (.str (if forAllocate then name else mb))
  | (s1, .crowded) => .raised s1 "CrowdedError"
  | (s1, .reclaimed) => .raised s1 "ReclaimedError"
  | (s1, .integrity) => .raised s1 "IntegrityError"

def callAllocate (s : Sys) (ctx : Ctx) (app : String) : List PV → CallRes
  | [.str side, .time] =>
    match Sys.findAvailable (s.db.namesOfApp app) ctx.pick ctx.draws with
    | Option.none => .raised s "ValueError"
    | some name => claimRes name true (s.claimNameplate app name side ctx.t ctx.fresh)
  | _ => .raised s "TypeError"

def callClaim (s : Sys) (ctx : Ctx) (app : String) : List PV → CallRes
  | [.str name, .str side, .time] => claimRes name false (s.claimNameplate app name side ctx.t ctx.fresh)
  | _ => .raised s "TypeError"

def boolRes : Sys × Bool → CallRes
  | (s1, true) => .ret s1 .none
  | (s1, false) => .raised s1 "IndexError"

def callRelease (s : Sys) (ctx : Ctx) (app : String) : List PV → CallRes
  | [.str name, .str side, .time] => boolRes (s.releaseNameplate app name side ctx.t)
  | _ => .raised s "TypeError"

def openRes (mb : String) : Sys × Sys.OpenRes → CallRes
  | (s1, .ok) => .ret s1 (.handle mb)
  | (s1, .crowded) => .raised s1 "CrowdedError"
  | (s1, .integrity) => .raised s1 "IntegrityError"

def callOpen (s : Sys) (ctx : Ctx) (app : String) : List PV → CallRes
  | [.str mb, .str side, .time] => openRes mb (s.openMailbox app mb side ctx.t)
  | _ => .raised s "TypeError"

def callClose (s : Sys) (ctx : Ctx) (app : String) : Option String → List PV → CallRes
  | some h, [.str side, mood, .time] => boolRes (s.mailboxClose app h side mood.toOptStr ctx.t)
  | _, _ => .raised s "TypeError"

def PV.toVal? : PV → Option Val
  | .none => some .null
  | .str s => some (.str s)
  | .json (.num i) => some (.int i)
  | _ => Option.none

/-- `Mailbox.add_message(sm)` with `sm = SidedMessage(side, phase, body, server_rx, msg_id)` passed as its fields in
    the declared order of the namedtuple: store, then broadcast to the listeners -/
def callAddMessage (s : Sys) (ctx : Ctx) (app : String) : Option String → List PV → CallRes
  | some h, [.str side, ph, bd, .time, id] =>
    match ph.toVal?, bd.toVal?, id.toVal? with
    | some p, some b, some i =>
      .ret ((s.addMessage app h side p b ctx.t i).broadcast app h (.message side p b ctx.t i)) .none
    | _, _, _ => .raised s "TypeError"
  | _, _ => .raised s "TypeError"

/-- **the method table**: which function of the model a method of `AppNamespace` / `Mailbox` is, and the
    order of its arguments (server.py: `log_client_version(server_rx, side, client_version)`,
    `allocate_nameplate(side, when)`, `claim_nameplate(name, side, when)`, `release_nameplate(name, side,
    when)`, `open_mailbox(mailbox_id, side, when)`, `Mailbox.remove_listener(handle)`,
    `Mailbox.close(side, mood, when)`, `Mailbox.add_message(SidedMessage(side, phase, body, server_rx, msg_id))`).  `app` = the connection's app id (the namespace `self._app`
    resolves to), `held` = the mailbox of the `Mailbox` object `self._mailbox`. -/
def callMethod (s : Sys) (ctx : Ctx) (app : String) (held : Option String) (recv meth : String) (args : List PV) : CallRes :=
  if recv = "_app" ∧ meth = "log_client_version" then callLogClientVersion s ctx app args
  else if recv = "_app" ∧ meth = "allocate_nameplate" then callAllocate s ctx app args
  else if recv = "_app" ∧ meth = "claim_nameplate" then callClaim s ctx app args
  else if recv = "_app" ∧ meth = "release_nameplate" then callRelease s ctx app args
  else if recv = "_app" ∧ meth = "open_mailbox" then callOpen s ctx app args
  else if recv = "_mailbox" ∧ meth = "remove_listener" then
    -- the model has no listener table: a connection listens iff `_listening` and it holds the handle
    .ret s .none
  else if recv = "_mailbox" ∧ meth = "close" then callClose s ctx app held args
  else if recv = "_mailbox" ∧ meth = "add_message" then callAddMessage s ctx app held args
  else if recv = "_app" ∧ meth = "get_nameplate_ids" then
    -- `AppNamespace.get_nameplate_ids`: nothing when listing is disallowed
    (match args with
     | [] => .ret s (.strs (if s.cfg.allowList then s.db.namesOfApp app else []))
     | _ => .raised s "TypeError")
  else .raised s "AttributeError"

/-- the callbacks `handle_open` must hand to `Mailbox.add_listener` for the object-free model to be right:
    `_send(sm)` forwards the message's fields under the protocol's keys, `_stop()` drops the handle and the
    subscription (this IS `Sys.stopListeners` for one connection) -/
def expectedSend : Closure :=
  .send "sm" "message" [("side", "side"), ("phase", "phase"), ("body", "body"), ("server_rx", "server_rx"), ("id", "msg_id")]
def expectedStop : Closure := .stop [("_mailbox", .none_), ("_listening", .false_)]

/-- `for sm in self._mailbox.add_listener(self, send_f, stop_f): send_f(sm)`: subscribe (in the model: the flags the
    handler sets) and replay the stored messages in `server_rx` order through `send_f` -/
def listenReplay (s : Sys) (ctx : Ctx) (app : String) (held : Option String) (fns : List (String × Closure))
    (args : List PV) (fn : String) : Sys × Outcome :=
  match held, args with
  | some mb, [.self, .fn sendName, .fn stopName] =>
    if sendName = fn ∧ fns.lookup sendName = some expectedSend ∧ fns.lookup stopName = some expectedStop then
      (s.replay ctx.c app mb, .running)
    else (s, .exc "ModelMismatch")
  | _, _ => (s, .exc "TypeError")

def St.conn (st : St) (ctx : Ctx) : Conn := (st.s.findConn ctx.c).getD { id := ctx.c }

mutual
  /-- one statement -/
  def execS (ctx : Ctx) (st : St) : PS → St
    | .raise_ text => { st with out := .error text }
    | .assert_ => st
    | .if_ c t e =>
      if isTruthy (eval (st.conn ctx) ctx st.env c) then execL ctx st t else execL ctx st e
    | .setAttr a e =>
      let v := eval (st.conn ctx) ctx st.env e
      { st with s := st.s.updConn ctx.c (fun y => setAttr y a v) }
    | .setLocal v e => { st with env := (v, eval (st.conn ctx) ctx st.env e) :: st.env }
    | .send ty kw =>
      match mkFrame ty (kw.map (fun p => (p.1, eval (st.conn ctx) ctx st.env p.2))) with
      | some f => { st with s := st.s.send ctx.c f }
      | Option.none => { st with out := .exc "TypeError" }
    | .call into recv meth args =>
      let x := st.conn ctx
      match x.app with
      | Option.none => { st with out := .exc "AttributeError" }
      | some app =>
        match callMethod st.s ctx app x.mailbox recv meth (args.map (eval x ctx st.env)) with
        | .raised s1 cls => { st with s := s1, out := .exc cls }
        | .ret s1 v =>
          match into with
          | Option.none => { st with s := s1 }
          | some (true, a) => { st with s := s1.updConn ctx.c (fun y => setAttr y a v) }
          | some (false, l) => { st with s := s1, env := (l, v) :: st.env }
    | .defSend name param ty kw => { st with fns := (name, .send param ty kw) :: st.fns }
    | .defStop name resets => { st with fns := (name, .stop resets) :: st.fns }
    | .forCall _ recv meth args fn =>
      let x := st.conn ctx
      match x.app with
      | Option.none => { st with out := .exc "AttributeError" }
      | some app =>
        if recv = "_mailbox" ∧ meth = "add_listener" then
          let r := listenReplay st.s ctx app x.mailbox st.fns (args.map (eval x ctx st.env)) fn
          { st with s := r.1, out := r.2 }
        else { st with out := .exc "AttributeError" }
    | .try_ body handlers =>
      let st1 := execL ctx st body
      match st1.out with
      | .exc cls =>
        match handlers.lookup cls with
        | some text => { st1 with out := .error text }
        | Option.none => st1
      | _ => st1
  /-- a block: stops at the first statement that raises -/
  def execL (ctx : Ctx) (st : St) : List PS → St
    | [] => st
    | p :: rest =>
      let st1 := execS ctx st p
      match st1.out with
      | .running => execL ctx st1 rest
      | _ => st1
end

/-- a handler body run from state `s`: what `onMessage` does with its outcome (`except Error as e:
    self.send("error", …)`; any other exception escapes) -/
def runHandler (body : List PS) (ctx : Ctx) (s : Sys) : Sys :=
  let st := execL ctx { s := s, env := [], out := .running } body
  match st.out with
  | .running => st.s
  | .error text => st.s.sendError ctx.c text
  | .exc cls => st.s.internalErr ctx.c cls

end PyWs
end Wormhole
