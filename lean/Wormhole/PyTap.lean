/-
  The periodic sweep of server_tap.makeService as data (`harness/translate_tap.py` -> GeneratedTap.lean, regenerated on
  every run) and its meaning on the model's state.  `time.time()` is the firing time `now` (an input of the step);
  `CHANNEL_EXPIRATION_TIME` / `EXPIRATION_CHECK_PERIOD` are the regenerated constants of Generated.lean;
  `server.prune_all_apps(now, old)` is `Sys.pruneApps … allApps`, with `fault` = "the first database access of this firing
  raises" (an `sqlite3.OperationalError`, a subclass of `Exception`); `server.dump_stats(now, rebooted=rebooted)` is
  `Sys.dumpStats` (the model keeps `rebooted` in the state).  No Mathlib; executable.
-/
import Wormhole.Core

namespace Wormhole
namespace PyTap

inductive TE where
  | clock                      -- time.time()
  | var (v : String)
  | const (c : String)         -- a module-level constant
  | outer (v : String)         -- a variable of the enclosing makeService
  | sub (a b : TE)
  deriving Repr, DecidableEq

inductive TS where
  | assign (v : String) (e : TE)
  | tryCall (meth : String) (args : List TE) (catches : String)
  | call (meth : String) (args : List TE) (kw : List (String × TE))
  deriving Repr, DecidableEq

def constVal (c : String) : Option Int :=
  if c = "CHANNEL_EXPIRATION_TIME" then some Generated.expirationTicks
  else if c = "EXPIRATION_CHECK_PERIOD" then some Generated.periodTicks
  else none

def eval (now : Time) (rebooted : Time) (env : List (String × Int)) : TE → Option Int
  | .clock => some now
  | .var v => env.lookup v
  | .const c => constVal c
  | .outer v => if v = "rebooted" then some rebooted else none
  | .sub a b => match eval now rebooted env a, eval now rebooted env b with
    | some x, some y => some (x - y)
    | _, _ => none

structure St where
  s : Sys
  env : List (String × Int)
  /-- an exception escaped `expire()` (the LoopingCall of the TimerService would stop) -/
  escaped : Bool

/-- exceptions a handler for class `cls` catches, among the two the model's sweep can raise
    (`sqlite3.OperationalError` from the faulted access, `IndexError` from a summary) -/
def catchesAll (cls : String) : Bool := cls = "Exception" || cls = "BaseException"

def execS (now : Time) (fault : Bool) (st : St) : TS → St
  | .assign v e => match eval now st.s.rebooted st.env e with
    | some x => { st with env := (v, x) :: st.env }
    | none => { st with escaped := true }
  | .tryCall meth args catches =>
    if meth = "prune_all_apps" then
      match args.map (eval now st.s.rebooted st.env) with
      | [some n, some o] =>
        -- the harness records every firing with the two numbers handed to prune_all_apps
        let s0 := st.s.emit (.fired n o)
        if fault then
          if catchesAll catches then { st with s := s0.emit (.internal none "OperationalError") } else { st with s := s0, escaped := true }
        else
          match s0.pruneApps n o s0.allApps with
          | (s1, true) => { st with s := s1 }
          | (s1, false) =>
            if catchesAll catches then { st with s := s1.emit (.internal none "IndexError") } else { st with s := s1, escaped := true }
      | _ => { st with escaped := true }
    else { st with escaped := true }
  | .call meth args kw =>
    if meth = "dump_stats" then
      match args.map (eval now st.s.rebooted st.env), kw.map (fun p => (p.1, eval now st.s.rebooted st.env p.2)) with
      | [some n], [("rebooted", some r)] => if r = st.s.rebooted then { st with s := st.s.dumpStats n } else { st with escaped := true }
      | _, _ => { st with escaped := true }
    else { st with escaped := true }

def execL (now : Time) (fault : Bool) : St → List TS → St
  | st, [] => st
  | st, p :: rest => let st1 := execS now fault st p; if st1.escaped then st1 else execL now fault st1 rest

/-- one firing of the generated `expire()` -/
def run (body : List TS) (s : Sys) (now : Time) (fault : Bool) : Sys × Bool :=
  let st := execL now fault { s := s, env := [], escaped := false } body
  (st.s, st.escaped)

end PyTap
end Wormhole
