/-
  Helpers for Props/C10b.lean (re-sending a command after a crash inside it).

  * the state a crash after the `k`-th commit (`k ≥ 1`) leaves: one of the snapshots of the
    uncrashed run or its final committed state (`step_crash_pos`);
  * `resend_ready`: restart, connect `c'`, bind `(a, σ)` from a crash state = the crash state plus
    one fresh bound connection (`DupReady`, Inv/DupStep.lean);
  * `claimNameplate_mid` / `claimNameplate_from_mid`: the ONE intermediate commit point `D1` of a
    successful `claim_nameplate` (after [mailbox +] nameplate + nameplate side, before the mailbox
    side), and the re-executed claim from `D1`;
  * `Chan.releaseDb`, `releaseNameplate_db`, `releaseDb_*`: `release_nameplate` as a function of the
    channel database, its commit points and its idempotence at each of them.
-/
import Wormhole.Inv.DupHist
import Wormhole.Inv.UsageTrack

namespace Wormhole
namespace Sys
open Sys.Np

/-! ### crash after at least one commit -/

theorem step_crash_pos (s : Sys) {k : Nat} (hk : 1 ≤ k) (op : Op) :
    ∃ p : Chan × Usage,
      (p ∈ (({ s with out := [], snaps := [] } : Sys).stepPlain op).snaps ∨
        p = ((({ s with out := [], snaps := [] } : Sys).stepPlain op).disk,
              (({ s with out := [], snaps := [] } : Sys).stepPlain op).udisk)) ∧
      (s.step (.crashIn k op)).db = p.1 ∧ (s.step (.crashIn k op)).disk = p.1 ∧
      (s.step (.crashIn k op)).udb = p.2 ∧ (s.step (.crashIn k op)).udisk = p.2 ∧
      (s.step (.crashIn k op)).conns = [] ∧ (s.step (.crashIn k op)).cfg = s.cfg := by
  have hcfg := stepPlain_cfg ({ s with out := [], snaps := [] } : Sys) op
  unfold Sys.step
  dsimp only
  split
  · omega
  · rename_i p _ hp
    exact ⟨p, Or.inl (List.mem_of_getElem? hp), rfl, rfl, rfl, rfl, rfl, hcfg⟩
  · exact ⟨_, Or.inr rfl, rfl, rfl, rfl, rfl, rfl, hcfg⟩

/-- the database a crash after the `k`-th commit (`k ≥ 1`) leaves satisfies every property of all
    commit points of the uncrashed run -/
theorem crash_db_of_dbAll {P : Chan → Prop} (s : Sys) {k : Nat} (hk : 1 ≤ k) (op : Op)
    (h : DbAll P (({ s with out := [], snaps := [] } : Sys).stepPlain op)) : P (s.step (.crashIn k op)).db := by
  obtain ⟨p, hp, e, _⟩ := step_crash_pos s hk op
  rw [e]
  rcases hp with hp | rfl
  · exact h.2 p hp
  · exact h.1

/-! ### restart, connect, bind -/

/-- the re-sent command's history: restart, a new connection `c'`, bind `(a, σ)`, the command -/
def resend (sk : Sys) (c' : Nat) (t : Time) (id₁ id : Val) (a σ : String) (impl ver : Option String)
    (cmd' : Cmd) : Sys :=
  (((sk.step (.restart t)).step (.connect c')).step (.recv c' t id₁ (.bind (some a) (some σ) impl ver))).step
    (.recv c' t id cmd')

theorem resend_eq_run (sk : Sys) (c' : Nat) (t : Time) (id₁ id : Val) (a σ : String) (impl ver : Option String)
    (cmd' : Cmd) :
    resend sk c' t id₁ id a σ impl ver cmd' =
      (sk.run [.restart t, .connect c', .recv c' t id₁ (.bind (some a) (some σ) impl ver), .recv c' t id cmd']).1 :=
  rfl

theorem resend_ready {sk : Sys} (hS : sk.Synced) (c' : Nat) (t : Time) (id₁ : Val)
    (a σ : String) (impl ver : Option String) :
    (sk.step (.restart t)).db = sk.db ∧ (sk.step (.restart t)).Synced ∧
    (sk.step (.restart t)).conns = [] ∧ (sk.step (.restart t)).cfg = sk.cfg ∧
    DupReady (sk.step (.restart t))
      (((sk.step (.restart t)).step (.connect c')).step (.recv c' t id₁ (.bind (some a) (some σ) impl ver)))
      c' a σ := by
  have h1 : (sk.step (.restart t)).db = sk.db := hS.1.symm
  have h2 : (sk.step (.restart t)).Synced := ⟨rfl, rfl⟩
  have h3 : (sk.step (.restart t)).conns = [] := rfl
  refine ⟨h1, h2, h3, rfl, ?_⟩
  exact (dup_prefix h2 (by rw [h3]; simp) a σ t id₁ impl ver).1

/-! ### `claim_nameplate`: the intermediate commit point -/

theorem find?_append_of_none {α : Type} {p : α → Bool} {l : List α} (h : l.find? p = none) (a : α)
    (ha : p a = true) : (l ++ [a]).find? p = some a := by
  rw [List.find?_append, h]
  simp [ha]

/-- **a successful `claim_nameplate` has one intermediate commit point `D1`** (nameplate row and
    the caller's claimed nameplate-side row present; the mailbox-side row not yet): the final database
    is `D1.npOpen m σ t`, every snapshot taken is `D1` or the final database -/
theorem claimNameplate_mid {s s1 : Sys} {a n σ : String} {t : Time} {fresh m : String} (hp : s.db.PInv)
    (hfresh : ∀ mm ∈ s.db.mailboxes, mm.id ≠ fresh)
    (h : s.claimNameplate a n σ t fresh = (s1, .ok m)) :
    ∃ D1 : Chan, ∃ row : Nameplate, D1.findNameplate a n = some row ∧ row.mailbox = m ∧
      (∃ r0, D1.findNpSide row.id σ = some r0 ∧ r0.claimed = true) ∧
      s1.db = D1.npOpen m σ t ∧ s1.db.npClaimRes row.id m = .ok m ∧
      SnapNew (fun d => d = D1 ∨ d = s1.db) s s1 := by
  cases hrow : s.db.findNameplate a n with
  | none =>
    have h1 : s.db.findMailbox a fresh = none := by
      simp only [Chan.findMailbox, List.find?_eq_none, decide_eq_true_eq, not_and]
      intro mm hm _; exact hfresh mm hm
    have h2 : s.db.findMailboxById fresh = none := by
      simp only [Chan.findMailboxById, List.find?_eq_none, decide_eq_true_eq]
      intro mm hm; exact hfresh mm hm
    have h3 : s.db.findNpSide s.db.nextNp σ = none := hp.bounded.findNpSide_fresh σ
    unfold claimNameplate addMailbox at h
    simp only [hrow, h1, h2] at h
    rw [claimTail_eq] at h
    have h3' : ((s.modDb (·.insMailbox ⟨a, fresh, t, true⟩)).modDb (·.insNameplate a n fresh)).db.findNpSide
        (s.modDb (·.insMailbox ⟨a, fresh, t, true⟩)).db.nextNp σ = none := h3
    rw [h3'] at h
    dsimp only at h
    have hm : (((s.modDb (·.insMailbox ⟨a, fresh, t, true⟩)).modDb (·.insNameplate a n fresh)).modDb
        (·.insNpSide ⟨(s.modDb (·.insMailbox ⟨a, fresh, t, true⟩)).db.nextNp, true, σ, t⟩)).db.findMailbox
          a fresh = some ⟨a, fresh, t, true⟩ := by
      simp only [modDb_db, Chan.findMailbox, Chan.insNpSide, Chan.insNameplate, Chan.insMailbox]
      simp only [Chan.findMailbox] at h1
      exact find?_append_of_none h1 _ (by simp)
    obtain ⟨e1, _, e3⟩ := claimCont_present hm h
    have hmf : m = fresh := Sys.Np.claimCont_ok h
    subst hmf
    refine ⟨(((s.modDb (·.insMailbox ⟨a, m, t, true⟩)).modDb (·.insNameplate a n m)).modDb
        (·.insNpSide ⟨(s.modDb (·.insMailbox ⟨a, m, t, true⟩)).db.nextNp, true, σ, t⟩)).db,
      ⟨s.db.nextNp, a, n, m⟩, ?_, rfl, ⟨⟨s.db.nextNp, true, σ, t⟩, ?_, rfl⟩, e1, e3.symm, ?_⟩
    · simp only [modDb_db, Chan.findNameplate, Chan.insNpSide, Chan.insNameplate, Chan.insMailbox]
      simp only [Chan.findNameplate] at hrow
      exact find?_append_of_none hrow _ (by simp)
    · simp only [modDb_db, Chan.findNpSide, Chan.insNpSide, Chan.insNameplate, Chan.insMailbox]
      simp only [Chan.findNpSide] at h3
      exact find?_append_of_none h3 _ (by simp)
    · refine claimCont_snapNew h ?_ (Or.inl rfl) (Or.inr rfl)
      exact (SnapNew.refl s).noCommit (((NoCommit.modDb _ _).trans (NoCommit.modDb _ _)).trans (NoCommit.modDb _ _))
  | some row =>
    obtain ⟨_, _, _, mrow, hmrow⟩ := findMailbox_of_findNameplate hp hrow
    unfold claimNameplate at h
    simp only [hrow] at h
    rw [claimTail_eq] at h
    cases hf : s.db.findNpSide row.id σ with
    | none =>
      rw [hf] at h
      dsimp only at h
      have hm : (s.modDb (·.insNpSide ⟨row.id, true, σ, t⟩)).db.findMailbox a row.mailbox = some mrow := hmrow
      obtain ⟨e1, _, e3⟩ := claimCont_present hm h
      have hmf : m = row.mailbox := Sys.Np.claimCont_ok h
      subst hmf
      refine ⟨(s.modDb (·.insNpSide ⟨row.id, true, σ, t⟩)).db, row, hrow, rfl, ⟨⟨row.id, true, σ, t⟩, ?_, rfl⟩,
        e1, e3.symm, ?_⟩
      · simp only [modDb_db, Chan.findNpSide, Chan.insNpSide]
        simp only [Chan.findNpSide] at hf
        exact find?_append_of_none hf _ (by simp)
      · exact claimCont_snapNew h ((SnapNew.refl s).noCommit (NoCommit.modDb _ _)) (Or.inl rfl) (Or.inr rfl)
    | some r0 =>
      rw [hf] at h
      dsimp only at h
      split at h
      · rename_i hc
        obtain ⟨e1, _, e3⟩ := claimCont_present hmrow h
        have hmf : m = row.mailbox := Sys.Np.claimCont_ok h
        subst hmf
        exact ⟨s.db, row, hrow, rfl, ⟨r0, hf, hc⟩, e1, e3.symm,
          claimCont_snapNew h (SnapNew.refl s) (Or.inl rfl) (Or.inr rfl)⟩
      · cases h

/-- **the claim re-executed from the intermediate commit point** completes it: same final database,
    same answer, whatever the generated id -/
theorem claimNameplate_from_mid {s' s2 : Sys} {a n σ : String} {t : Time} {f' m : String} {r' : ClaimRes}
    {D1 : Chan} {row : Nameplate} (hP : s'.db.PInv) (hdb : s'.db = D1)
    (hrow : D1.findNameplate a n = some row) (hm : row.mailbox = m)
    (hside : ∃ r0, D1.findNpSide row.id σ = some r0 ∧ r0.claimed = true)
    (hres : (D1.npOpen m σ t).npClaimRes row.id m = .ok m)
    (h : s'.claimNameplate a n σ t f' = (s2, r')) :
    s2.db = D1.npOpen m σ t ∧ r' = .ok m ∧ s2.conns = s'.conns := by
  subst hdb
  obtain ⟨r0, hr0, hcl⟩ := hside
  rcases claimNameplate_present hP hrow h with ⟨r1, h1, h2, _, _⟩ | ⟨_, e1, e2, e3⟩
  · rw [hr0] at h1; cases h1; rw [hcl] at h2; cases h2
  · have : s2.db = s'.db.npOpen m σ t := by
      rw [e1]; unfold Chan.npClaim; rw [hr0, hm]
    refine ⟨this, ?_, e2⟩
    rw [e3, this, hm]; exact hres

/-! ### `release_nameplate` as a function of the channel database -/

end Sys

/-- the channel database after `release_nameplate(a, n, σ)` -/
def Chan.releaseDb (d : Chan) (a n σ : String) : Chan :=
  match d.findNameplate a n with
  | none => d
  | some np =>
    match d.findNpSide np.id σ with
    | none => d
    | some _ =>
      if ((d.unclaim np.id σ).npSidesOf np.id).any (·.claimed) then d.unclaim np.id σ
      else ((d.unclaim np.id σ).delNpSidesOf np.id).delNameplate np.id

/-- the commit point of `release_nameplate` between its UPDATE and its DELETEs -/
def Chan.releaseMid (d : Chan) (a n σ : String) : Chan :=
  match d.findNameplate a n with
  | none => d
  | some np => d.unclaim np.id σ

namespace Sys
open Sys.Np

theorem releaseNameplate_db (s : Sys) (a n σ : String) (t : Time) :
    (s.releaseNameplate a n σ t).1.db = s.db.releaseDb a n σ := by
  obtain ⟨_, _, h⟩ := releaseNameplate_exact (s := s) (s1 := (s.releaseNameplate a n σ t).1)
    (b := (s.releaseNameplate a n σ t).2) (app := a) (name := n) (side := σ) (t := t) rfl
  unfold Chan.releaseDb
  rcases h with ⟨h1, h2⟩ | ⟨np, h1, h2, h3⟩ | ⟨np, r0, h1, h2, h3⟩
  · rw [h1, h2]
  · rw [h1]; dsimp only; rw [h2, h3]
  · rw [h1]; dsimp only; rw [h2]; dsimp only
    rcases h3 with ⟨ha, hd, _⟩ | ⟨ha, hd, _⟩
    · rw [if_pos ha]; exact hd
    · rw [if_neg (by rw [ha]; simp)]; exact hd

/-- the commit points of `release_nameplate`: the database before, `releaseMid`, `releaseDb` -/
theorem releaseNameplate_commit_points {s : Sys} (a n σ : String) (t : Time) {P : Chan → Prop}
    (hA : DbAll P s) (h1 : P (s.db.releaseMid a n σ)) (h2 : P (s.db.releaseDb a n σ)) :
    DbAll P (s.releaseNameplate a n σ t).1 := by
  have h2' : P (s.releaseNameplate a n σ t).1.db := by rw [releaseNameplate_db]; exact h2
  refine releaseNameplate_dbAll (s := s) (s1 := (s.releaseNameplate a n σ t).1) (app := a) (name := n) (side := σ)
    (t := t) (b := (s.releaseNameplate a n σ t).2) rfl hA ?_ h2'
  intro np hnp
  unfold Chan.releaseMid at h1
  rw [hnp] at h1
  exact h1

end Sys

namespace Chan

theorem findNameplate_unclaim (d : Chan) (i : Nat) (σ a n : String) :
    (d.unclaim i σ).findNameplate a n = d.findNameplate a n := rfl

theorem unclaim_eq_self_of_none {d : Chan} {i : Nat} {σ : String} (h : d.findNpSide i σ = none) :
    d.unclaim i σ = d := by
  have e : d.npSides.map (fun r => if r.npid = i ∧ r.side = σ then { r with claimed := false } else r) = d.npSides := by
    apply Chan.map_eq_self
    intro r hr
    simp only [findNpSide, List.find?_eq_none, decide_eq_true_eq] at h
    simp [h r hr]
  unfold unclaim
  rw [e]

/-- releasing again from the intermediate commit point completes the release -/
theorem releaseDb_releaseMid (d : Chan) (a n σ : String) :
    (d.releaseMid a n σ).releaseDb a n σ = d.releaseDb a n σ := by
  unfold releaseMid releaseDb
  cases hnp : d.findNameplate a n with
  | none => simp only [hnp]
  | some np =>
    dsimp only
    rw [findNameplate_unclaim, hnp]
    dsimp only
    rw [findNpSide_unclaim]
    cases hs : d.findNpSide np.id σ with
    | none => simp [unclaim_eq_self_of_none hs]
    | some r0 =>
      simp only [Option.map_some, unclaim_unclaim]

/-- releasing again from the final database changes nothing (needs the uniqueness of `(app, name)`) -/
theorem releaseDb_releaseDb {d : Chan} (hP : d.PInv) (a n σ : String) :
    (d.releaseDb a n σ).releaseDb a n σ = d.releaseDb a n σ := by
  cases hnp : d.findNameplate a n with
  | none =>
    have : d.releaseDb a n σ = d := by unfold releaseDb; rw [hnp]
    rw [this, this]
  | some np =>
    cases hs : d.findNpSide np.id σ with
    | none =>
      have : d.releaseDb a n σ = d := by unfold releaseDb; rw [hnp]; dsimp only; rw [hs]
      rw [this, this]
    | some r0 =>
      by_cases hany : ((d.unclaim np.id σ).npSidesOf np.id).any (·.claimed) = true
      · have e : d.releaseDb a n σ = d.unclaim np.id σ := by
          unfold releaseDb; rw [hnp]; dsimp only; rw [hs]; dsimp only; rw [if_pos hany]
        have e' : d.releaseDb a n σ = d.releaseMid a n σ := by
          rw [e]; unfold releaseMid; rw [hnp]
        rw [e', releaseDb_releaseMid, ← e']
      · have e : d.releaseDb a n σ = ((d.unclaim np.id σ).delNpSidesOf np.id).delNameplate np.id := by
          unfold releaseDb; rw [hnp]; dsimp only; rw [hs]; dsimp only; rw [if_neg hany]
        have hgone : (d.releaseDb a n σ).findNameplate a n = none := by
          rw [e]
          simp only [findNameplate, delNameplate, delNpSidesOf, unclaim, List.find?_eq_none, List.mem_filter,
            decide_not, Bool.not_eq_eq_eq_not, Bool.not_true, decide_eq_false_iff_not, decide_eq_true_eq, not_and,
            and_imp]
          intro r hr hne ha hn
          have hnpm : np ∈ d.nameplates := List.mem_of_find?_eq_some hnp
          have hk := List.find?_some hnp
          simp only [decide_eq_true_eq] at hk
          have : r = np := hP.np_eq_of_key hr hnpm (ha.trans hk.1.symm) (hn.trans hk.2.symm)
          exact hne (by rw [this])
        have hid : ∀ d' : Chan, d'.findNameplate a n = none → d'.releaseDb a n σ = d' := by
          intro d' h'; unfold releaseDb; rw [h']
        exact hid _ hgone

/-! ### `close` re-run from its commit points -/

/-- what `handle_close` does to the database on a connection without a handle: implicit
    `open_mailbox`, then `Mailbox.close` -/
def closeRun (d : Chan) (a m σ : String) (mood : Option String) (t : Time) : Chan :=
  (d.openDb a m σ t).closeDb a m σ mood

theorem closeRun_eq (d : Chan) (a m σ : String) (mood : Option String) (t : Time) :
    d.closeRun a m σ mood t =
      if d.OtherOpen m σ then (d.openDb a m σ t).closeSide m σ mood else d.dropMailbox a m := by
  unfold closeRun closeDb
  rw [if_pos ⟨openDb_hasBox _ _ _ _ _, openDb_findMbSide_ne_none _ _ _ _ _⟩]
  by_cases h : d.OtherOpen m σ
  · rw [if_pos ((otherOpen_openDb _ _ _ _ _).2 h), if_pos h]
  · rw [if_neg (fun h' => h ((otherOpen_openDb _ _ _ _ _).1 h')), if_neg h, dropMailbox_openDb]

theorem closeDb_of_box {d : Chan} {a m σ : String} {mood : Option String} (hb : d.HasBox a m)
    (hs : d.findMbSide m σ ≠ none) :
    d.closeDb a m σ mood = if d.OtherOpen m σ then d.closeSide m σ mood else d.dropMailbox a m := by
  unfold closeDb; rw [if_pos ⟨hb, hs⟩]

theorem dropMailbox_idem (d : Chan) (a m : String) : (d.dropMailbox a m).dropMailbox a m = d.dropMailbox a m := by
  unfold dropMailbox
  simp only [List.filter_filter, Bool.and_self]
  congr 1
  apply List.filter_congr
  intro r _
  simp
  intro h x hx _
  exact h x hx

theorem dropMailbox_not_otherOpen (d : Chan) (a m σ : String) : ¬ (d.dropMailbox a m).OtherOpen m σ := by
  rintro ⟨r, hr, hm, _⟩
  exact ((mem_dropMailbox_mbSides d a m).1 hr).2 hm

theorem touch_eq_self_of_noId {d : Chan} {m : String} (h : ∀ r ∈ d.mailboxes, r.id ≠ m) (t : Time) :
    d.touch m t = d := touch_eq_self (fun r hr e => absurd e (h r hr))

theorem dropMailbox_noId {d : Chan} (hids : d.mailboxes.Pairwise (fun a b => ¬ a.id = b.id)) {a m : String}
    (hb : d.HasBox a m) : ∀ r ∈ (d.dropMailbox a m).mailboxes, r.id ≠ m := by
  intro r hr e
  obtain ⟨hr0, hne⟩ := (mem_dropMailbox_mailboxes d a m).1 hr
  obtain ⟨b, hbm, hba, hbi⟩ := hb
  have : r = b := eq_of_key_eq (·.id) hids hr0 hbm (e.trans hbi.symm)
  exact hne ⟨this ▸ hba, e⟩

/-- **the re-run `close` from every commit point of a `close` gives the final database, up to the
    column `updated` of row `m`** (`pre`: the database at the entry of `Mailbox.close`) -/
theorem closeRun_points {pre : Chan} (hids : pre.mailboxes.Pairwise (fun a b => ¬ a.id = b.id)) {a m σ : String}
    (mood : Option String) (t : Time) (hb : pre.HasBox a m) (hs : pre.findMbSide m σ ≠ none) :
    pre.closeRun a m σ mood t = (pre.closeDb a m σ mood).touch m t ∧
    (pre.closeSide m σ mood).closeRun a m σ mood t = (pre.closeDb a m σ mood).touch m t ∧
    (pre.closeDb a m σ mood).closeRun a m σ mood t = (pre.closeDb a m σ mood).touch m t := by
  rw [closeDb_of_box hb hs]
  have hb' : (pre.closeSide m σ mood).HasBox a m := hb
  have hs' : (pre.closeSide m σ mood).findMbSide m σ ≠ none := closeSide_findMbSide_ne_none.2 hs
  by_cases ho : pre.OtherOpen m σ
  · rw [if_pos ho]
    have k1 : pre.closeRun a m σ mood t = (pre.closeSide m σ mood).touch m t := by
      rw [closeRun_eq, if_pos ho, openDb_eq_touch hids hb hs, closeSide_touch]
    have k2 : (pre.closeSide m σ mood).closeRun a m σ mood t = (pre.closeSide m σ mood).touch m t := by
      rw [closeRun_eq, if_pos (closeSide_otherOpen.2 ho), openDb_eq_touch (d := pre.closeSide m σ mood) hids hb' hs',
        closeSide_touch, closeSide_eq_self (closeSide_closed pre m σ mood)]
    exact ⟨k1, k2, k2⟩
  · rw [if_neg ho]
    have ht : (pre.dropMailbox a m).touch m t = pre.dropMailbox a m :=
      touch_eq_self_of_noId (dropMailbox_noId hids hb) t
    rw [ht]
    refine ⟨?_, ?_, ?_⟩
    · rw [closeRun_eq, if_neg ho]
    · rw [closeRun_eq, if_neg (fun h => ho (closeSide_otherOpen.1 h)), dropMailbox_closeSide]
    · rw [closeRun_eq, if_neg (dropMailbox_not_otherOpen pre a m σ), dropMailbox_idem]

/-- the number of side rows the crowding check of the re-run sees, at each commit point -/
theorem closeRun_sides {pre : Chan} {a m σ : String} (mood : Option String) (t : Time)
    (hs : pre.findMbSide m σ ≠ none) :
    ((pre.openDb a m σ t).mbSidesOf m).length = (pre.mbSidesOf m).length ∧
    (((pre.closeSide m σ mood).openDb a m σ t).mbSidesOf m).length = (pre.mbSidesOf m).length ∧
    (((pre.dropMailbox a m).openDb a m σ t).mbSidesOf m).length = 1 := by
  have hs' : (pre.closeSide m σ mood).findMbSide m σ ≠ none := closeSide_findMbSide_ne_none.2 hs
  obtain ⟨r, hr⟩ := Option.ne_none_iff_exists'.1 hs
  obtain ⟨r', hr'⟩ := Option.ne_none_iff_exists'.1 hs'
  refine ⟨?_, ?_, ?_⟩
  · rw [openDb_mbSidesOf, hr]; simp
  · rw [openDb_mbSidesOf, hr']; simp [closeSide_mbSidesOf_length]
  · have hn : (pre.dropMailbox a m).findMbSide m σ = none := by
      rw [findMbSide_eq_none]
      intro r hr hk
      exact ((mem_dropMailbox_mbSides pre a m).1 hr).2 hk.1
    rw [openDb_mbSidesOf, hn, dropMailbox_mbSidesOf_self]; simp

end Chan
end Wormhole
