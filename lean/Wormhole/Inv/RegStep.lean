/-
  `onMessage`, `onOpen`, `onClose`, restart and crash against the registry.
-/
import Wormhole.Inv.RegWs

set_option linter.unusedSimpArgs false

namespace Wormhole
namespace RSys

/-- `self._mailbox` is set exactly when `self._listening` (between operations; `Conn.Ok` on the `Sys` side) -/
def Coherent (r : RSys) : Prop := ∀ x ∈ r.conns, (x.mailbox.isSome = true ↔ x.listening = true)

theorem onMessage_spec {r : RSys} (h : r.RegInv) (hcoh : r.Coherent) (c : Nat) (t : Time) (id : Val) (cmd : Cmd) :
    (r.onMessage .fixed c t id cmd).RegInv ∧
    OutEq (r.onMessage .fixed c t id cmd).abs (r.abs.onMessage c t id cmd) := by
  unfold onMessage Sys.onMessage
  rw [findConn_abs]
  cases hfc : r.findConn c with
  | none => exact ⟨h, .refl _⟩
  | some x =>
    obtain ⟨hx, rfl⟩ := (findConn_eq_some h).1 hfc
    simp only [Option.map_some]
    have h1 : (r.send x.id (.ack id)).RegInv := h.send _ _
    have a1 : (r.send x.id (.ack id)).abs = r.abs.send x.id (.ack id) := rfl
    have hx1 : x ∈ (r.send x.id (.ack id)).conns := hx
    have m1 : (r.send x.id (.ack id)).mbs = r.mbs := rfl
    -- the commands that need a bound connection
    have bound : ∀ (R : RSys → String → RSys) (S : Sys → String → Sys),
        (∀ (r2 : RSys) (app : String), r2.RegInv → x ∈ r2.conns → r2.mbs = r.mbs → x.app = some app →
          (R r2 app).RegInv ∧ OutEq (R r2 app).abs (S r2.abs app)) →
        (match x.app with
          | none => (r.send x.id (.ack id)).sendError x.id "must bind first"
          | some app => R ((r.send x.id (.ack id)).appOf .fixed x app).1 app).RegInv ∧
        OutEq (match x.app with
          | none => (r.send x.id (.ack id)).sendError x.id "must bind first"
          | some app => R ((r.send x.id (.ack id)).appOf .fixed x app).1 app).abs
          (match x.app with
          | none => (r.abs.send x.id (.ack id)).sendError x.id "must bind first"
          | some app => S (r.abs.send x.id (.ack id)) app) := by
      intro R S hRS
      cases happ : x.app with
      | none => exact ⟨h1.sendError _ _, .refl _⟩
      | some app =>
        dsimp only
        rw [appOf_fixed]
        obtain ⟨j1, j2, j3, j4, _⟩ := getApp_spec h1 app
        have := hRS _ app j1 (by rw [j3]; exact hx1) (by rw [j4]; rfl) happ
        rw [j2] at this
        exact this
    cases cmd with
    | noType => exact ⟨h.sendError _ _, .refl _⟩
    | unknown =>
      simp only [absConn_app]
      exact bound (fun r2 _ => r2.sendError x.id "unknown type") (fun s2 _ => s2.sendError x.id "unknown type")
        (fun r2 app h2 _ _ _ => ⟨h2.sendError _ _, .refl _⟩)
    | ping v =>
      refine ⟨h1.onCore _, .of_eq ?_⟩
      rw [abs_onCore _ _ (by intro s cs; simp)]
      rfl
    | bind a sd i v =>
      obtain ⟨k1, k2⟩ := handleBind_spec h1 hx1 t a sd i v
      exact ⟨k1, .of_eq k2⟩
    | list =>
      simp only [absConn_app]
      exact bound (fun r2 app => r2.handleList .fixed x app) (fun s2 app => s2.handleList (absConn r.mbs x) app)
        (fun r2 app h2 _ hm _ => by
          obtain ⟨k1, k2⟩ := handleList_spec h2 x app
          rw [hm] at k2
          exact ⟨k1, .of_eq k2⟩)
    | allocate pick draws fresh =>
      simp only [absConn_app, absConn_side]
      exact bound (fun r2 app => r2.handleAllocate .fixed x app (x.side.getD "") t pick draws fresh)
        (fun s2 app => s2.handleAllocate (absConn r.mbs x) app (x.side.getD "") t pick draws fresh)
        (fun r2 app h2 _ hm _ => by
          obtain ⟨k1, k2⟩ := handleAllocate_spec h2 x app (x.side.getD "") t pick draws fresh
          rw [hm] at k2
          exact ⟨k1, .of_eq k2⟩)
    | claim n fresh =>
      simp only [absConn_app, absConn_side]
      exact bound (fun r2 app => r2.handleClaim .fixed x app (x.side.getD "") t n fresh)
        (fun s2 app => s2.handleClaim (absConn r.mbs x) app (x.side.getD "") t n fresh)
        (fun r2 app h2 _ hm _ => by
          obtain ⟨k1, k2⟩ := handleClaim_spec h2 x app (x.side.getD "") t n fresh
          rw [hm] at k2
          exact ⟨k1, .of_eq k2⟩)
    | release n =>
      simp only [absConn_app, absConn_side]
      exact bound (fun r2 app => r2.handleRelease .fixed x app (x.side.getD "") t n)
        (fun s2 app => s2.handleRelease (absConn r.mbs x) app (x.side.getD "") t n)
        (fun r2 app h2 _ hm _ => by
          obtain ⟨k1, k2⟩ := handleRelease_spec h2 x app (x.side.getD "") t n
          rw [hm] at k2
          exact ⟨k1, .of_eq k2⟩)
    | open_ m =>
      simp only [absConn_app, absConn_side]
      exact bound (fun r2 app => r2.handleOpen .fixed x app (x.side.getD "") t m)
        (fun s2 app => s2.handleOpen (absConn r.mbs x) app (x.side.getD "") t m)
        (fun r2 app h2 hx2 hm happ => by
          obtain ⟨k1, k2⟩ := handleOpen_spec h2 hx2 happ (x.side.getD "") t m
          rw [hm] at k2
          exact ⟨k1, .of_eq k2⟩)
    | add ph bd =>
      simp only [absConn_app, absConn_side]
      exact bound (fun r2 _ => r2.handleAdd x (x.side.getD "") t id ph bd)
        (fun s2 app => s2.handleAdd (absConn r.mbs x) app (x.side.getD "") t id ph bd)
        (fun r2 app h2 hx2 hm happ => by
          obtain ⟨k1, k2⟩ := handleAdd_spec h2 hx2 happ (fun e => (hcoh x hx).1 e) (x.side.getD "") t id ph bd
          rw [hm] at k2
          exact ⟨k1, k2⟩)
    | close m mood =>
      simp only [absConn_app, absConn_side]
      exact bound (fun r2 app => r2.handleClose .fixed x app (x.side.getD "") t m mood)
        (fun s2 app => s2.handleClose (absConn r.mbs x) app (x.side.getD "") t m mood)
        (fun r2 app h2 hx2 hm happ => by
          obtain ⟨k1, k2⟩ := handleClose_spec h2 hx2 happ (hcoh x hx) (x.side.getD "") t m mood
          rw [hm] at k2
          exact ⟨k1, .of_eq k2⟩)

end RSys
end Wormhole

namespace Wormhole
namespace RSys

/-! ### connect -/

theorem connect_spec {r : RSys} (h : r.RegInv) (c : Nat) (hfresh : ∀ x ∈ r.conns, x.id ≠ c) :
    (r.connect c).RegInv ∧ (r.connect c).abs = r.abs.connect c := by
  unfold connect
  constructor
  · refine RegInv.send ?_ _ _
    refine ⟨?_, h.appsKey, h.nsOids, h.mbOids, h.nsBound, h.mbBound, h.appsNs, h.boxesKey, h.boxesMb, h.nsReg,
      h.mbNs, ?_, ?_, ?_, ?_, h.lisNodup⟩
    · show List.Pairwise _ (_ ++ _)
      rw [List.pairwise_append]
      refine ⟨h.connIds, by simp, ?_⟩
      intro a ha b hb
      simp only [List.mem_singleton] at hb
      subst hb
      exact hfresh a ha
    · intro x hx o hm
      rcases List.mem_append.1 hx with hx | hx
      · exact h.heldObj x hx o hm
      · simp only [List.mem_singleton] at hx; subst hx; cases hm
    · intro x hx k hk hm
      rcases List.mem_append.1 hx with hx | hx
      · exact h.heldReg x hx k hk hm
      · simp only [List.mem_singleton] at hx; subst hx; cases hm
    · intro x hx k hk hm
      rcases List.mem_append.1 hx with hx | hx
      · exact h.listenIff x hx k hk hm
      · simp only [List.mem_singleton] at hx; subst hx; cases hm
    · intro k hk c' hc'
      obtain ⟨y, hy, e⟩ := h.lisConn k hk c' hc'
      exact ⟨y, List.mem_append_left _ hy, e⟩
  · rw [abs_send]
    unfold Sys.connect
    congr 1
    rw [abs_eq', abs_eq']
    unfold Sys.setConns aconns
    simp only [List.map_append, List.map_cons, List.map_nil]
    rfl

/-! ### drop -/

/-- a connection that holds nothing disappears -/
theorem RegInv.removeIdle {r : RSys} (h : r.RegInv) (c : Nat) (hidle : ∀ y ∈ r.conns, y.id = c → y.mailbox = none) :
    ({ r with conns := r.conns.filter (fun y => ¬ y.id = c) } : RSys).RegInv := by
  refine ⟨List.Pairwise.filter _ h.connIds, h.appsKey, h.nsOids, h.mbOids, h.nsBound, h.mbBound, h.appsNs,
    h.boxesKey, h.boxesMb, h.nsReg, h.mbNs, ?_, ?_, ?_, ?_, h.lisNodup⟩
  · intro x hx; exact h.heldObj x (List.mem_filter.1 hx).1
  · intro x hx; exact h.heldReg x (List.mem_filter.1 hx).1
  · intro x hx; exact h.listenIff x (List.mem_filter.1 hx).1
  · intro k hk c' hc'
    obtain ⟨y, hy, e1, e2⟩ := h.lisConn k hk c' hc'
    refine ⟨y, List.mem_filter.2 ⟨hy, ?_⟩, e1, e2⟩
    simp only [decide_not, Bool.not_eq_eq_eq_not, Bool.not_true, decide_eq_false_iff_not]
    intro e
    rw [hidle y hy e] at e2
    cases e2

/-- the listener-dict update of `onClose` for connection `x` -/
def dropG (x : RConn) : MbObj → MbObj := fun k =>
  if x.mailbox = some k.oid ∧ x.listening = true then { k with listeners := k.listeners.filter (fun d => ¬ d = x.id) }
  else k

theorem dropConn_aux {r : RSys} (h : r.RegInv) {x : RConn} (hx : x ∈ r.conns) :
    ({ r with mbs := r.mbs.map (dropG x), conns := r.conns.filter (fun y => ¬ y.id = x.id) } : RSys).RegInv ∧
    ({ r with mbs := r.mbs.map (dropG x), conns := r.conns.filter (fun y => ¬ y.id = x.id) } : RSys).abs =
      r.abs.dropConn x.id := by
  have hxu : ∀ y ∈ r.conns, y.id = x.id → y = x := fun y hy e => pw_eq (f := RConn.id) h.connIds hy hx e
  have hG1 : ∀ k, (dropG x k).oid = k.oid := by intro k; simp only [dropG]; split <;> rfl
  have hG4 : ∀ k, (dropG x k).mailboxId = k.mailboxId := by intro k; simp only [dropG]; split <;> rfl
  -- the state in which the connection has let go of everything
  let F : RConn → RConn := fun y => if y.id = x.id then { y with mailbox := none, listening := false } else y
  let rD : RSys := { r with conns := r.conns.map F, mbs := r.mbs.map (dropG x) }
  have hD : rD.RegInv := by
    refine h.relabel F (dropG x) rfl rfl rfl rfl rfl ?_ hG1 ?_ ?_ hG4 ?_ ?_ ?_ ?_ ?_
    · intro y; simp only [F]; split <;> rfl
    · intro k; simp only [dropG]; split <;> rfl
    · intro k; simp only [dropG]; split <;> rfl
    · intro y hy o
      simp only [F]
      split
      · intro e; cases e
      · exact h.heldObj y hy o
    · intro y hy k hk
      simp only [F]
      split
      · intro e; cases e
      · exact h.heldReg y hy k hk
    · intro y hy k hk
      simp only [F]
      split
      · intro e; cases e
      · rename_i hne
        intro e
        have := h.listenIff y hy k hk e
        simp only [dropG]
        split
        · simp only [List.mem_filter, decide_not, Bool.not_eq_eq_eq_not, Bool.not_true, decide_eq_false_iff_not, hne,
            not_false_eq_true, and_true]
          exact this
        · exact this
    · intro k hk c' hc'
      have hc'' : c' ∈ k.listeners := by
        simp only [dropG] at hc'
        split at hc'
        · exact (List.mem_filter.1 hc').1
        · exact hc'
      obtain ⟨y, hy, e1, e2⟩ := h.lisConn k hk c' hc''
      refine ⟨y, hy, e1, ?_⟩
      simp only [F]
      split
      · rename_i e3
        exfalso
        have := hxu y hy e3; subst this
        have hl := (h.listenIff y hy k hk e2).1 (by rw [e1]; exact hc'')
        simp only [dropG, e2, hl, and_self, if_true, List.mem_filter, decide_not, Bool.not_eq_eq_eq_not, Bool.not_true,
          decide_eq_false_iff_not] at hc'
        exact hc'.2 e1.symm
      · exact e2
    · intro k hk
      simp only [dropG]
      split
      · exact List.Pairwise.filter _ (h.lisNodup k hk)
      · exact h.lisNodup k hk
  have hfin : ({ r with mbs := r.mbs.map (dropG x), conns := r.conns.filter (fun y => ¬ y.id = x.id) } : RSys) =
      { rD with conns := rD.conns.filter (fun y => ¬ y.id = x.id) } := by
    show _ = ({ r with conns := (r.conns.map F).filter (fun y => ¬ y.id = x.id), mbs := r.mbs.map (dropG x) } : RSys)
    congr 1
    rw [List.filter_map]
    have hF : ∀ y, (F y).id = y.id := by intro y; simp only [F]; split <;> rfl
    have : ((fun y : RConn => decide (¬ y.id = x.id)) ∘ F) = (fun y : RConn => decide (¬ y.id = x.id)) := by
      funext y; simp only [Function.comp, hF]
    rw [this]
    symm
    calc (r.conns.filter (fun y => decide (¬ y.id = x.id))).map F
        = (r.conns.filter (fun y => decide (¬ y.id = x.id))).map (fun y => y) := by
          apply List.map_congr_left
          intro y hy
          have := (List.mem_filter.1 hy).2
          simp only [decide_not, Bool.not_eq_eq_eq_not, Bool.not_true, decide_eq_false_iff_not] at this
          simp only [F, this, if_false]
      _ = _ := List.map_id' _
  constructor
  · rw [hfin]
    refine hD.removeIdle x.id ?_
    intro y hy e
    obtain ⟨y0, _, rfl⟩ := List.mem_map.1 hy
    simp only [F] at e ⊢
    split
    · rfl
    · rename_i hne
      split at e <;> exact absurd e hne
  · rw [abs_eq', abs_eq']
    unfold Sys.dropConn Sys.setConns
    simp only [Sys.mk.injEq, true_and, and_true]
    unfold aconns
    show ((r.conns.filter (fun y => ¬ y.id = x.id)).map (absConn (r.mbs.map (dropG x)))) = _
    rw [List.filter_map]
    have : ((fun z : Conn => decide (¬ z.id = x.id)) ∘ absConn r.mbs) = (fun y : RConn => decide (¬ y.id = x.id)) := by
      funext y; rfl
    rw [this]
    apply List.map_congr_left
    intro y _
    exact absConn_congr (fun o _ => mbIdOf_map _ (dropG x) hG1 hG4 o)

/-- `onClose`: the listener entry goes, then the connection -/
theorem dropConn_spec {r : RSys} (h : r.RegInv) (c : Nat) :
    (r.dropConn c).RegInv ∧ (r.dropConn c).abs = r.abs.dropConn c := by
  unfold dropConn
  cases hfc : r.findConn c with
  | none =>
    dsimp only
    refine ⟨h, ?_⟩
    have hno : ∀ y ∈ r.conns, ¬ y.id = c := by
      intro y hy
      have := List.find?_eq_none.1 hfc y hy
      simpa using this
    unfold Sys.dropConn
    rw [abs_conns]
    have : r.aconns.filter (fun x => ¬ x.id = c) = r.aconns := by
      rw [List.filter_eq_self]
      intro a ha
      obtain ⟨y, hy, rfl⟩ := List.mem_map.1 ha
      simp [hno y hy]
    rw [this]
    rfl
  | some x =>
    obtain ⟨hx, rfl⟩ := (findConn_eq_some h).1 hfc
    dsimp only
    have hid : r.mbs.map (fun k => k) = r.mbs := List.map_id' _
    have key := dropConn_aux h hx
    cases hm : x.mailbox with
    | none =>
      dsimp only
      have : dropG x = fun k => k := by funext k; simp [dropG, hm]
      rw [this, hid] at key
      exact key
    | some o =>
      dsimp only
      by_cases hl : x.listening = true
      · simp only [hl, if_true]
        have : r.mbs.map (dropG x) = (r.removeListener o x.id).mbs := by
          simp only [removeListener, updMb]
          apply List.map_congr_left
          intro k _
          simp only [dropG, hm, hl, and_true, Option.some.injEq]
          by_cases e : k.oid = o
          · simp [e]
          · have : ¬ o = k.oid := fun e' => e e'.symm
            simp [e, this]
        rw [this] at key
        exact key
      · have : dropG x = fun k => k := by funext k; simp [dropG, hl]
        rw [this, hid] at key
        simp only [hl, Bool.false_eq_true, if_false]
        exact key

/-! ### restart, crash -/

theorem RegInv.fresh (r : RSys) (c : Sys) : (r.fresh c).RegInv := by
  refine ⟨?_, ?_, ?_, ?_, ?_, ?_, ?_, ?_, ?_, ?_, ?_, ?_, ?_, ?_, ?_, ?_⟩ <;> simp [RSys.fresh]

theorem restart_spec (r : RSys) (t : Time) : (r.restart t).RegInv ∧ (r.restart t).abs = r.abs.restart t :=
  ⟨RegInv.fresh _ _, rfl⟩

theorem crashTo_spec (r : RSys) (p : Chan × Usage) : (r.crashTo p).RegInv ∧ (r.crashTo p).abs = r.abs.crashTo p :=
  ⟨RegInv.fresh _ _, rfl⟩

end RSys
end Wormhole
