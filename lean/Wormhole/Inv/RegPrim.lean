/-
  Registry primitives: what `abs` and `RegInv` do under the elementary updates
  (core-only functions, connection-record updates, listener-dict updates, `get_app`).
-/
import Wormhole.Inv.RegInv

namespace Wormhole

theorem mbIdOf_map (mbs : List MbObj) (g : MbObj → MbObj) (h1 : ∀ k, (g k).oid = k.oid)
    (h2 : ∀ k, (g k).mailboxId = k.mailboxId) (o : Nat) : mbIdOf (mbs.map g) o = mbIdOf mbs o := by
  unfold mbIdOf
  rw [List.find?_map]
  simp only [Function.comp_def, h1, Option.map_map]
  congr 1
  funext k
  exact h2 k

theorem mbIdOf_append_of_isSome (mbs l : List MbObj) (o : Nat) (h : (mbIdOf mbs o).isSome) :
    mbIdOf (mbs ++ l) o = mbIdOf mbs o := by
  unfold mbIdOf at *
  rw [List.find?_append]
  cases e : mbs.find? (fun k => k.oid = o) with
  | none => simp [e] at h
  | some k => simp

namespace RSys

/-- the abstracted connection table -/
def aconns (r : RSys) : List Conn := r.conns.map (absConn r.mbs)

theorem abs_eq' (r : RSys) : r.abs = r.core.setConns r.aconns := rfl

section proj
variable (r : RSys)
@[simp] theorem abs_cfg : r.abs.cfg = r.core.cfg := rfl
@[simp] theorem abs_db : r.abs.db = r.core.db := rfl
@[simp] theorem abs_disk : r.abs.disk = r.core.disk := rfl
@[simp] theorem abs_udb : r.abs.udb = r.core.udb := rfl
@[simp] theorem abs_udisk : r.abs.udisk = r.core.udisk := rfl
@[simp] theorem abs_rebooted : r.abs.rebooted = r.core.rebooted := rfl
@[simp] theorem abs_out : r.abs.out = r.core.out := rfl
@[simp] theorem abs_snaps : r.abs.snaps = r.core.snaps := rfl
@[simp] theorem abs_conns : r.abs.conns = r.aconns := rfl
end proj

theorem absConn_congr {m1 m2 : List MbObj} {x : RConn}
    (h : ∀ o, x.mailbox = some o → mbIdOf m1 o = mbIdOf m2 o) : absConn m1 x = absConn m2 x := by
  have : (absConn m1 x).mailbox = (absConn m2 x).mailbox := by
    rw [absConn_mailbox, absConn_mailbox]
    cases e : x.mailbox with
    | none => rfl
    | some o => exact h o e
  unfold absConn at *
  simp only [Conn.mk.injEq, true_and, and_true]
  exact this

/-- a function of `Sys` that commutes with replacing the connection table -/
def Framed (f : Sys → Sys) : Prop := ∀ s cs, f (Sys.setConns s cs) = (f s).setConns cs

theorem abs_onCore (r : RSys) (f : Sys → Sys) (hf : Framed f) : (r.onCore f).abs = f r.abs := by
  rw [abs_eq', abs_eq', hf]; rfl

theorem abs_core (r : RSys) (c : Sys) : ({ r with core := c } : RSys).abs = c.setConns r.aconns := rfl

@[simp] theorem abs_emit (r : RSys) (e : Event) : (r.emit e).abs = r.abs.emit e := rfl
@[simp] theorem abs_send (r : RSys) (c : Nat) (f : Frame) : (r.send c f).abs = r.abs.send c f := rfl
@[simp] theorem abs_sendError (r : RSys) (c : Nat) (t : String) : (r.sendError c t).abs = r.abs.sendError c t := rfl
@[simp] theorem abs_internalErr (r : RSys) (c : Nat) (t : String) :
    (r.internalErr c t).abs = r.abs.internalErr c t := rfl

/-- `RegInv` does not look at the databases -/
theorem RegInv.core {r : RSys} (h : r.RegInv) (c : Sys) : ({ r with core := c } : RSys).RegInv :=
  ⟨h.connIds, h.appsKey, h.nsOids, h.mbOids, h.nsBound, h.mbBound, h.appsNs, h.boxesKey, h.boxesMb, h.nsReg,
    h.mbNs, h.heldObj, h.heldReg, h.listenIff, h.lisConn, h.lisNodup⟩

theorem RegInv.onCore {r : RSys} (h : r.RegInv) (f : Sys → Sys) : (r.onCore f).RegInv := h.core _
theorem RegInv.emit {r : RSys} (h : r.RegInv) (e : Event) : (r.emit e).RegInv := h.core _
theorem RegInv.send {r : RSys} (h : r.RegInv) (c : Nat) (f : Frame) : (r.send c f).RegInv := h.core _
theorem RegInv.sendError {r : RSys} (h : r.RegInv) (c : Nat) (t : String) : (r.sendError c t).RegInv := h.core _
theorem RegInv.internalErr {r : RSys} (h : r.RegInv) (c : Nat) (t : String) : (r.internalErr c t).RegInv :=
  h.core _

theorem Registered.congr {r r' : RSys} (ha : r'.apps = r.apps) (hn : r'.nss = r.nss) {a m : String} {o : Nat} :
    r'.Registered a m o ↔ r.Registered a m o := by
  unfold Registered; rw [ha, hn]

/-- TRANSFER: a pointwise update `f` of the connection records and `g` of the listener dicts,
    nothing else; `RegInv` of the result is the four coherence clauses, checked record by record -/
theorem RegInv.relabel {r r' : RSys} (h : r.RegInv) (f : RConn → RConn) (g : MbObj → MbObj)
    (ha : r'.apps = r.apps) (hn : r'.nss = r.nss) (ho : r'.nextOid = r.nextOid)
    (hc : r'.conns = r.conns.map f) (hm : r'.mbs = r.mbs.map g)
    (fid : ∀ y, (f y).id = y.id)
    (g1 : ∀ k, (g k).oid = k.oid) (g2 : ∀ k, (g k).nsOid = k.nsOid) (g3 : ∀ k, (g k).app = k.app)
    (g4 : ∀ k, (g k).mailboxId = k.mailboxId)
    (H1 : ∀ y ∈ r.conns, ∀ o, (f y).mailbox = some o → ∃ k ∈ r.mbs, k.oid = o ∧ (f y).app = some k.app)
    (H2 : ∀ y ∈ r.conns, ∀ k ∈ r.mbs, (f y).mailbox = some k.oid → (f y).listening = true →
      r.Registered k.app k.mailboxId k.oid)
    (H3 : ∀ y ∈ r.conns, ∀ k ∈ r.mbs, (f y).mailbox = some k.oid →
      (y.id ∈ (g k).listeners ↔ (f y).listening = true))
    (H4 : ∀ k ∈ r.mbs, ∀ c ∈ (g k).listeners, ∃ y ∈ r.conns, y.id = c ∧ (f y).mailbox = some k.oid)
    (H5 : ∀ k ∈ r.mbs, (g k).listeners.Pairwise (fun a b => ¬ a = b)) : r'.RegInv := by
  have hreg : ∀ a m o, r'.Registered a m o ↔ r.Registered a m o := fun a m o => Registered.congr ha hn
  refine ⟨?_, by rw [ha]; exact h.appsKey, by rw [hn]; exact h.nsOids, ?_, by rw [hn, ho]; exact h.nsBound, ?_,
    by rw [ha, hn]; exact h.appsNs, by rw [hn]; exact h.boxesKey, ?_, by rw [hn, ha]; exact h.nsReg, ?_, ?_, ?_, ?_,
    ?_, ?_⟩
  · rw [hc, List.pairwise_map]
    simpa only [fid] using h.connIds
  · rw [hm, List.pairwise_map]
    simpa only [g1] using h.mbOids
  · rw [hm, ho]
    intro k hk
    obtain ⟨k0, hk0, rfl⟩ := List.mem_map.1 hk
    rw [g1]; exact h.mbBound k0 hk0
  · rw [hn, hm]
    intro ns hns p hp
    obtain ⟨k, hk, e1, e2, e3, e4⟩ := h.boxesMb ns hns p hp
    exact ⟨g k, List.mem_map.2 ⟨k, hk, rfl⟩, by rw [g1]; exact e1, by rw [g2]; exact e2, by rw [g3]; exact e3,
      by rw [g4]; exact e4⟩
  · rw [hn, hm]
    intro k hk
    obtain ⟨k0, hk0, rfl⟩ := List.mem_map.1 hk
    rw [g2, g3]; exact h.mbNs k0 hk0
  · rw [hc, hm]
    intro x hx o hxo
    obtain ⟨y, hy, rfl⟩ := List.mem_map.1 hx
    obtain ⟨k, hk, e1, e2⟩ := H1 y hy o hxo
    exact ⟨g k, List.mem_map.2 ⟨k, hk, rfl⟩, by rw [g1]; exact e1, by rw [g3]; exact e2⟩
  · rw [hc, hm]
    intro x hx k hk hxo hl
    obtain ⟨y, hy, rfl⟩ := List.mem_map.1 hx
    obtain ⟨k0, hk0, rfl⟩ := List.mem_map.1 hk
    rw [g1] at hxo
    rw [g1, g3, g4, hreg]
    exact H2 y hy k0 hk0 hxo hl
  · rw [hc, hm]
    intro x hx k hk hxo
    obtain ⟨y, hy, rfl⟩ := List.mem_map.1 hx
    obtain ⟨k0, hk0, rfl⟩ := List.mem_map.1 hk
    rw [g1] at hxo
    rw [fid]
    exact H3 y hy k0 hk0 hxo
  · rw [hc, hm]
    intro k hk c hcl
    obtain ⟨k0, hk0, rfl⟩ := List.mem_map.1 hk
    obtain ⟨y, hy, e1, e2⟩ := H4 k0 hk0 c hcl
    exact ⟨f y, List.mem_map.2 ⟨y, hy, rfl⟩, by rw [fid]; exact e1, by rw [g1]; exact e2⟩
  · rw [hm]
    intro k hk
    obtain ⟨k0, hk0, rfl⟩ := List.mem_map.1 hk
    exact H5 k0 hk0

/-- the abstract connection table after a pointwise update of records and listener dicts -/
theorem aconns_relabel {r r' : RSys} (f : RConn → RConn) (g : MbObj → MbObj)
    (hc : r'.conns = r.conns.map f) (hm : r'.mbs = r.mbs.map g)
    (g1 : ∀ k, (g k).oid = k.oid) (g4 : ∀ k, (g k).mailboxId = k.mailboxId) :
    r'.aconns = r.conns.map (fun y => absConn r.mbs (f y)) := by
  unfold aconns
  rw [hc, hm, List.map_map]
  apply List.map_congr_left
  intro y _
  exact absConn_congr (fun o _ => mbIdOf_map _ g g1 g4 o)

end RSys
end Wormhole

namespace Wormhole
namespace RSys

@[simp] theorem absConn_id (mbs : List MbObj) (y : RConn) : (absConn mbs y).id = y.id := rfl
@[simp] theorem absConn_app (mbs : List MbObj) (y : RConn) : (absConn mbs y).app = y.app := rfl
@[simp] theorem absConn_side (mbs : List MbObj) (y : RConn) : (absConn mbs y).side = y.side := rfl
@[simp] theorem absConn_listening (mbs : List MbObj) (y : RConn) : (absConn mbs y).listening = y.listening := rfl
@[simp] theorem absConn_didAllocate (mbs : List MbObj) (y : RConn) : (absConn mbs y).didAllocate = y.didAllocate := rfl
@[simp] theorem absConn_didClaim (mbs : List MbObj) (y : RConn) : (absConn mbs y).didClaim = y.didClaim := rfl
@[simp] theorem absConn_didRelease (mbs : List MbObj) (y : RConn) : (absConn mbs y).didRelease = y.didRelease := rfl
@[simp] theorem absConn_didClose (mbs : List MbObj) (y : RConn) : (absConn mbs y).didClose = y.didClose := rfl
@[simp] theorem absConn_nameplateId (mbs : List MbObj) (y : RConn) : (absConn mbs y).nameplateId = y.nameplateId := rfl
@[simp] theorem absConn_mailboxId (mbs : List MbObj) (y : RConn) : (absConn mbs y).mailboxId = y.mailboxId := rfl

/-- a pointwise update of one connection record, seen through `abs` -/
theorem abs_updConn (r : RSys) (c : Nat) (f0 : RConn → RConn) (g0 : Conn → Conn)
    (hfg : ∀ y ∈ r.conns, y.id = c → absConn r.mbs (f0 y) = g0 (absConn r.mbs y)) :
    (r.updConn c f0).abs = r.abs.updConn c g0 := by
  have : (r.updConn c f0).aconns = r.aconns.map (fun x => if x.id = c then g0 x else x) := by
    unfold aconns updConn
    simp only [List.map_map]
    apply List.map_congr_left
    intro y hy
    simp only [Function.comp, absConn_id]
    by_cases e : y.id = c
    · simp only [e, if_true]; exact hfg y hy e
    · simp only [e, if_false]
  rw [abs_eq', abs_eq']
  unfold Sys.updConn
  rw [show (r.updConn c f0).core = r.core from rfl, this]
  rfl

/-- `RegInv` after an update of one connection record: the four coherence clauses for the new record -/
theorem RegInv.updConn {r : RSys} (h : r.RegInv) (c : Nat) (f0 : RConn → RConn) (hid : ∀ y, (f0 y).id = y.id)
    (H : ∀ y ∈ r.conns, y.id = c →
      (∀ o, (f0 y).mailbox = some o → ∃ k ∈ r.mbs, k.oid = o ∧ (f0 y).app = some k.app) ∧
      (∀ k ∈ r.mbs, (f0 y).mailbox = some k.oid → (f0 y).listening = true → r.Registered k.app k.mailboxId k.oid) ∧
      (∀ k ∈ r.mbs, (f0 y).mailbox = some k.oid → (y.id ∈ k.listeners ↔ (f0 y).listening = true)) ∧
      (∀ k ∈ r.mbs, y.id ∈ k.listeners → (f0 y).mailbox = some k.oid)) :
    (r.updConn c f0).RegInv := by
  refine h.relabel (fun y => if y.id = c then f0 y else y) id rfl rfl rfl rfl (by simp [RSys.updConn])
    ?_ (fun _ => rfl) (fun _ => rfl) (fun _ => rfl) (fun _ => rfl) ?_ ?_ ?_ ?_ ?_
  · intro y; split <;> simp [hid]
  · intro y hy o
    split
    · rename_i e; exact (H y hy e).1 o
    · exact h.heldObj y hy o
  · intro y hy k hk
    split
    · rename_i e; exact (H y hy e).2.1 k hk
    · exact h.heldReg y hy k hk
  · intro y hy k hk
    simp only [id]
    split
    · rename_i e; exact (H y hy e).2.2.1 k hk
    · exact h.listenIff y hy k hk
  · intro k hk c' hc'
    obtain ⟨y, hy, e1, e2⟩ := h.lisConn k hk c' hc'
    refine ⟨y, hy, e1, ?_⟩
    split
    · rename_i e; exact (H y hy e).2.2.2 k hk (by rw [e1]; exact hc')
    · exact e2
  · intro k hk; exact h.lisNodup k hk

/-- an update that leaves `mailbox`, `listening`, `app` (and `id`) alone -/
theorem RegInv.updConn_flags {r : RSys} (h : r.RegInv) (c : Nat) (f0 : RConn → RConn) (hid : ∀ y, (f0 y).id = y.id)
    (hm : ∀ y, (f0 y).mailbox = y.mailbox) (hl : ∀ y, (f0 y).listening = y.listening)
    (ha : ∀ y, (f0 y).app = y.app) : (r.updConn c f0).RegInv := by
  refine h.updConn c f0 hid ?_
  intro y hy _
  simp only [hm, hl, ha]
  refine ⟨h.heldObj y hy, h.heldReg y hy, h.listenIff y hy, ?_⟩
  intro k hk hc
  obtain ⟨y', hy', e1, e2⟩ := h.lisConn k hk _ hc
  have : y' = y := pw_eq (f := RConn.id) h.connIds hy' hy e1
  subst this; exact e2

/-- a connection that holds nothing is in no listener dict -/
theorem RegInv.not_listener_of_no_mailbox {r : RSys} (h : r.RegInv) {y : RConn} (hy : y ∈ r.conns)
    (hm : y.mailbox = none) {k : MbObj} (hk : k ∈ r.mbs) : y.id ∉ k.listeners := by
  intro hc
  obtain ⟨y', hy', e1, e2⟩ := h.lisConn k hk _ hc
  have : y' = y := pw_eq (f := RConn.id) h.connIds hy' hy e1
  subst this
  rw [hm] at e2; cases e2

/-- an update of a record that holds nothing, to one that holds nothing -/
theorem RegInv.updConn_nomb {r : RSys} (h : r.RegInv) (c : Nat) (f0 : RConn → RConn) (hid : ∀ y, (f0 y).id = y.id)
    (hm : ∀ y ∈ r.conns, y.id = c → y.mailbox = none ∧ (f0 y).mailbox = none) : (r.updConn c f0).RegInv := by
  refine h.updConn c f0 hid ?_
  intro y hy e
  obtain ⟨m1, m2⟩ := hm y hy e
  simp only [m2]
  refine ⟨by simp, by simp, by simp, ?_⟩
  intro k hk hc
  exact absurd hc (h.not_listener_of_no_mailbox hy m1 hk)

/-- a non-listening connection drops its hold -/
theorem RegInv.updConn_unhold {r : RSys} (h : r.RegInv) (c : Nat) (f0 : RConn → RConn) (hid : ∀ y, (f0 y).id = y.id)
    (hm : ∀ y ∈ r.conns, y.id = c → y.listening = false ∧ (f0 y).mailbox = none) : (r.updConn c f0).RegInv := by
  refine h.updConn c f0 hid ?_
  intro y hy e
  obtain ⟨m1, m2⟩ := hm y hy e
  simp only [m2]
  refine ⟨by simp, by simp, by simp, ?_⟩
  intro k hk hc
  obtain ⟨y', hy', e1, e2⟩ := h.lisConn k hk _ hc
  have : y' = y := pw_eq (f := RConn.id) h.connIds hy' hy e1
  subst this
  have := (h.listenIff y' hy k hk e2).1 hc
  rw [m1] at this; cases this

end RSys
end Wormhole

namespace Wormhole
namespace RSys

/-- changing listener dicts does not show through `abs` -/
theorem abs_updMb_listeners (r : RSys) (o : Nat) (g0 : MbObj → MbObj) (g1 : ∀ k, (g0 k).oid = k.oid)
    (g4 : ∀ k, (g0 k).mailboxId = k.mailboxId) : (r.updMb o g0).abs = r.abs := by
  have : (r.updMb o g0).aconns = r.aconns := by
    rw [aconns_relabel (r := r) (r' := r.updMb o g0) id (fun k => if k.oid = o then g0 k else k)
      (by simp [updMb]) rfl (by intro k; split <;> simp [g1]) (by intro k; split <;> simp [g4])]
    rfl
  rw [abs_eq', abs_eq', this]; rfl

@[simp] theorem abs_addListener (r : RSys) (o c : Nat) : (r.addListener o c).abs = r.abs :=
  abs_updMb_listeners r o _ (fun _ => rfl) (fun _ => rfl)

@[simp] theorem abs_removeListener (r : RSys) (o c : Nat) : (r.removeListener o c).abs = r.abs :=
  abs_updMb_listeners r o _ (fun _ => rfl) (fun _ => rfl)

@[simp] theorem abs_updNs (r : RSys) (n : Nat) (f : Ns → Ns) : (r.updNs n f).abs = r.abs := rfl

theorem absConn_hold {mbs : List MbObj} {o : Nat} {mb : String} (hmb : mbIdOf mbs o = some mb) (y : RConn) (l : Bool) :
    absConn mbs { y with mailbox := some o, listening := l } =
      { absConn mbs y with mailbox := some mb, listening := l } := by
  have : (absConn mbs { y with mailbox := some o, listening := l }).mailbox = some mb := by
    rw [absConn_mailbox]; exact hmb
  unfold absConn at *
  simp only [Conn.mk.injEq, true_and, and_true]
  exact this

/-- `self._mailbox = <registered object>; self._listening = True; mailbox.add_listener(self, …)` -/
theorem subscribe_spec {r : RSys} (h : r.RegInv) {y : RConn} (hy : y ∈ r.conns) (hmb : y.mailbox = none)
    {app mb : String} {o : Nat} (happ : y.app = some app) (hreg : r.Registered app mb o) :
    ((r.updConn y.id (fun z => { z with mailbox := some o, listening := true })).addListener o y.id).RegInv ∧
    ((r.updConn y.id (fun z => { z with mailbox := some o, listening := true })).addListener o y.id).abs =
      r.abs.updConn y.id (fun z => { z with mailbox := some mb, listening := true }) := by
  obtain ⟨k0, hk0, ek0, ea0, em0⟩ := hreg.obj h
  have hk0u : ∀ k ∈ r.mbs, k.oid = o → k = k0 := fun k hk e => pw_eq (f := MbObj.oid) h.mbOids hk hk0 (by rw [e, ek0])
  have hyu : ∀ z ∈ r.conns, z.id = y.id → z = y := fun z hz e => pw_eq (f := RConn.id) h.connIds hz hy e
  constructor
  · refine h.relabel (fun z => if z.id = y.id then { z with mailbox := some o, listening := true } else z)
      (fun k => if k.oid = o then { k with listeners := if y.id ∈ k.listeners then k.listeners else k.listeners ++ [y.id] }
        else k) rfl rfl rfl rfl rfl ?_ ?_ ?_ ?_ ?_ ?_ ?_ ?_ ?_ ?_
    · intro z; split <;> rfl
    · intro k; split <;> rfl
    · intro k; split <;> rfl
    · intro k; split <;> rfl
    · intro k; split <;> rfl
    · intro z hz o'
      split
      · rename_i e
        have := hyu z hz e; subst this
        intro e'
        simp only [Option.some.injEq] at e'
        subst e'
        exact ⟨k0, hk0, ek0, by rw [ea0]; exact happ⟩
      · exact h.heldObj z hz o'
    · intro z hz k hk
      split
      · rename_i e
        intro e' _
        simp only [Option.some.injEq] at e'
        have := hk0u k hk e'.symm; subst this
        rw [ea0, em0, ek0]; exact hreg
      · exact h.heldReg z hz k hk
    · intro z hz k hk
      by_cases e : z.id = y.id
      · have := hyu z hz e; subst this
        simp only [if_true]
        intro e'
        simp only [Option.some.injEq] at e'
        have ek : k.oid = o := e'.symm
        simp only [ek, if_true, iff_true]
        split
        · assumption
        · simp
      · simp only [e, if_false]
        intro e'
        have := h.listenIff z hz k hk e'
        split
        · split
          · exact this
          · simp only [List.mem_append, List.mem_singleton, e, or_false]; exact this
        · exact this
    · intro k hk c hc
      by_cases e : k.oid = o
      · simp only [e, if_true] at hc
        by_cases ec : c = y.id
        · exact ⟨y, hy, ec.symm, by simp [e]⟩
        · have hc' : c ∈ k.listeners := by
            split at hc
            · exact hc
            · simpa [ec] using hc
          obtain ⟨z, hz, e1, e2⟩ := h.lisConn k hk c hc'
          exact ⟨z, hz, e1, by rw [if_neg (by rw [e1]; exact ec)]; exact e2⟩
      · simp only [e, if_false] at hc
        obtain ⟨z, hz, e1, e2⟩ := h.lisConn k hk c hc
        refine ⟨z, hz, e1, ?_⟩
        have : ¬ z.id = y.id := by
          intro e3
          have := hyu z hz e3; subst this
          rw [hmb] at e2; cases e2
        rw [if_neg this]; exact e2
    · intro k hk
      split
      · split
        · exact h.lisNodup k hk
        · rename_i hn
          rw [List.pairwise_append]
          refine ⟨h.lisNodup k hk, by simp, ?_⟩
          intro a ha b hb
          simp only [List.mem_singleton] at hb
          subst hb
          intro e; subst e; exact hn ha
      · exact h.lisNodup k hk
  · rw [abs_addListener]
    apply abs_updConn
    intro z _ _
    have : mbIdOf r.mbs o = some mb := by
      rw [← ek0, mbIdOf_eq h hk0, em0]
    exact absConn_hold this z true

end RSys
end Wormhole

namespace Wormhole
namespace RSys

/-- `if self._listening: self._mailbox.remove_listener(self)`, then a record update that clears
    `_listening` (and keeps `_mailbox`, `_app_id`) -/
theorem unlisten_spec {r : RSys} (h : r.RegInv) {y : RConn} (hy : y ∈ r.conns) {o : Nat} (hm : y.mailbox = some o)
    (f0 : RConn → RConn) (hid : ∀ z, (f0 z).id = z.id) (hmb : ∀ z, (f0 z).mailbox = z.mailbox)
    (happ : ∀ z, (f0 z).app = z.app) (hl : ∀ z, (f0 z).listening = false) :
    ((if y.listening then r.removeListener o y.id else r).updConn y.id f0).RegInv := by
  have hyu : ∀ z ∈ r.conns, z.id = y.id → z = y := fun z hz e => pw_eq (f := RConn.id) h.connIds hz hy e
  cases hyl : y.listening with
  | false =>
    simp only [Bool.false_eq_true, if_false]
    refine h.updConn y.id f0 hid ?_
    intro z hz e
    have := hyu z hz e; subst this
    simp only [hmb, happ, hl]
    refine ⟨h.heldObj z hz, by simp, ?_, ?_⟩
    · intro k hk e'
      have := h.listenIff z hz k hk e'
      rw [hyl] at this; simpa using this
    · intro k hk hc
      obtain ⟨y', hy', e1, e2⟩ := h.lisConn k hk _ hc
      have := hyu y' hy' e1; subst this; exact e2
  | true =>
    simp only [if_true]
    refine h.relabel (fun z => if z.id = y.id then f0 z else z)
      (fun k => if k.oid = o then { k with listeners := k.listeners.filter (fun d => ¬ d = y.id) } else k)
      rfl rfl rfl rfl rfl ?_ ?_ ?_ ?_ ?_ ?_ ?_ ?_ ?_ ?_
    · intro z; split <;> simp [hid]
    · intro k; split <;> rfl
    · intro k; split <;> rfl
    · intro k; split <;> rfl
    · intro k; split <;> rfl
    · intro z hz o'
      split
      · rw [hmb, happ]; exact h.heldObj z hz o'
      · exact h.heldObj z hz o'
    · intro z hz k hk
      split
      · rw [hl]; intro _ hh; cases hh
      · exact h.heldReg z hz k hk
    · intro z hz k hk
      by_cases e : z.id = y.id
      · have := hyu z hz e; subst this
        simp only [if_true, hmb, hl]
        intro e'
        rw [hm] at e'
        simp only [Option.some.injEq] at e'
        simp [← e']
      · simp only [e, if_false]
        intro e'
        have := h.listenIff z hz k hk e'
        split
        · simp only [List.mem_filter, decide_not, Bool.not_eq_eq_eq_not, Bool.not_true, decide_eq_false_iff_not, e,
            not_false_eq_true, and_true]
          exact this
        · exact this
    · intro k hk c hc
      have hc' : c ∈ k.listeners := by
        split at hc
        · exact (List.mem_filter.1 hc).1
        · exact hc
      obtain ⟨z, hz, e1, e2⟩ := h.lisConn k hk c hc'
      refine ⟨z, hz, e1, ?_⟩
      split
      · rw [hmb]; exact e2
      · exact e2
    · intro k hk
      split
      · exact List.Pairwise.filter _ (h.lisNodup k hk)
      · exact h.lisNodup k hk

theorem Registered.mono {r r' : RSys} (ha : ∀ p ∈ r.apps, p ∈ r'.apps) (hn : ∀ ns ∈ r.nss, ns ∈ r'.nss)
    {a m : String} {o : Nat} (h : r.Registered a m o) : r'.Registered a m o := by
  obtain ⟨ns, h1, h2, h3⟩ := h
  exact ⟨ns, hn ns h1, ha _ h2, h3⟩

/-- the state after `self._apps[app_id] = AppNamespace(…)` -/
def withNewApp (r : RSys) (app : String) : RSys :=
  { r with apps := r.apps ++ [(app, r.nextOid)], nss := r.nss ++ [(⟨r.nextOid, app, []⟩ : Ns)],
           nextOid := r.nextOid + 1 }

theorem getApp_fst_some {r : RSys} {app : String} {n : Nat} (e : alookup r.apps app = some n) :
    r.getApp app = (r, n) := by
  unfold getApp; rw [e]

theorem getApp_fst_none {r : RSys} {app : String} (e : alookup r.apps app = none) :
    r.getApp app = ((r.withNewApp app), r.nextOid) := by
  unfold getApp withNewApp; rw [e]

/-- `Server.get_app`: the registered namespace of `app` (created if need be); nothing else changes -/
theorem getApp_spec {r : RSys} (h : r.RegInv) (app : String) :
    (r.getApp app).1.RegInv ∧ (r.getApp app).1.abs = r.abs ∧ (r.getApp app).1.conns = r.conns ∧
      (r.getApp app).1.mbs = r.mbs ∧ (r.getApp app).1.core = r.core ∧
      (app, (r.getApp app).2) ∈ (r.getApp app).1.apps := by
  cases e : alookup r.apps app with
  | some n =>
    rw [getApp_fst_some e]
    exact ⟨h, rfl, rfl, rfl, rfl, (alookup_eq_some h.appsKey).1 e⟩
  | none =>
    rw [getApp_fst_none e]
    refine ⟨?_, rfl, rfl, rfl, rfl, by simp [withNewApp]⟩
    have hk := alookup_eq_none.1 e
    have hmono : ∀ a m o, r.Registered a m o →
        ((r.withNewApp app)).Registered a m o :=
      fun a m o hr => hr.mono (fun p hp => List.mem_append_left _ hp) (fun ns hns => List.mem_append_left _ hns)
    unfold withNewApp at hmono ⊢
    refine ⟨h.connIds, ?_, ?_, h.mbOids, ?_, ?_, ?_, ?_, ?_, ?_, ?_, h.heldObj, ?_, h.listenIff, h.lisConn, h.lisNodup⟩
    · simp only [List.pairwise_append, List.pairwise_cons, List.Pairwise.nil, List.mem_singleton]
      refine ⟨h.appsKey, by simp, ?_⟩
      intro a ha b hb; subst hb; exact hk a ha
    · simp only [List.pairwise_append, List.pairwise_cons, List.Pairwise.nil, List.mem_singleton]
      refine ⟨h.nsOids, by simp, ?_⟩
      intro a ha b hb; subst hb
      have := h.nsBound a ha
      simp only; omega
    · intro ns hns
      simp only [List.mem_append, List.mem_singleton] at hns
      rcases hns with hns | rfl
      · have := h.nsBound ns hns; simp only; omega
      · simp
    · intro k hk'; have := h.mbBound k hk'; simp only; omega
    · intro p hp
      simp only [List.mem_append, List.mem_singleton] at hp
      rcases hp with hp | rfl
      · obtain ⟨ns, hns, e1, e2⟩ := h.appsNs p hp
        exact ⟨ns, List.mem_append_left _ hns, e1, e2⟩
      · exact ⟨_, List.mem_append_right _ (List.mem_singleton.2 rfl), rfl, rfl⟩
    · intro ns hns
      simp only [List.mem_append, List.mem_singleton] at hns
      rcases hns with hns | rfl
      · exact h.boxesKey ns hns
      · simp
    · intro ns hns p hp
      simp only [List.mem_append, List.mem_singleton] at hns
      rcases hns with hns | rfl
      · exact h.boxesMb ns hns p hp
      · simp at hp
    · intro ns hns hne
      simp only [List.mem_append, List.mem_singleton] at hns
      rcases hns with hns | rfl
      · exact List.mem_append_left _ (h.nsReg ns hns hne)
      · simp at hne
    · intro k hk'
      obtain ⟨ns, hns, e1, e2⟩ := h.mbNs k hk'
      exact ⟨ns, List.mem_append_left _ hns, e1, e2⟩
    · intro x hx k hk' hm hl
      exact hmono _ _ _ (h.heldReg x hx k hk' hm hl)

end RSys
end Wormhole
