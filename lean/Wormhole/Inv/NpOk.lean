/-
  The fragment of the channel invariant that the commit-discipline proof (C09) needs, and
  its preservation by every function of Core.lean:

    `Chan.NpOk d` = ids bounded by the AUTOINCREMENT counter (`Chan.IdsBounded`)
                  ∧ `nameplates.id` unique        (= `Chan.PInv.npIds`)
                  ∧ every nameplate has a side row (= `Chan.CInv.npHasSide`).

  Why C09 needs it: the only ways a Core function returns with uncommitted writes are
  * `ReclaimedError` raised after a NEW nameplate row was inserted (impossible: no side row
    carries the fresh id — needs `IdsBounded`);
  * `IndexError` from `_summarize_nameplate_usage` on an empty list of side rows
    (impossible if every nameplate has a side row; inside the loops of `prune` this must
    still hold after the earlier iterations deleted rows by id — needs unique ids).
-/
import Wormhole.Inv.Defs

namespace Wormhole
namespace Chan

/-- `nameplates.id` is unique (the field `PInv.npIds`) -/
def NpIdsUnique (d : Chan) : Prop := d.nameplates.Pairwise (fun a b => ¬ a.id = b.id)

/-- every nameplate has a side row (the field `CInv.npHasSide`): `_summarize_nameplate_usage`
    cannot raise `IndexError` -/
def NpHasSide (d : Chan) : Prop := ∀ n ∈ d.nameplates, ∃ r ∈ d.npSides, r.npid = n.id

structure NpOk (d : Chan) : Prop where
  bounded : d.IdsBounded
  ids : d.NpIdsUnique
  hasSide : d.NpHasSide

theorem CInv.npOk {d : Chan} (h : d.CInv) : d.NpOk := ⟨h.bounded, h.npIds, h.npHasSide⟩

/-- the three components `NpOk` talks about -/
def npPart (d : Chan) : List Nameplate × List NpSide × Nat := (d.nameplates, d.npSides, d.nextNp)

theorem NpOk.of_npPart {d d' : Chan} (h : d'.npPart = d.npPart) (hd : d.NpOk) : d'.NpOk := by
  simp only [npPart, Prod.mk.injEq] at h
  obtain ⟨h1, h2, h3⟩ := h
  obtain ⟨⟨b1, b2⟩, i, hs⟩ := hd
  refine ⟨⟨?_, ?_⟩, ?_, ?_⟩
  · rw [h1, h3]; exact b1
  · rw [h2, h3]; exact b2
  · unfold NpIdsUnique; rw [h1]; exact i
  · unfold NpHasSide; rw [h1, h2]; exact hs

theorem eq_of_pairwise_ne {α β : Type} {f : α → β} {l : List α}
    (h : l.Pairwise (fun a b => ¬ f a = f b)) {a b : α} (ha : a ∈ l) (hb : b ∈ l)
    (hab : f a = f b) : a = b := by
  induction l with
  | nil => simp at ha
  | cons x xs ih =>
    simp only [List.pairwise_cons] at h
    simp only [List.mem_cons] at ha hb
    grind

/-! ### the statements that leave the nameplate tables alone -/

@[simp] theorem npPart_insMailbox (d : Chan) (r) : (d.insMailbox r).npPart = d.npPart := rfl
@[simp] theorem npPart_insMbSide (d : Chan) (r) : (d.insMbSide r).npPart = d.npPart := rfl
@[simp] theorem npPart_insMessage (d : Chan) (r) : (d.insMessage r).npPart = d.npPart := rfl
@[simp] theorem npPart_touch (d : Chan) (mb t) : (d.touch mb t).npPart = d.npPart := rfl
@[simp] theorem npPart_closeSide (d : Chan) (mb side mood) :
    (d.closeSide mb side mood).npPart = d.npPart := rfl
@[simp] theorem npPart_delMessagesOf (d : Chan) (mb) : (d.delMessagesOf mb).npPart = d.npPart := rfl
@[simp] theorem npPart_delMbSidesOf (d : Chan) (mb) : (d.delMbSidesOf mb).npPart = d.npPart := rfl
@[simp] theorem npPart_delMailbox (d : Chan) (mb) : (d.delMailbox mb).npPart = d.npPart := rfl

/-! ### the statements on the nameplate tables -/

theorem NpOk.unclaim {d : Chan} (h : d.NpOk) (npid : Nat) (side : String) :
    (d.unclaim npid side).NpOk := by
  obtain ⟨⟨b1, b2⟩, i, hs⟩ := h
  refine ⟨⟨b1, ?_⟩, i, ?_⟩
  · intro r hr
    simp only [Chan.unclaim, List.mem_map] at hr
    obtain ⟨r0, hr0, rfl⟩ := hr
    have := b2 r0 hr0
    show _ < d.nextNp
    split <;> simpa using this
  · intro n hn
    obtain ⟨r, hr, e⟩ := hs n hn
    simp only [Chan.unclaim, List.mem_map]
    refine ⟨_, ⟨r, hr, rfl⟩, ?_⟩
    split <;> simpa using e

/-- `DELETE FROM nameplate_sides WHERE nameplates_id=?; DELETE FROM nameplates WHERE id=?` -/
theorem NpOk.delById {d : Chan} (h : d.NpOk) (npid : Nat) :
    ((d.delNpSidesOf npid).delNameplate npid).NpOk := by
  obtain ⟨⟨b1, b2⟩, i, hs⟩ := h
  refine ⟨⟨?_, ?_⟩, ?_, ?_⟩
  · intro n hn
    simp only [delNameplate, delNpSidesOf, List.mem_filter] at hn
    exact b1 n hn.1
  · intro r hr
    simp only [delNameplate, delNpSidesOf, List.mem_filter] at hr
    exact b2 r hr.1
  · exact List.Pairwise.filter _ i
  · intro n hn
    simp only [delNameplate, delNpSidesOf, List.mem_filter] at hn ⊢
    obtain ⟨r, hr, e⟩ := hs n hn.1
    refine ⟨r, ⟨hr, ?_⟩, e⟩
    simpa [e] using hn.2

/-- the two nameplate statements of `Mailbox.close` -/
theorem NpOk.delOfMailbox {d : Chan} (h : d.NpOk) (app mb : String) :
    ((d.delNpSidesOfMailbox app mb).delNameplatesOfMailbox app mb).NpOk := by
  obtain ⟨⟨b1, b2⟩, i, hs⟩ := h
  refine ⟨⟨?_, ?_⟩, ?_, ?_⟩
  · intro n hn
    simp only [delNameplatesOfMailbox, delNpSidesOfMailbox, List.mem_filter] at hn
    exact b1 n hn.1
  · intro r hr
    simp only [delNameplatesOfMailbox, delNpSidesOfMailbox, List.mem_filter] at hr
    exact b2 r hr.1
  · exact List.Pairwise.filter _ i
  · intro n hn
    simp only [delNameplatesOfMailbox, delNpSidesOfMailbox, List.mem_filter] at hn ⊢
    obtain ⟨r, hr, e⟩ := hs n hn.1
    refine ⟨r, ⟨hr, ?_⟩, e⟩
    apply decide_eq_true
    simp only [nameplatesOfMailbox, List.mem_map, List.mem_filter, decide_eq_true_eq, not_exists,
      not_and]
    intro n' ⟨hn', hk⟩ e'
    have : n' = n := eq_of_pairwise_ne (f := Nameplate.id) i hn' hn.1 (by omega)
    subst this
    simp_all

/-- a side row for an existing nameplate -/
theorem NpOk.insNpSide {d : Chan} (h : d.NpOk) (r : NpSide) (hr : r.npid < d.nextNp) :
    (d.insNpSide r).NpOk := by
  obtain ⟨⟨b1, b2⟩, i, hs⟩ := h
  refine ⟨⟨b1, ?_⟩, i, ?_⟩
  · intro r' hr'
    simp only [Chan.insNpSide, List.mem_append, List.mem_singleton] at hr'
    rcases hr' with h' | rfl
    · exact b2 r' h'
    · exact hr
  · intro n hn
    obtain ⟨r', hr', e⟩ := hs n hn
    exact ⟨r', by simp [Chan.insNpSide, hr'], e⟩

/-- a new nameplate row together with its first side row -/
theorem NpOk.insNew {d : Chan} (h : d.NpOk) (app name mb side : String) (claimed : Bool) (t : Time) :
    ((d.insNameplate app name mb).insNpSide ⟨d.nextNp, claimed, side, t⟩).NpOk := by
  obtain ⟨⟨b1, b2⟩, i, hs⟩ := h
  refine ⟨⟨?_, ?_⟩, ?_, ?_⟩
  · intro n hn
    simp only [Chan.insNpSide, insNameplate, List.mem_append, List.mem_singleton] at hn ⊢
    rcases hn with h' | rfl
    · have := b1 n h'; omega
    · simp
  · intro r hr
    simp only [Chan.insNpSide, insNameplate, List.mem_append, List.mem_singleton] at hr ⊢
    rcases hr with h' | rfl
    · have := b2 r h'; omega
    · simp
  · simp only [NpIdsUnique, Chan.insNpSide, insNameplate, List.pairwise_append, List.pairwise_cons,
      List.mem_singleton]
    refine ⟨i, by simp, ?_⟩
    intro a ha b hb
    subst hb
    have := b1 a ha
    simp; omega
  · intro n hn
    simp only [Chan.insNpSide, insNameplate, List.mem_append, List.mem_singleton] at hn ⊢
    rcases hn with h' | rfl
    · obtain ⟨r, hr, e⟩ := hs n h'
      exact ⟨r, Or.inl hr, e⟩
    · exact ⟨_, Or.inr rfl, rfl⟩

/-- no side row carries the id the next nameplate will get -/
theorem IdsBounded.findNpSide_fresh {d : Chan} (h : d.IdsBounded) (side : String) :
    d.findNpSide d.nextNp side = none := by
  simp only [findNpSide, List.find?_eq_none, decide_eq_true_eq, not_and]
  intro r hr e
  have := h.2 r hr
  omega

end Chan
end Wormhole
