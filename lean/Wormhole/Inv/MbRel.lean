/-
  The relations between the channel database before a step and the database after it (or at any
  commit point inside it) that Props/C08.lean and Props/C05.lean use:

  `Chan.Mono d d'`   (statements that add rows / set fields): mailbox rows are kept, the list of sides
                     of every mailbox only grows at the end
  `Chan.Del d d'`    (deleting statements): no mailbox row appears, and a mailbox whose row is still
                     there has exactly its old list of sides
  `Chan.MD d d'`     = `Mono` followed by `Del`: what EVERY operation does (`step_MD`), because
                     creation (`open_mailbox`) always precedes deletion (`Mailbox.close`, sweep)
                     inside one operation
  `Chan.NpGrow d d'`  the same for nameplates, keyed by the never re-used AUTOINCREMENT id
  `Chan.OpenAt d app mb σ` : the row (app, mb) exists and side σ has it open
-/
import Wormhole.Inv.MbTrack

namespace Wormhole

/-- `crashIn k op` runs `op`; every other operation runs itself -/
def Op.core : Op → Op
  | .crashIn _ op => op
  | op => op

def Op.isSweep : Op → Bool
  | .sweep _ _ => true
  | _ => false

namespace Chan

theorem first2_eq (d : Chan) (mb : String) : d.first2 mb = (d.sidesOf mb).take 2 := by
  simp [first2, sidesOf, List.map_take]

theorem prefix_take {α : Type} {l1 l2 : List α} (h : l1 <+: l2) (n : Nat) : l1.take n <+: l2.take n := by
  obtain ⟨t, rfl⟩ := h
  rw [List.take_append]
  exact List.prefix_append _ _

/-- a mailbox row with this id exists (under whatever app) -/
def HasId (d : Chan) (mb : String) : Prop := ∃ m ∈ d.mailboxes, m.id = mb

instance (d : Chan) (mb : String) : Decidable (d.HasId mb) := by unfold HasId; infer_instance

theorem HasBox.hasId {d : Chan} {app mb : String} (h : d.HasBox app mb) : d.HasId mb := by
  obtain ⟨m, hm, _, hi⟩ := h; exact ⟨m, hm, hi⟩

structure Mono (d d' : Chan) : Prop where
  rows : ∀ app mb, d.HasBox app mb → d'.HasBox app mb
  sides : ∀ mb, d.sidesOf mb <+: d'.sidesOf mb

structure Del (d d' : Chan) : Prop where
  rows : ∀ mb, d'.HasId mb → d.HasId mb
  sides : ∀ mb, d'.HasId mb → d'.sidesOf mb = d.sidesOf mb

def MD (d d' : Chan) : Prop := ∃ d1, Mono d d1 ∧ Del d1 d'

theorem Mono.refl (d : Chan) : Mono d d := ⟨fun _ _ h => h, fun _ => List.prefix_refl _⟩
theorem Mono.trans {a b c : Chan} (h1 : Mono a b) (h2 : Mono b c) : Mono a c :=
  ⟨fun app mb h => h2.rows app mb (h1.rows app mb h), fun mb => (h1.sides mb).trans (h2.sides mb)⟩

theorem Del.refl (d : Chan) : Del d d := ⟨fun _ h => h, fun _ _ => rfl⟩
theorem Del.trans {a b c : Chan} (h1 : Del a b) (h2 : Del b c) : Del a c :=
  ⟨fun mb h => h1.rows mb (h2.rows mb h),
   fun mb h => (h2.sides mb h).trans (h1.sides mb (h2.rows mb h))⟩

theorem Mono.md {d d' : Chan} (h : Mono d d') : MD d d' := ⟨d', h, Del.refl _⟩
theorem MD.refl (d : Chan) : MD d d := (Mono.refl d).md
theorem MD.del {d d' d'' : Chan} (h : MD d d') (h2 : Del d' d'') : MD d d'' := by
  obtain ⟨d1, m, dl⟩ := h; exact ⟨d1, m, dl.trans h2⟩

/-- THE consequence: side rows of a mailbox disappear only together with the mailbox row; while
    the row is there, the list of sides only grows at the end -/
theorem MD.sides {d d' : Chan} (h : MD d d') {mb : String} (hid : d'.HasId mb) :
    d.sidesOf mb <+: d'.sidesOf mb := by
  obtain ⟨d1, m, dl⟩ := h
  rw [dl.sides mb hid]
  exact m.sides mb

/-! ### the statements -/

theorem hasBox_of_mailboxes_map {d d' : Chan} (f : MailboxRow → MailboxRow)
    (hf : ∀ r, (f r).app = r.app ∧ (f r).id = r.id) (h : d'.mailboxes = d.mailboxes.map f)
    {app mb : String} : d'.HasBox app mb ↔ d.HasBox app mb := by
  unfold HasBox
  rw [h]
  constructor
  · rintro ⟨m, hm, ha, hi⟩
    obtain ⟨m0, hm0, rfl⟩ := List.mem_map.1 hm
    exact ⟨m0, hm0, (hf m0).1 ▸ ha, (hf m0).2 ▸ hi⟩
  · rintro ⟨m, hm, ha, hi⟩
    exact ⟨f m, List.mem_map.2 ⟨m, hm, rfl⟩, (hf m).1.trans ha, (hf m).2.trans hi⟩

theorem hasId_of_mailboxes_map {d d' : Chan} (f : MailboxRow → MailboxRow)
    (hf : ∀ r, (f r).id = r.id) (h : d'.mailboxes = d.mailboxes.map f)
    {mb : String} : d'.HasId mb ↔ d.HasId mb := by
  unfold HasId
  rw [h]
  constructor
  · rintro ⟨m, hm, hi⟩
    obtain ⟨m0, hm0, rfl⟩ := List.mem_map.1 hm
    exact ⟨m0, hm0, (hf m0) ▸ hi⟩
  · rintro ⟨m, hm, hi⟩
    exact ⟨f m, List.mem_map.2 ⟨m, hm, rfl⟩, (hf m).trans hi⟩

/-- a statement that leaves `mailboxes` and `mailbox_sides` alone -/
theorem Mono.of_eq {d d' : Chan} (h1 : d'.mailboxes = d.mailboxes) (h2 : d'.mbSides = d.mbSides) :
    Mono d d' := by
  refine ⟨fun app mb h => ?_, fun mb => ?_⟩
  · unfold HasBox; rw [h1]; exact h
  · unfold sidesOf mbSidesOf; rw [h2]; exact List.prefix_refl _

theorem Del.of_eq {d d' : Chan} (h1 : d'.mailboxes = d.mailboxes) (h2 : d'.mbSides = d.mbSides) :
    Del d d' := by
  refine ⟨fun mb h => ?_, fun mb _ => ?_⟩
  · unfold HasId at h ⊢; rw [← h1]; exact h
  · unfold sidesOf mbSidesOf; rw [h2]

theorem Mono.closeSide (d : Chan) (mb side : String) (mood : Option String) :
    Mono d (d.closeSide mb side mood) :=
  ⟨fun _ _ h => h, fun mb' => by rw [closeSide_sidesOf]; exact List.prefix_refl _⟩

theorem Mono.grow {d0 : Chan} {f : Chan → Chan} (hf : GrowPrim d0 f) (d : Chan) : Mono d (f d) := by
  cases hf with
  | insMailbox r _ =>
    refine ⟨fun app mb h => ?_, fun mb => List.prefix_refl _⟩
    obtain ⟨m, hm, hk⟩ := h
    exact ⟨m, by simp [Chan.insMailbox, hm], hk⟩
  | insMbSide r =>
    refine ⟨fun _ _ h => h, fun mb => ?_⟩
    simp only [sidesOf, mbSidesOf, Chan.insMbSide, List.filter_append, List.map_append]
    exact List.prefix_append _ _
  | touch mb t =>
    refine ⟨fun app mb' h => ?_, fun mb' => List.prefix_refl _⟩
    exact (hasBox_of_mailboxes_map (d := d) (d' := d.touch mb t)
      (fun r => if r.id = mb then { r with updated := t } else r)
      (fun r => by split <;> exact ⟨rfl, rfl⟩) rfl).2 h
  | insMessage r => exact Mono.of_eq rfl rfl
  | insNameplate a n m => exact Mono.of_eq rfl rfl
  | insNpSide r => exact Mono.of_eq rfl rfl
  | unclaim n sd => exact Mono.of_eq rfl rfl
  | delNp id => exact Mono.of_eq rfl rfl

/-- deleting the mailbox row(s) with id `mb` together with its side rows -/
theorem Del.of_filter {d d' : Chan} {mb : String}
    (h1 : d'.mailboxes = d.mailboxes.filter (fun r => ¬ r.id = mb))
    (h2 : d'.mbSides = d.mbSides.filter (fun r => ¬ r.mailbox = mb)) : Del d d' := by
  refine ⟨fun mb' h => ?_, fun mb' h => ?_⟩
  · obtain ⟨m, hm, hi⟩ := h
    rw [h1] at hm
    exact ⟨m, (List.mem_filter.1 hm).1, hi⟩
  · obtain ⟨m, hm, hi⟩ := h
    rw [h1] at hm
    have hne : mb' ≠ mb := by
      have := (List.mem_filter.1 hm).2
      simp only [decide_not, Bool.not_eq_eq_eq_not, Bool.not_true, decide_eq_false_iff_not] at this
      rw [← hi]; exact this
    simp only [sidesOf, mbSidesOf, h2, List.filter_filter]
    congr 1
    apply List.filter_congr
    intro r _
    by_cases hr : r.mailbox = mb' <;> simp [hr, hne]

theorem Del.closeDeletes (d : Chan) (app mb : String) : Del d (d.closeDeletes app mb) :=
  Del.of_filter (mb := mb) rfl rfl

theorem Del.prim {f : Chan → Chan} (hf : DelPrim f) (d : Chan) : Del d (f d) := by
  cases hf with
  | delNp id => exact Del.of_eq rfl rfl
  | delMb id => exact Del.of_filter (mb := id) rfl rfl
  | touchSome p inst t =>
    refine ⟨fun mb h => ?_, fun mb _ => rfl⟩
    exact (hasId_of_mailboxes_map (d := d)
      (f := fun r => if p r then { r with updated := t } else r)
      (fun r => by split <;> rfl) rfl).1 h

/-! ### nameplates -/

def npSideNames (d : Chan) (npid : Nat) : List String := (d.npSidesOf npid).map (·.side)

/-- nameplate rows are never modified and their ids never re-used: a nameplate row of `d'` with an
    id below the old counter is a row of `d`, and its list of sides has only grown at the end -/
structure NpGrow (d d' : Chan) : Prop where
  next : d.nextNp ≤ d'.nextNp
  rows : ∀ n' ∈ d'.nameplates, n'.id < d.nextNp → n' ∈ d.nameplates
  sides : ∀ n' ∈ d'.nameplates, n'.id < d.nextNp → d.npSideNames n'.id <+: d'.npSideNames n'.id

theorem NpGrow.refl (d : Chan) : NpGrow d d :=
  ⟨Nat.le_refl _, fun _ h _ => h, fun _ _ _ => List.prefix_refl _⟩

theorem NpGrow.trans {a b c : Chan} (h1 : NpGrow a b) (h2 : NpGrow b c) : NpGrow a c := by
  refine ⟨Nat.le_trans h1.next h2.next, ?_, ?_⟩
  · intro n hn hlt
    exact h1.rows n (h2.rows n hn (Nat.lt_of_lt_of_le hlt h1.next)) hlt
  · intro n hn hlt
    have hb := h2.rows n hn (Nat.lt_of_lt_of_le hlt h1.next)
    exact (h1.sides n hb hlt).trans (h2.sides n hn (Nat.lt_of_lt_of_le hlt h1.next))

theorem NpGrow.of_eq {d d' : Chan} (h1 : d'.nameplates = d.nameplates) (h2 : d'.npSides = d.npSides)
    (h3 : d'.nextNp = d.nextNp) : NpGrow d d' := by
  refine ⟨by rw [h3]; exact Nat.le_refl _, fun n hn _ => by rw [← h1]; exact hn, fun n _ _ => ?_⟩
  unfold npSideNames npSidesOf; rw [h2]; exact List.prefix_refl _

theorem NpGrow.closeSide (d : Chan) (mb side : String) (mood : Option String) :
    NpGrow d (d.closeSide mb side mood) := NpGrow.of_eq rfl rfl rfl

/-- deleting the nameplate row(s) with id `id` together with their side rows -/
theorem NpGrow.delNp (d : Chan) (id : Nat) : NpGrow d ((d.delNpSidesOf id).delNameplate id) := by
  refine ⟨Nat.le_refl _, fun n hn _ => ?_, fun n hn _ => ?_⟩
  · simp only [delNameplate, delNpSidesOf, List.mem_filter] at hn
    exact hn.1
  · simp only [delNameplate, delNpSidesOf, List.mem_filter, decide_not, Bool.not_eq_eq_eq_not, Bool.not_true,
      decide_eq_false_iff_not] at hn
    have : ((d.delNpSidesOf id).delNameplate id).npSidesOf n.id = d.npSidesOf n.id := by
      simp only [npSidesOf, delNameplate, delNpSidesOf, List.filter_filter]
      apply List.filter_congr
      intro r _
      by_cases hr : r.npid = n.id <;> simp [hr, hn.2]
    unfold npSideNames; rw [this]; exact List.prefix_refl _

theorem NpGrow.grow {d0 : Chan} {f : Chan → Chan} (hf : GrowPrim d0 f) (d : Chan) : NpGrow d (f d) := by
  cases hf with
  | insMailbox r _ => exact NpGrow.of_eq rfl rfl rfl
  | insMbSide r => exact NpGrow.of_eq rfl rfl rfl
  | touch mb t => exact NpGrow.of_eq rfl rfl rfl
  | insMessage r => exact NpGrow.of_eq rfl rfl rfl
  | insNameplate a n m =>
    refine ⟨Nat.le_succ _, fun n' hn hlt => ?_, fun n' _ _ => List.prefix_refl _⟩
    simp only [Chan.insNameplate, List.mem_append, List.mem_singleton] at hn
    rcases hn with hn | rfl
    · exact hn
    · simp at hlt
  | insNpSide r =>
    refine ⟨Nat.le_refl _, fun _ hn _ => hn, fun n' _ _ => ?_⟩
    simp only [npSideNames, npSidesOf, Chan.insNpSide, List.filter_append, List.map_append]
    exact List.prefix_append _ _
  | unclaim n sd =>
    refine ⟨Nat.le_refl _, fun _ hn _ => hn, fun n' _ _ => ?_⟩
    have : (d.unclaim n sd).npSideNames n'.id = d.npSideNames n'.id := by
      simp only [npSideNames, npSidesOf, Chan.unclaim]
      apply map_filter_map_of_inv
      · intro x; split <;> rfl
      · intro x; split <;> rfl
    rw [this]; exact List.prefix_refl _
  | delNp id => exact NpGrow.delNp d id

theorem NpGrow.prim {f : Chan → Chan} (hf : DelPrim f) (d : Chan) : NpGrow d (f d) := by
  cases hf with
  | delNp id => exact NpGrow.delNp d id
  | delMb id => exact NpGrow.of_eq rfl rfl rfl
  | touchSome p inst t => exact NpGrow.of_eq rfl rfl rfl

/-- the DELETEs of `Mailbox.close`, relative to a database `d0` with unique nameplate ids: the side
    rows that go are those of the nameplates that go (this is what repair A established) -/
theorem NpGrow.closeDeletes {d0 d : Chan} (hu : d0.nameplates.Pairwise (fun a b => ¬ a.id = b.id))
    (h : NpGrow d0 d) (app mb : String) : NpGrow d0 (d.closeDeletes app mb) := by
  refine ⟨h.next, fun n hn hlt => ?_, fun n hn hlt => ?_⟩
  · simp only [Chan.closeDeletes, delMailbox, delMbSidesOf, delMessagesOf, delNameplatesOfMailbox,
      delNpSidesOfMailbox, List.mem_filter] at hn
    exact h.rows n hn.1 hlt
  · simp only [Chan.closeDeletes, delMailbox, delMbSidesOf, delMessagesOf, delNameplatesOfMailbox,
      delNpSidesOfMailbox, List.mem_filter, decide_not, Bool.not_eq_eq_eq_not, Bool.not_true,
      decide_eq_false_iff_not] at hn
    have hn0 := h.rows n hn.1 hlt
    have : (d.closeDeletes app mb).npSidesOf n.id = d.npSidesOf n.id := by
      simp only [npSidesOf, Chan.closeDeletes, delMailbox, delMbSidesOf, delMessagesOf, delNameplatesOfMailbox,
        delNpSidesOfMailbox, List.filter_filter]
      apply List.filter_congr
      intro r _
      by_cases hr : r.npid = n.id
      · simp only [hr, decide_true, Bool.true_and]
        apply decide_eq_true
        simp only [nameplatesOfMailbox, List.mem_map, List.mem_filter, decide_eq_true_eq,
          not_exists, not_and]
        rintro n2 ⟨hn2, hk⟩ hid
        have hn20 := h.rows n2 hn2 (by omega)
        have : n2 = n := eq_of_pairwise_ne (f := Nameplate.id) hu hn20 hn0 hid
        subst this
        exact hn.2 hk
      · simp [hr]
    unfold npSideNames
    rw [this]
    exact h.sides n hn.1 hlt

/-! ### "side σ has (app, mb) open" -/

def OpenAt (d : Chan) (app mb side : String) : Prop :=
  d.HasBox app mb ∧ ∃ r ∈ d.mbSides, r.mailbox = mb ∧ r.side = side ∧ r.opened = true

theorem OpenAt.of_eq {d d' : Chan} {app mb side : String} (h1 : d'.mailboxes = d.mailboxes)
    (h2 : d'.mbSides = d.mbSides) (h : d.OpenAt app mb side) : d'.OpenAt app mb side := by
  unfold OpenAt HasBox at *
  rw [h1, h2]; exact h

theorem OpenAt.grow {d0 : Chan} {f : Chan → Chan} (hf : GrowPrim d0 f) {d : Chan} {app mb side : String}
    (h : d.OpenAt app mb side) : (f d).OpenAt app mb side := by
  refine ⟨(Mono.grow hf d).rows _ _ h.1, ?_⟩
  obtain ⟨r, hr, hk⟩ := h.2
  cases hf with
  | insMbSide r' => exact ⟨r, by simp [Chan.insMbSide, hr], hk⟩
  | _ => exact ⟨r, hr, hk⟩

theorem OpenAt.closeSide {d : Chan} {app mb side : String} (h : d.OpenAt app mb side)
    {mb' side' : String} (mood : Option String) (hne : ¬ (mb' = mb ∧ side' = side)) :
    (d.closeSide mb' side' mood).OpenAt app mb side := by
  refine ⟨h.1, ?_⟩
  obtain ⟨r, hr, h1, h2, h3⟩ := h.2
  exact ⟨r, mem_closeSide_mbSides.2 (Or.inl ⟨hr, fun hk => hne ⟨hk.1.symm.trans h1, hk.2.symm.trans h2⟩⟩),
    h1, h2, h3⟩

theorem OpenAt.closeDeletes {d : Chan} {app mb side : String} (h : d.OpenAt app mb side)
    (app' mb' : String) (hno : (d.mbSidesOf mb').any (·.opened) = false) :
    (d.closeDeletes app' mb').OpenAt app mb side := by
  obtain ⟨⟨m, hm, ha, hi⟩, r, hr, h1, h2, h3⟩ := h
  have hne : mb ≠ mb' := by
    rintro rfl
    have : (d.mbSidesOf mb).any (·.opened) = true := by
      simp only [List.any_eq_true, mbSidesOf, List.mem_filter, decide_eq_true_eq]
      exact ⟨r, ⟨hr, h1⟩, h3⟩
    rw [hno] at this; cases this
  refine ⟨⟨m, ?_, ha, hi⟩, r, ?_, h1, h2, h3⟩
  · simp only [Chan.closeDeletes, delMailbox, List.mem_filter, decide_not, Bool.not_eq_eq_eq_not, Bool.not_true,
      decide_eq_false_iff_not]
    exact ⟨hm, by rw [hi]; exact hne⟩
  · simp only [Chan.closeDeletes, delMailbox, delMbSidesOf, List.mem_filter, decide_not, Bool.not_eq_eq_eq_not,
      Bool.not_true, decide_eq_false_iff_not]
    exact ⟨hr, by rw [h1]; exact hne⟩

end Chan

/-! ### every operation -/
namespace Sys

/-- the one generic theorem about `stepPlain`: a property `R` of the channel database that the
    growing statements preserve, that weakens to `R'` when deletion starts, where `R'` survives the
    sweep's statements (needed only if the operation is a sweep) and `R`/`R'` survive the UPDATE /
    the DELETEs of `Mailbox.close` on the mailbox a `close` acts on (needed only for a `close`) -/
theorem stepPlain_track {R R' : Chan → Prop} (hg : ∀ d f, GrowPrim d f → R d → R (f d))
    (hsub : ∀ d, R d → R' d) {s : Sys} {op : Op}
    (hsw : op.isSweep = true → ∀ f, DelPrim f → ∀ d, R' d → R' (f d))
    (hcs : ∀ c t id x m mood app tgt, op = .recv c t id (.close m mood) → s.findConn c = some x →
      x.app = some app → x.closeTarget m = some tgt →
      ∀ d, R d → d.HasBox app tgt → R (d.closeSide tgt (x.side.getD "") mood))
    (hdel : ∀ c t id x m mood app tgt, op = .recv c t id (.close m mood) → s.findConn c = some x →
      x.app = some app → x.closeTarget m = some tgt →
      ∀ d, R' d → (d.mbSidesOf tgt).any (·.opened) = false → R' (d.closeDeletes app tgt))
    (h : Track R s) : Track R' (s.stepPlain op) := by
  have hC : ClosedC (Track R) := Track.closedC hg
  have hB' : ClosedBase (Track R') := Track.closedBase R'
  cases op with
  | connect c =>
    apply Track.mono hsub
    exact hC.toClosedBase.send (s := { s with conns := s.conns ++ [({ id := c } : Conn)] })
      (h.anyConns _) _ _
  | recv c t id cmd =>
    apply onMessage_track hC hB' (fun _ cs h => h.anyConns cs) (fun _ h => h.mono hsub) c t id cmd
      (fun _ => Track.msgClosed R)
    · intro x m mood app tgt hx hcmd happ htg s1 h1 hh
      exact h1.modDb _ (hcs c t id x m mood app tgt (by rw [hcmd]) hx happ htg _ h1.db hh)
    · intro x m mood app tgt hx hcmd happ htg s1 h1 hno
      exact h1.modDb _ (hdel c t id x m mood app tgt (by rw [hcmd]) hx happ htg _ h1.db hno)
    · exact h
  | drop c => exact (h.mono hsub).anyConns _
  | sweep now fault =>
    exact (Track.closedDel (hsw rfl)).expire (h.mono hsub) now fault
  | restart t =>
    have := h.mono hsub
    exact ⟨this.disk, this.disk, this.snaps⟩
  | crashIn k op => exact h.mono hsub

/-- ... and for `step` (crashes included): whatever state the operation leaves -/
theorem step_track {R R' : Chan → Prop} (hg : ∀ d f, GrowPrim d f → R d → R (f d))
    (hsub : ∀ d, R d → R' d) {s : Sys} {op : Op}
    (hsw : op.core.isSweep = true → ∀ f, DelPrim f → ∀ d, R' d → R' (f d))
    (hcs : ∀ c t id x m mood app tgt, op.core = .recv c t id (.close m mood) → s.findConn c = some x →
      x.app = some app → x.closeTarget m = some tgt →
      ∀ d, R d → d.HasBox app tgt → R (d.closeSide tgt (x.side.getD "") mood))
    (hdel : ∀ c t id x m mood app tgt, op.core = .recv c t id (.close m mood) → s.findConn c = some x →
      x.app = some app → x.closeTarget m = some tgt →
      ∀ d, R' d → (d.mbSidesOf tgt).any (·.opened) = false → R' (d.closeDeletes app tgt))
    (h1 : R s.db) (h2 : R s.disk) : R' (s.step op).db := by
  have h0 : Track R ({ s with out := [], snaps := [] } : Sys) := Track.start h1 h2
  by_cases hcr : ∃ k op', op = .crashIn k op'
  · obtain ⟨k, op', rfl⟩ := hcr
    exact Track.crash (hsub _ h2)
      (stepPlain_track (s := { s with out := [], snaps := [] }) hg hsub hsw hcs hdel h0) k
  · have hcore : op.core = op := by
      cases op <;> first | rfl | exact absurd ⟨_, _, rfl⟩ hcr
    have hstep : s.step op = ({ s with out := [], snaps := [] } : Sys).stepPlain op := by
      cases op <;> first | rfl | exact absurd ⟨_, _, rfl⟩ hcr
    rw [hstep]
    rw [hcore] at hsw hcs hdel
    exact (stepPlain_track (s := { s with out := [], snaps := [] }) hg hsub hsw hcs hdel h0).db

/-- **every operation (sweeps and crashes included)** relates the channel database before and
    after by `MD`: rows are added before any mailbox is deleted -/
theorem step_MD (s : Sys) (hs : s.db = s.disk) (op : Op) : Chan.MD s.db (s.step op).db := by
  apply step_track (R := Chan.Mono s.db) (R' := Chan.MD s.db)
  · intro d f hf h; exact h.trans (Chan.Mono.grow hf d)
  · intro d h; exact h.md
  · intro _ f hf d h; exact h.del (Chan.Del.prim hf d)
  · intro c t id x m mood app tgt _ _ _ _ d h _; exact h.trans (Chan.Mono.closeSide d _ _ _)
  · intro c t id x m mood app tgt _ _ _ _ d h _; exact h.del (Chan.Del.closeDeletes d _ _)
  · exact Chan.Mono.refl _
  · rw [← hs]; exact Chan.Mono.refl _

/-- **every operation** relates the nameplate tables before and after by `NpGrow` (needs unique
    nameplate ids before) -/
theorem step_NpGrow (s : Sys) (hs : s.db = s.disk)
    (hu : s.db.nameplates.Pairwise (fun a b => ¬ a.id = b.id)) (op : Op) :
    Chan.NpGrow s.db (s.step op).db := by
  apply step_track (R := Chan.NpGrow s.db) (R' := Chan.NpGrow s.db)
  · intro d f hf h; exact h.trans (Chan.NpGrow.grow hf d)
  · intro d h; exact h
  · intro _ f hf d h; exact h.trans (Chan.NpGrow.prim hf d)
  · intro c t id x m mood app tgt _ _ _ _ d h _; exact h.trans (Chan.NpGrow.closeSide d _ _ _)
  · intro c t id x m mood app tgt _ _ _ _ d h _; exact Chan.NpGrow.closeDeletes hu h _ _
  · exact Chan.NpGrow.refl _
  · rw [← hs]; exact Chan.NpGrow.refl _

end Sys
end Wormhole
