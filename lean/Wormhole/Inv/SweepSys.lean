/-
  The expiry sweep on the system state: `Sys.prune`, `Sys.pruneApps`, `Sys.expire` and the
  operation `Op.sweep` in terms of the pure database functions of `Inv/SweepDb.lean`.

  Main results (for EVERY state whose database satisfies `CInv`):
  * `prune_db`       one `prune` = `Chan.pruneApp` with the listener oracle `s.listened`;
  * `expire_db`      a non-faulted firing = `Chan.sweepP (fun _ => true)`: the sweep of all apps at once;
  * `step_sweep_spec`, `step_sweep_fault`   the same for `s.step (.sweep now fault)`;
  * `SwInv` (`CInv` + `ConnInv` + `Synced`) is preserved by every sweep, faulted or not.
-/
import Wormhole.Inv.SweepDb
import Wormhole.Inv.WsLemmas
import Wormhole.Reach

namespace Wormhole
open Generated

theorem sweep_expirationTicks_pos : 0 < expirationTicks := by decide
theorem sweep_periodTicks_pos : 0 < periodTicks := by decide
theorem sweep_period_lt_expiration : periodTicks < expirationTicks := by decide

namespace Sys

/-- somebody is subscribed to mailbox `mb` of `app` (the `Mailbox` object has a listener) -/
def listened (s : Sys) (app mb : String) : Bool := decide (s.listeners app mb ≠ [])

theorem listened_iff {s : Sys} {app mb : String} :
    s.listened app mb = true ↔
      ∃ x ∈ s.conns, x.listening = true ∧ x.app = some app ∧ x.mailbox = some mb := by
  simp [listened, listeners, List.filter_eq_nil_iff]

theorem listened_congr {s s1 : Sys} (h : s1.conns = s.conns) : s1.listened = s.listened := by
  funext a m; simp [listened, listeners, h]

/-- the components a sweep never touches -/
structure Fixed (s s1 : Sys) : Prop where
  conns : s1.conns = s.conns
  rebooted : s1.rebooted = s.rebooted
  cfg : s1.cfg = s.cfg

theorem Fixed.refl (s : Sys) : Fixed s s := ⟨rfl, rfl, rfl⟩
theorem Fixed.trans {a b c : Sys} (h1 : Fixed a b) (h2 : Fixed b c) : Fixed a c :=
  ⟨h2.conns.trans h1.conns, h2.rebooted.trans h1.rebooted, h2.cfg.trans h1.cfg⟩

theorem Fixed.commit (s : Sys) : Fixed s s.commit := by
  unfold Sys.commit; split <;> exact ⟨rfl, rfl, rfl⟩
theorem Fixed.ucommit (s : Sys) : Fixed s s.ucommit := by
  unfold Sys.ucommit; split <;> exact ⟨rfl, rfl, rfl⟩
theorem Fixed.modDb (s : Sys) (f) : Fixed s (s.modDb f) := ⟨rfl, rfl, rfl⟩
theorem Fixed.modUdb (s : Sys) (f) : Fixed s (s.modUdb f) := ⟨rfl, rfl, rfl⟩
theorem Fixed.emit (s : Sys) (e) : Fixed s (s.emit e) := ⟨rfl, rfl, rfl⟩

theorem storeNameplateUsage_fixed (s : Sys) (app sides t p) :
    Fixed s (s.storeNameplateUsage app sides t p).1 ∧ (s.storeNameplateUsage app sides t p).1.db = s.db := by
  unfold storeNameplateUsage
  split
  · exact ⟨Fixed.refl _, rfl⟩
  · exact ⟨⟨rfl, rfl, rfl⟩, rfl⟩

/-! ### the two loops -/

theorem sw_pruneNameplates_db {app now} (l : List Nameplate) :
    ∀ {s s1 : Sys}, s.pruneNameplates app now l = (s1, true) →
      s1.db = s.db.dropNps (l.map (·.id)) ∧ Fixed s s1 := by
  induction l with
  | nil =>
    intro s s1 h
    simp only [pruneNameplates, Prod.mk.injEq, and_true] at h
    subst h
    exact ⟨by simp [Chan.dropNps_nil], Fixed.refl _⟩
  | cons np rest ih =>
    intro s s1 h
    unfold pruneNameplates at h
    dsimp only at h
    split at h
    · split at h
      · simp at h
      · rename_i s2 e
        obtain ⟨f2, d2⟩ := storeNameplateUsage_fixed (s.modDb fun d => (d.delNpSidesOf np.id).delNameplate np.id)
          app (s.db.npSidesOf np.id) now true
        rw [e] at f2 d2
        obtain ⟨hd, hf⟩ := ih h
        refine ⟨?_, (Fixed.modDb _ _).trans (f2.trans hf)⟩
        rw [hd, d2]
        simp only [modDb_db, List.map_cons]
        exact Chan.dropNps_cons _ _ _
    · obtain ⟨hd, hf⟩ := ih h
      refine ⟨?_, (Fixed.modDb _ _).trans hf⟩
      rw [hd]
      simp only [modDb_db, List.map_cons]
      exact Chan.dropNps_cons _ _ _

theorem sw_pruneMailboxes_db {app now} (l : List MailboxRow) :
    ∀ (s : Sys), (s.pruneMailboxes app now l).db = s.db.dropMbs (l.map (·.id)) ∧
      Fixed s (s.pruneMailboxes app now l) := by
  induction l with
  | nil => intro s; exact ⟨by simp [pruneMailboxes, Chan.dropMbs_nil], Fixed.refl _⟩
  | cons row rest ih =>
    intro s
    unfold pruneMailboxes
    dsimp only
    split
    · obtain ⟨hd, hf⟩ := ih ((s.modDb fun d => ((d.delMessagesOf row.id).delMbSidesOf row.id).delMailbox row.id).storeMailboxUsage
        app row.forNp (s.db.mbSidesOf row.id) now true)
      refine ⟨?_, ⟨hf.conns, hf.rebooted, hf.cfg⟩⟩
      rw [hd]
      simp only [storeMailboxUsage, modUdb_db, modDb_db, List.map_cons]
      exact Chan.dropMbs_cons _ _ _
    · obtain ⟨hd, hf⟩ := ih (s.modDb fun d => ((d.delMessagesOf row.id).delMbSidesOf row.id).delMailbox row.id)
      refine ⟨?_, (Fixed.modDb _ _).trans hf⟩
      rw [hd]
      simp only [modDb_db, List.map_cons]
      exact Chan.dropMbs_cons _ _ _

theorem sw_touchListened_db (s : Sys) (app : String) (now : Time) :
    (s.touchListened app now).db = s.db.stampApp s.listened app now := by
  simp only [touchListened, modDb_db, Chan.stampApp, listened, decide_eq_true_eq]

/-! ### one `prune` -/

/-- `AppNamespace.prune`, when no exception escapes: the database is `Chan.pruneApp` of the old one -/
theorem prune_db {s s1 : Sys} {app now old} (h : s.prune app now old = (s1, true)) :
    s1.db = s.db.pruneApp s.listened app now old ∧ Fixed s s1 := by
  rw [prune_eq] at h
  dsimp only at h
  unfold pruneRest at h
  split at h
  · simp at h
  · rename_i s2 e
    obtain ⟨hd2, hf2⟩ := sw_pruneNameplates_db _ e
    obtain ⟨hd3, hf3⟩ := sw_pruneMailboxes_db (app := app) (now := now)
      ((((s.touchListened app now).commit).db.mailboxesOfApp app).filter (fun r => ¬ r.updated > old)) s2
    have hf0 : Fixed s ((s.touchListened app now).commit) := (Fixed.modDb _ _).trans (Fixed.commit _)
    have hdb : (s2.pruneMailboxes app now
        ((((s.touchListened app now).commit).db.mailboxesOfApp app).filter (fun r => ¬ r.updated > old))).db =
        s.db.pruneApp s.listened app now old := by
      rw [hd3, hd2]
      simp only [commit_db, sw_touchListened_db]
      rfl
    have hfx := hf0.trans (hf2.trans hf3)
    dsimp only at h
    split at h
    · simp only [Prod.mk.injEq, and_true] at h
      subst h
      constructor
      · split
        · rw [ucommit_db, commit_db]; exact hdb
        · rw [commit_db]; exact hdb
      · split
        · exact hfx.trans ((Fixed.commit _).trans (Fixed.ucommit _))
        · exact hfx.trans (Fixed.commit _)
    · simp only [Prod.mk.injEq, and_true] at h
      subst h
      exact ⟨hdb, hfx⟩

/-! ### the loop over the apps -/

theorem pruneApps_db {now old} (l : List String) :
    ∀ {s s1 : Sys}, s.pruneApps now old l = (s1, true) →
      s1.db = s.db.pruneFold s.listened now old l ∧ Fixed s s1 := by
  induction l with
  | nil =>
    intro s s1 h
    simp only [pruneApps, Prod.mk.injEq, and_true] at h
    subst h
    exact ⟨rfl, Fixed.refl _⟩
  | cons app rest ih =>
    intro s s1 h
    unfold pruneApps at h
    split at h
    · simp at h
    · rename_i s2 e
      obtain ⟨hd, hf⟩ := prune_db e
      obtain ⟨hd2, hf2⟩ := ih h
      refine ⟨?_, hf.trans hf2⟩
      rw [hd2, hd, listened_congr hf.conns]
      rfl

/-- `get_all_apps` covers every app that has a row in one of the three tables it looks at -/
theorem mem_allApps {s : Sys} {a : String} :
    a ∈ s.allApps ↔ (∃ n ∈ s.db.nameplates, n.app = a) ∨ (∃ m ∈ s.db.mailboxes, m.app = a) ∨
      (∃ r ∈ s.db.messages, r.app = a) := by
  simp only [allApps, List.mem_mergeSort, List.mem_eraseDups, List.mem_append, List.mem_map, or_assoc]

/-! ### one firing -/

/-- `dump_stats` writes exactly one `current` row -/
theorem dumpStats_fixed (s : Sys) (now : Time) : Fixed s (s.dumpStats now) := by
  unfold dumpStats
  split
  · exact (Fixed.modUdb _ _).trans (Fixed.ucommit _)
  · exact Fixed.refl _

theorem dumpStats_current (s : Sys) (now : Time) (hu : s.cfg.usage = true) :
    (s.dumpStats now).udb.current = [⟨s.rebooted, now, s.cfg.blur, (s.conns.filter (·.listening)).length⟩] := by
  simp [dumpStats, hu]

/-- a non-faulted firing of `expire()` from a state whose database satisfies the commit-point
    invariant: no exception, and the database is swept in ALL apps at once -/
theorem expire_db {s : Sys} (h : s.db.CInv) (now : Time) :
    (s.expire now false).db = s.db.sweepP (fun _ => true) s.listened now (now - expirationTicks) ∧
    Fixed s (s.expire now false) ∧
    ∃ s1, (s.emit (.fired now (now - expirationTicks))).pruneApps now (now - expirationTicks) s.allApps
      = (s1, true) ∧ s.expire now false = s1.dumpStats now := by
  have hlt : now - expirationTicks < now := Int.sub_lt_self now sweep_expirationTicks_pos
  generalize hp : (s.emit (.fired now (now - expirationTicks))).pruneApps now (now - expirationTicks) s.allApps = p
  obtain ⟨s1, b⟩ := p
  obtain ⟨_, hk⟩ := pruneApps_spec _ hp
  obtain ⟨_, hb, _⟩ := hk (by simpa using h.npOk)
  subst hb
  obtain ⟨hd, hf⟩ := pruneApps_db _ hp
  have he : s.expire now false = s1.dumpStats now := by
    unfold expire
    simp only [Bool.false_eq_true, if_false]
    have : (s.emit (.fired now (now - expirationTicks))).allApps = s.allApps := rfl
    rw [this, hp]
  refine ⟨?_, ?_, s1, rfl, he⟩
  · rw [he, dumpStats_db, hd]
    have : (s.emit (.fired now (now - expirationTicks))).listened = s.listened := listened_congr rfl
    rw [this, emit_db, Chan.pruneFold_eq_sweepP _ hlt _ h.toPInv]
    apply Chan.sweepP_all
    intro m hm
    simp only [decide_eq_true_eq]
    exact mem_allApps.2 (Or.inr (Or.inl ⟨m, hm, rfl⟩))
  · rw [he]
    exact ((Fixed.emit _ _).trans hf).trans (dumpStats_fixed _ _)

/-- a faulted firing: nothing but the log entry and `dump_stats` -/
theorem expire_fault (s : Sys) (now : Time) :
    s.expire now true =
      ((s.emit (.fired now (now - expirationTicks))).emit (.internal none "OperationalError")).dumpStats now := by
  simp [expire]

/-! ### the invariant of sweeping -/

/-- what the sweep needs and keeps: commit-point invariant of the database, consistent
    connection records, nothing uncommitted (three of the fields of `GSys.GInv`, see Inv/SweepGInv.lean) -/
structure SwInv (s : Sys) : Prop where
  cinv : s.db.CInv
  conn : s.ConnInv
  synced : s.Synced

theorem step_sweep (s : Sys) (now : Time) (fault : Bool) :
    s.step (.sweep now fault) = ({ s with out := [], snaps := [] } : Sys).expire now fault := rfl

/-- the operation `sweep now false` -/
theorem step_sweep_spec {s : Sys} (h : s.db.CInv) (now : Time) :
    (s.step (.sweep now false)).db = s.db.sweepP (fun _ => true) s.listened now (now - expirationTicks) ∧
    Fixed s (s.step (.sweep now false)) := by
  rw [step_sweep]
  obtain ⟨hd, hf, _⟩ := expire_db (s := { s with out := [], snaps := [] }) h now
  exact ⟨hd, ⟨hf.conns, hf.rebooted, hf.cfg⟩⟩

/-- the operation `sweep now true`: the channel database and the connections are untouched -/
theorem step_sweep_fault (s : Sys) (now : Time) :
    (s.step (.sweep now true)).db = s.db ∧ Fixed s (s.step (.sweep now true)) := by
  rw [step_sweep, expire_fault]
  refine ⟨by simp, ?_⟩
  have := dumpStats_fixed ((({ s with out := [], snaps := [] } : Sys).emit (.fired now (now - expirationTicks))).emit
    (.internal none "OperationalError")) now
  exact ⟨this.conns, this.rebooted, this.cfg⟩

/-- connection records stay consistent when the database is swept with their own listener oracle -/
theorem ConnInv.sweep {s s1 : Sys} (h : s.ConnInv) (hp : s.db.PInv) (hf : Fixed s s1) {A : String → Bool}
    {now old : Time}
    (hd : s1.db = s.db.sweepP A s.listened now old) : s1.ConnInv := by
  obtain ⟨i, hh, hl, hb⟩ := h
  constructor
  · rw [hf.conns]; exact i
  · intro x hx mb hmb
    rw [hf.conns] at hx
    obtain ⟨h1, a, ha, m, hm, e1, e2⟩ := hh x hx mb hmb
    refine ⟨h1, a, ha, Chan.stamp A s.listened now m, ?_, by simpa using e1, by simpa using e2⟩
    rw [hd, Chan.mem_sweepP_mailboxes]
    refine ⟨m, hm, ?_, rfl⟩
    intro hdead
    obtain ⟨m', hm', hd', e'⟩ := Chan.mem_deadIds.1 hdead
    have hL : s.listened m'.app m'.id = false := (Chan.dead_iff.1 hd').2.1
    -- `m'` has the id of `m`; the listener `x` is subscribed under app `a`
    have : m' = m := Chan.eq_of_pairwise_ne (f := MailboxRow.id) hp.mbIds hm' hm e'
    subst this
    have : s.listened m'.app m'.id = true :=
      listened_iff.2 ⟨x, hx, h1, by rw [ha, e2], by rw [hmb, e1]⟩
    rw [hL] at this
    cases this
  · intro x hx; rw [hf.conns] at hx; exact hl x hx
  · intro x hx; rw [hf.conns] at hx; exact hb x hx

/-- every sweep, faulted or not, at any time, keeps `SwInv` -/
theorem SwInv.step_sweep {s : Sys} (h : s.SwInv) (now : Time) (fault : Bool) :
    (s.step (.sweep now fault)).SwInv := by
  have hsync : (s.step (.sweep now fault)).Synced := (Ok.step h.synced h.cinv.npOk (op := .sweep now fault) rfl).synced
  cases fault with
  | true =>
    obtain ⟨hd, hf⟩ := step_sweep_fault s now
    refine ⟨by rw [hd]; exact h.cinv, ?_, hsync⟩
    obtain ⟨i, hh, hl, hb⟩ := h.conn
    refine ⟨by rw [hf.conns]; exact i, ?_, by rw [hf.conns]; exact hl, by rw [hf.conns]; exact hb⟩
    rw [hf.conns, hd]; exact hh
  | false =>
    obtain ⟨hd, hf⟩ := step_sweep_spec h.cinv now
    exact ⟨by rw [hd]; exact h.cinv.sweepP _ _ _ _, h.conn.sweep h.cinv.toPInv hf hd, hsync⟩

/-- the events of a faulted firing: `fired`, the logged error, and the usage commit of `dump_stats`
    when that changes the usage file -/
theorem step_sweep_fault_out (s : Sys) (now : Time) :
    (s.step (.sweep now true)).out =
      [.fired now (now - expirationTicks), .internal none "OperationalError"] ++
        (if s.cfg.usage = true ∧
            ({ s.udb with current := [⟨s.rebooted, now, s.cfg.blur, (s.conns.filter (·.listening)).length⟩] } : Usage)
              ≠ s.udisk
         then [.commit .usage] else []) := by
  rw [step_sweep, expire_fault]
  unfold dumpStats
  by_cases hu : s.cfg.usage = true
  · simp only [emit_cfg, hu, if_true, true_and]
    unfold ucommit
    split
    · rename_i e
      simp only [modUdb_udb, emit_udb, modUdb_udisk, emit_udisk] at e
      simp [emit, modUdb]
      exact e
    · rename_i e
      simp only [modUdb_udb, emit_udb, modUdb_udisk, emit_udisk] at e
      simp [emit, modUdb]
      exact e
  · simp [hu, emit]

/-- the events of a non-faulted firing from a `CInv` state: `fired` and commits, no `internal` -/
theorem step_sweep_out {s : Sys} (h : s.db.CInv) (now : Time) :
    ∃ l, (s.step (.sweep now false)).out = .fired now (now - expirationTicks) :: l ∧ ∀ e ∈ l, IsCommit e := by
  rw [step_sweep]
  obtain ⟨_, _, s1, hp, he⟩ := expire_db (s := { s with out := [], snaps := [] }) h now
  rw [he]
  have h1 := CExt.pruneApps (now := now) (old := now - expirationTicks)
    ({ s with out := [], snaps := [] } : Sys).allApps
    (OutExt.refl (P := IsCommit) (s := ({ s with out := [], snaps := [] } : Sys).emit (.fired now (now - expirationTicks))))
  rw [hp] at h1
  obtain ⟨l, hl, hc⟩ := CExt.dumpStats h1 (now := now)
  exact ⟨l, by simpa using hl, hc⟩

end Sys

end Wormhole
