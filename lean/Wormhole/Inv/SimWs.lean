/-
  Two-run (simulation) library, part 3: server_websocket.py.

  `W R a b` = the two runs are related by `R` and both are at a point of a step where every
  frame so far was sent with nothing uncommitted, nothing is uncommitted now, and the nameplate
  tables are in order (`Sys.Ok`, the invariant of C09).  `Ok` is what makes the `synced` flag
  of every frame `true` in BOTH runs (so frames can be compared with their flags), and what
  rules out the `IndexError` branches whose reachability would depend on the usage option.

  Result: every handler, `onMessage`, `connect`, `dropConn` and the sweep up to `dump_stats`
  preserve `W R`, for every `R` with `SimRel R`.
-/
import Wormhole.Inv.SimCore

namespace Wormhole
namespace Sys

structure W (R : Sys → Sys → Prop) (a b : Sys) : Prop where
  rel : R a b
  oka : a.Ok
  okb : b.Ok

variable {R : Sys → Sys → Prop}

section
variable (hR : SimRel R) {a b : Sys}
include hR

theorem W.send (w : W R a b) (c : Nat) (f : Frame) : W R (a.send c f) (b.send c f) := by
  refine ⟨?_, w.oka.send c f, w.okb.send c f⟩
  unfold Sys.send
  rw [(synced_iff a).2 w.oka.synced, (synced_iff b).2 w.okb.synced]
  exact hR.emit w.rel _

theorem W.sendError (w : W R a b) (c : Nat) (t : String) : W R (a.sendError c t) (b.sendError c t) :=
  w.send hR c _

theorem W.internalErr (w : W R a b) (c : Nat) (cls : String) : W R (a.internalErr c cls) (b.internalErr c cls) :=
  ⟨hR.emit w.rel _, w.oka.internalErr c cls, w.okb.internalErr c cls⟩

theorem W.updConn (w : W R a b) (c : Nat) (f : Conn → Conn) : W R (a.updConn c f) (b.updConn c f) :=
  ⟨updConn_sim hR w.rel c f, w.oka.updConn c f, w.okb.updConn c f⟩

theorem W.claimNameplate (w : W R a b) {app name side : String} {t : Time} {fresh : String} {a1 b1 : Sys}
    {ra rb : ClaimRes} (ea : a.claimNameplate app name side t fresh = (a1, ra))
    (eb : b.claimNameplate app name side t fresh = (b1, rb)) : W R a1 b1 ∧ ra = rb := by
  obtain ⟨h1, hr⟩ := claimNameplate_sim hR w.rel ea eb
  exact ⟨⟨h1, w.oka.claimNameplate ea, w.okb.claimNameplate eb⟩, hr⟩

theorem W.releaseNameplate (w : W R a b) {app name side : String} {t : Time} {a1 b1 : Sys} {ba bb : Bool}
    (ea : a.releaseNameplate app name side t = (a1, ba)) (eb : b.releaseNameplate app name side t = (b1, bb)) :
    W R a1 b1 ∧ ba = true ∧ bb = true := by
  have ta := a.releaseNameplate_true app name side t
  have tb := b.releaseNameplate_true app name side t
  rw [ea] at ta; rw [eb] at tb
  dsimp only at ta tb
  subst ta; subst tb
  exact ⟨⟨releaseNameplate_sim hR w.rel ea eb, w.oka.releaseNameplate ea, w.okb.releaseNameplate eb⟩, rfl, rfl⟩

theorem W.openMailbox (w : W R a b) {app mb side : String} {t : Time} {a1 b1 : Sys} {ra rb : OpenRes}
    (ea : a.openMailbox app mb side t = (a1, ra)) (eb : b.openMailbox app mb side t = (b1, rb)) :
    W R a1 b1 ∧ ra = rb := by
  obtain ⟨h1, hr⟩ := openMailbox_sim hR w.rel ea eb
  exact ⟨⟨h1, w.oka.openMailbox ea, w.okb.openMailbox eb⟩, hr⟩

theorem W.mailboxClose (w : W R a b) {app mb side : String} {mood : Option String} {t : Time} {a1 b1 : Sys}
    {ba bb : Bool} (ea : a.mailboxClose app mb side mood t = (a1, ba))
    (eb : b.mailboxClose app mb side mood t = (b1, bb)) : W R a1 b1 ∧ ba = true ∧ bb = true := by
  have ta := a.mailboxClose_true app mb side mood t w.oka.np.hasSide
  have tb := b.mailboxClose_true app mb side mood t w.okb.np.hasSide
  rw [ea] at ta; rw [eb] at tb
  dsimp only at ta tb
  subst ta; subst tb
  exact ⟨⟨mailboxClose_sim hR w.rel ea eb, w.oka.mailboxClose ea, w.okb.mailboxClose eb⟩, rfl, rfl⟩

theorem W.addMessage (w : W R a b) (app mb side : String) (ph bd : Val) (t : Time) (id : Val) :
    W R (a.addMessage app mb side ph bd t id) (b.addMessage app mb side ph bd t id) :=
  ⟨addMessage_sim hR w.rel _ _ _ _ _ _ _, w.oka.addMessage _ _ _ _ _ _ _, w.okb.addMessage _ _ _ _ _ _ _⟩

theorem W.logClientVersion (w : W R a b) (app side : String) (t : Time) (i v : Option String) :
    W R (a.logClientVersion app side t i v) (b.logClientVersion app side t i v) :=
  ⟨hR.lcv w.rel _ _ _ _ _, w.oka.logClientVersion _ _ _ _ _, w.okb.logClientVersion _ _ _ _ _⟩

theorem W.foldl_send {α : Type} (g : α → Nat) (fr : α → Frame) (l : List α) :
    ∀ {a b : Sys}, W R a b →
      W R (l.foldl (fun s x => s.send (g x) (fr x)) a) (l.foldl (fun s x => s.send (g x) (fr x)) b) := by
  induction l with
  | nil => intro a b w; exact w
  | cons x l ih => intro a b w; exact ih (w.send hR _ _)

/-! ### the handlers -/

theorem W.handlePing (w : W R a b) (c : Nat) (v : Option Val) : W R (a.handlePing c v) (b.handlePing c v) := by
  unfold Sys.handlePing
  cases v with
  | none => exact w.sendError hR _ _
  | some v => exact w.send hR _ _

theorem W.handleBind (w : W R a b) (x : Conn) (t : Time) (app side impl version : Option String) :
    W R (a.handleBind x t app side impl version) (b.handleBind x t app side impl version) := by
  unfold Sys.handleBind
  by_cases hc : (x.app.isSome = true ∨ (x.side.isSome = true ∧ x.side ≠ some ""))
  · rw [if_pos hc, if_pos hc]
    exact w.sendError hR _ _
  · rw [if_neg hc, if_neg hc]
    cases app with
    | none => exact w.sendError hR _ _
    | some ap =>
      cases side with
      | none => exact w.sendError hR _ _
      | some sd => exact (w.updConn hR _ _).logClientVersion hR _ _ _ _ _

theorem W.handleList (w : W R a b) (x : Conn) (app : String) : W R (a.handleList x app) (b.handleList x app) :=
  ⟨hR.list w.rel w.oka.synced w.okb.synced x app, w.oka.handleList x app, w.okb.handleList x app⟩

theorem W.handleAllocate (w : W R a b) (x : Conn) (app side : String) (t : Time) (pick : Nat) (draws : List Nat)
    (fresh : String) :
    W R (a.handleAllocate x app side t pick draws fresh) (b.handleAllocate x app side t pick draws fresh) := by
  unfold Sys.handleAllocate
  by_cases hc : x.didAllocate = true
  · rw [if_pos hc, if_pos hc]
    exact w.sendError hR _ _
  · rw [if_neg hc, if_neg hc, ← hR.db w.rel]
    cases findAvailable (a.db.namesOfApp app) pick draws with
    | none => exact w.internalErr hR _ _
    | some name =>
      dsimp only
      cases ea : a.claimNameplate app name side t fresh with
      | mk a1 ra =>
        cases eb : b.claimNameplate app name side t fresh with
        | mk b1 rb =>
          obtain ⟨w1, rfl⟩ := w.claimNameplate hR ea eb
          cases ra with
          | ok m => exact (w1.updConn hR _ _).send hR _ _
          | crowded => exact w1.internalErr hR _ _
          | reclaimed => exact w1.internalErr hR _ _
          | integrity => exact w1.internalErr hR _ _

theorem W.handleClaim (w : W R a b) (x : Conn) (app side : String) (t : Time) (n : Option String)
    (fresh : String) : W R (a.handleClaim x app side t n fresh) (b.handleClaim x app side t n fresh) := by
  unfold Sys.handleClaim
  cases n with
  | none => exact w.sendError hR _ _
  | some name =>
    dsimp only
    by_cases hc : x.didClaim = true
    · rw [if_pos hc, if_pos hc]
      exact w.sendError hR _ _
    · rw [if_neg hc, if_neg hc]
      have w0 := w.updConn hR x.id (fun y => { y with didClaim := true, nameplateId := some name })
      cases ea : (a.updConn x.id (fun y => { y with didClaim := true, nameplateId := some name })).claimNameplate
          app name side t fresh with
      | mk a1 ra =>
        cases eb : (b.updConn x.id (fun y => { y with didClaim := true, nameplateId := some name })).claimNameplate
            app name side t fresh with
        | mk b1 rb =>
          obtain ⟨w1, rfl⟩ := w0.claimNameplate hR ea eb
          cases ra with
          | ok m => exact w1.send hR _ _
          | crowded => exact w1.sendError hR _ _
          | reclaimed => exact w1.sendError hR _ _
          | integrity => exact w1.internalErr hR _ _

theorem W.handleRelease (w : W R a b) (x : Conn) (app side : String) (t : Time) (n : Option String) :
    W R (a.handleRelease x app side t n) (b.handleRelease x app side t n) := by
  unfold Sys.handleRelease
  have go : ∀ name : String,
      W R
        (match (a.updConn x.id (fun y => { y with didRelease := true })).releaseNameplate app name side t with
         | (s1, true) => s1.send x.id .released
         | (s1, false) => s1.internalErr x.id "IndexError")
        (match (b.updConn x.id (fun y => { y with didRelease := true })).releaseNameplate app name side t with
         | (s1, true) => s1.send x.id .released
         | (s1, false) => s1.internalErr x.id "IndexError") := by
    intro name
    have w0 := w.updConn hR x.id (fun y => { y with didRelease := true })
    cases ea : (a.updConn x.id (fun y => { y with didRelease := true })).releaseNameplate app name side t with
    | mk a1 ba =>
      cases eb : (b.updConn x.id (fun y => { y with didRelease := true })).releaseNameplate app name side t with
      | mk b1 bb =>
        obtain ⟨w1, rfl, rfl⟩ := w0.releaseNameplate hR ea eb
        exact w1.send hR _ _
  by_cases hc : x.didRelease = true
  · rw [if_pos hc, if_pos hc]
    exact w.sendError hR _ _
  · rw [if_neg hc, if_neg hc]
    dsimp only
    cases n with
    | some nm =>
      cases x.nameplateId with
      | some held =>
        dsimp only
        by_cases hne : nm ≠ held
        · rw [if_pos hne, if_pos hne]
          exact w.sendError hR _ _
        · rw [if_neg hne, if_neg hne]
          exact go _
      | none => exact go _
    | none =>
      cases x.nameplateId with
      | some held => exact go _
      | none => exact w.sendError hR _ _

theorem W.replay (w : W R a b) (c : Nat) (app mb : String) : W R (a.replay c app mb) (b.replay c app mb) := by
  unfold Sys.replay
  rw [← hR.db w.rel]
  exact W.foldl_send hR (fun _ => c) (fun (m : Message) => .message m.side m.phase m.body m.rx m.msgId) _ w

theorem W.broadcast (w : W R a b) (app mb : String) (f : Frame) :
    W R (a.broadcast app mb f) (b.broadcast app mb f) := by
  unfold Sys.broadcast Sys.listeners
  rw [← hR.conns w.rel]
  exact W.foldl_send hR (fun c => c) (fun _ => f) _ w

theorem W.handleOpen (w : W R a b) (x : Conn) (app side : String) (t : Time) (m : Option String) :
    W R (a.handleOpen x app side t m) (b.handleOpen x app side t m) := by
  unfold Sys.handleOpen
  by_cases hc : x.mailbox.isSome = true
  · rw [if_pos hc, if_pos hc]
    exact w.sendError hR _ _
  · rw [if_neg hc, if_neg hc]
    cases m with
    | none => exact w.sendError hR _ _
    | some mb =>
      dsimp only
      have w0 := w.updConn hR x.id (fun y => { y with mailboxId := some mb })
      cases ea : (a.updConn x.id (fun y => { y with mailboxId := some mb })).openMailbox app mb side t with
      | mk a1 ra =>
        cases eb : (b.updConn x.id (fun y => { y with mailboxId := some mb })).openMailbox app mb side t with
        | mk b1 rb =>
          obtain ⟨w1, rfl⟩ := w0.openMailbox hR ea eb
          cases ra with
          | crowded => exact w1.sendError hR _ _
          | integrity => exact w1.internalErr hR _ _
          | ok => exact (w1.updConn hR _ _).replay hR _ _ _

theorem W.handleAdd (w : W R a b) (x : Conn) (app side : String) (t : Time) (id : Val) (ph bd : Option Val) :
    W R (a.handleAdd x app side t id ph bd) (b.handleAdd x app side t id ph bd) := by
  unfold Sys.handleAdd
  cases x.mailbox with
  | none => exact w.sendError hR _ _
  | some mb =>
    cases ph with
    | none => exact w.sendError hR _ _
    | some p =>
      cases bd with
      | none => exact w.sendError hR _ _
      | some d => exact (w.addMessage hR _ _ _ _ _ _ _).broadcast hR _ _ _

theorem W.handleClose (w : W R a b) (x : Conn) (app side : String) (t : Time) (m mood : Option String) :
    W R (a.handleClose x app side t m mood) (b.handleClose x app side t m mood) := by
  unfold Sys.handleClose
  have tail : ∀ (a1 b1 : Sys) (r : OpenRes) (hd : String), W R a1 b1 →
      W R
        (match ((a1, r, hd) : Sys × OpenRes × String) with
         | (s1, .crowded, _) => s1.sendError x.id "crowded"
         | (s1, .integrity, _) => s1.internalErr x.id "IntegrityError"
         | (s1, .ok, h) =>
           let s2 := s1.updConn x.id (fun y => { y with listening := false, didClose := true })
           match s2.mailboxClose app h side mood t with
           | (s3, false) => s3.internalErr x.id "IndexError"
           | (s3, true) => (s3.updConn x.id (fun y => { y with mailbox := none })).send x.id .closed)
        (match ((b1, r, hd) : Sys × OpenRes × String) with
         | (s1, .crowded, _) => s1.sendError x.id "crowded"
         | (s1, .integrity, _) => s1.internalErr x.id "IntegrityError"
         | (s1, .ok, h) =>
           let s2 := s1.updConn x.id (fun y => { y with listening := false, didClose := true })
           match s2.mailboxClose app h side mood t with
           | (s3, false) => s3.internalErr x.id "IndexError"
           | (s3, true) => (s3.updConn x.id (fun y => { y with mailbox := none })).send x.id .closed) := by
    intro a1 b1 r hd w1
    cases r with
    | crowded => exact w1.sendError hR _ _
    | integrity => exact w1.internalErr hR _ _
    | ok =>
      dsimp only
      have w2 := w1.updConn hR x.id (fun y => { y with listening := false, didClose := true })
      cases ea : (a1.updConn x.id (fun y => { y with listening := false, didClose := true })).mailboxClose
          app hd side mood t with
      | mk a3 ba =>
        cases eb : (b1.updConn x.id (fun y => { y with listening := false, didClose := true })).mailboxClose
            app hd side mood t with
        | mk b3 bb =>
          obtain ⟨w3, rfl, rfl⟩ := w2.mailboxClose hR ea eb
          exact (w3.updConn hR _ _).send hR _ _
  have go : ∀ mb : String,
      W R
        (match (match x.mailbox with
            | some h => (a, OpenRes.ok, h)
            | none =>
              match a.openMailbox app mb side t with
              | (s1, r) => (s1.updConn x.id (fun y => if r = OpenRes.ok then { y with mailbox := some mb } else y), r, mb)
            : Sys × OpenRes × String) with
         | (s1, .crowded, _) => s1.sendError x.id "crowded"
         | (s1, .integrity, _) => s1.internalErr x.id "IntegrityError"
         | (s1, .ok, h) =>
           let s2 := s1.updConn x.id (fun y => { y with listening := false, didClose := true })
           match s2.mailboxClose app h side mood t with
           | (s3, false) => s3.internalErr x.id "IndexError"
           | (s3, true) => (s3.updConn x.id (fun y => { y with mailbox := none })).send x.id .closed)
        (match (match x.mailbox with
            | some h => (b, OpenRes.ok, h)
            | none =>
              match b.openMailbox app mb side t with
              | (s1, r) => (s1.updConn x.id (fun y => if r = OpenRes.ok then { y with mailbox := some mb } else y), r, mb)
            : Sys × OpenRes × String) with
         | (s1, .crowded, _) => s1.sendError x.id "crowded"
         | (s1, .integrity, _) => s1.internalErr x.id "IntegrityError"
         | (s1, .ok, h) =>
           let s2 := s1.updConn x.id (fun y => { y with listening := false, didClose := true })
           match s2.mailboxClose app h side mood t with
           | (s3, false) => s3.internalErr x.id "IndexError"
           | (s3, true) => (s3.updConn x.id (fun y => { y with mailbox := none })).send x.id .closed) := by
    intro mb
    cases hx : x.mailbox with
    | some hd => exact tail a b .ok hd w
    | none =>
      dsimp only
      cases ea : a.openMailbox app mb side t with
      | mk a1 ra =>
        cases eb : b.openMailbox app mb side t with
        | mk b1 rb =>
          obtain ⟨w1, rfl⟩ := w.openMailbox hR ea eb
          exact tail _ _ ra mb (w1.updConn hR _ _)
  by_cases hc : x.didClose = true
  · rw [if_pos hc, if_pos hc]
    exact w.sendError hR _ _
  · rw [if_neg hc, if_neg hc]
    dsimp only
    cases m with
    | some mm =>
      cases x.mailboxId with
      | some held =>
        dsimp only
        by_cases hne : mm ≠ held
        · rw [if_pos hne, if_pos hne]
          exact w.sendError hR _ _
        · rw [if_neg hne, if_neg hne]
          exact go _
      | none => exact go _
    | none =>
      cases x.mailboxId with
      | some held => exact go _
      | none => exact w.sendError hR _ _

/-- `onMessage` -/
theorem W.onMessage (w : W R a b) (c : Nat) (t : Time) (id : Val) (cmd : Cmd) :
    W R (a.onMessage c t id cmd) (b.onMessage c t id cmd) := by
  unfold Sys.onMessage
  have hf : b.findConn c = a.findConn c := by unfold Sys.findConn; rw [hR.conns w.rel]
  rw [hf]
  cases a.findConn c with
  | none => exact w
  | some x =>
    dsimp only
    have wa := w.send hR c (.ack id)
    cases cmd with
    | noType => exact w.sendError hR _ _
    | ping v => exact wa.handlePing hR _ _
    | bind ap sd i v => exact wa.handleBind hR _ _ _ _ _ _
    | unknown =>
      dsimp only
      cases x.app with
      | none => exact wa.sendError hR _ _
      | some app => exact wa.sendError hR _ _
    | list =>
      dsimp only
      cases x.app with
      | none => exact wa.sendError hR _ _
      | some app => exact wa.handleList hR _ _
    | allocate pick draws fresh =>
      dsimp only
      cases x.app with
      | none => exact wa.sendError hR _ _
      | some app => exact wa.handleAllocate hR _ _ _ _ _ _ _
    | claim n fresh =>
      dsimp only
      cases x.app with
      | none => exact wa.sendError hR _ _
      | some app => exact wa.handleClaim hR _ _ _ _ _ _
    | release n =>
      dsimp only
      cases x.app with
      | none => exact wa.sendError hR _ _
      | some app => exact wa.handleRelease hR _ _ _ _ _
    | open_ m =>
      dsimp only
      cases x.app with
      | none => exact wa.sendError hR _ _
      | some app => exact wa.handleOpen hR _ _ _ _ _
    | add ph bd =>
      dsimp only
      cases x.app with
      | none => exact wa.sendError hR _ _
      | some app => exact wa.handleAdd hR _ _ _ _ _ _ _
    | close m mood =>
      dsimp only
      cases x.app with
      | none => exact wa.sendError hR _ _
      | some app => exact wa.handleClose hR _ _ _ _ _ _

/-- `onOpen` -/
theorem W.connect (w : W R a b) (c : Nat) : W R (a.connect c) (b.connect c) := by
  unfold Sys.connect
  rw [← hR.conns w.rel, ← hR.welcome w.rel]
  exact W.send hR (a := { a with conns := a.conns ++ [({ id := c } : Conn)] })
    (b := { b with conns := a.conns ++ [({ id := c } : Conn)] })
    ⟨hR.setConns w.rel _, ⟨w.oka.frames, w.oka.synced, w.oka.np⟩, ⟨w.okb.frames, w.okb.synced, w.okb.np⟩⟩ _ _

/-- `onClose` -/
theorem W.dropConn (w : W R a b) (c : Nat) : W R (a.dropConn c) (b.dropConn c) := by
  unfold Sys.dropConn
  rw [← hR.conns w.rel]
  exact ⟨hR.setConns w.rel _, ⟨w.oka.frames, w.oka.synced, w.oka.np⟩, ⟨w.okb.frames, w.okb.synced, w.okb.np⟩⟩

theorem W.restart (w : W R a b) (t : Time) : W R (a.restart t) (b.restart t) :=
  ⟨hR.restart w.rel t, w.oka.restart t, w.okb.restart t⟩

end

/-- `Ok` is kept by the sweep up to `dump_stats` (the proof of `Ok.expire` without its last step) -/
theorem Ok.expireCore {s : Sys} (h : s.Ok) (now : Time) (fault : Bool) : (s.expireCore now fault).Ok := by
  unfold Sys.expireCore
  dsimp only
  have h0 := h.emit (.fired now (now - Generated.expirationTicks)) rfl
  split
  · exact h0.emit _ rfl
  · split
    · rename_i s1 e
      obtain ⟨q, hk⟩ := pruneApps_spec _ e
      obtain ⟨a1, _, a3⟩ := hk h0.np
      exact h0.of_quiet q (a3 h0.synced) a1
    · rename_i s1 e
      obtain ⟨q, hk⟩ := pruneApps_spec _ e
      obtain ⟨a1, _, a3⟩ := hk h0.np
      exact (h0.of_quiet q (a3 h0.synced) a1).emit _ rfl

theorem Ok.dumpStats {s : Sys} (h : s.Ok) (now : Time) : (s.dumpStats now).Ok :=
  ⟨h.frames.of_frames (by simp), ⟨by simpa using h.synced.1, dumpStats_usync _ _ h.synced.2⟩,
    by simpa using h.np⟩

/-- the sweep up to `dump_stats` -/
theorem W.expireCore (hR : SimRel R) {a b : Sys} (w : W R a b) (now : Time) (fault : Bool) :
    W R (a.expireCore now fault) (b.expireCore now fault) :=
  ⟨expireCore_sim hR w.rel w.oka.np now fault, w.oka.expireCore now fault, w.okb.expireCore now fault⟩

end Sys
end Wormhole
